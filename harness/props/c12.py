"""C12 — flashing writes exactly the image, nowhere else.

Tie (V): the real Bootloader._internal_flash / Cloader.upload_buffer / Cloader.write_flash are driven
against the simulated link of fakes/c12_target.py (two targets, FIFO downlink queue, scripted fate
of every flash-write command); the Coq model (C12/Model.v: internal_flash + deliver) is evaluated on
the same case and must produce the same outcome, the same frames (with the same delivered flags),
the same final buffer and flash of both targets, and the same downlink queue.

Oracle: the property text on the observables of the fake target only (no model).
"""
import contextlib
import io
import struct

from core import coqrun
from fakes import c12_target as ft
from fakes import c12_session as fs

ID = 'C12'
PROPERTY_FILE = 'C12/Property.v'
LEVEL = 'proof'
ALLOWED_AXIOMS = ()
TRUSTED_BASE = [
    'C12/Plan.v (Bootloader.flash as a plan of _internal_flash calls: platform/type filtering, target list, soft-device '
    'requirement logic, info cache replaced after the reboot; _flash_flash as it is: every firmware artifact, the target list '
    'is not consulted; '
    'Cloader.read_flash) is hand-written and tied on every run: whole flash(zip, targets) sessions with generated '
    'manifests (1-4 artifacts: stm32/nrf51 firmware, bootloader+softdevice, deck, foreign platform/type/target), '
    'target lists, cf1/cf2 protocol versions, version fields, warm/cold boot, and read_flash runs with scripted reply fates',
    'C12/Session.v (parse of the info packet in _update_info, its retry loop, the nRF51 bootloader+softdevice branch of '
    'Bootloader.flash: erase page + override page flash_pages - len//page_size) is hand-written and tied on every run: '
    '_update_info on scripted receive events, and whole Bootloader.flash(zip, []) sessions (real zip/manifest parsing, real '
    'artifact selection) whose load/write frames and final memories must equal the model composed from parse_info, '
    'flash_sdbl and internal_flash',
    'C12/Model.v (upload_buffer, write_flash, page loop of _internal_flash) is hand-written from '
    'cflib/bootloader/{__init__,cloader}.py and tied on every run by differential evaluation against the real '
    'classes on generated (geometry, image, override page, reply script, stale queue) cases',
    'the bootloader target (tgt_recv: load-buffer 0x14 / write-flash 0x18 on buffer and flash pages, commands '
    'outside the buffer or the flash are not executed and flagged) is written from the protocol as the client '
    'uses it, not from firmware source; it exists twice (Gallina, fakes/c12_target.py) and both are compared in every case',
]
ASSUMPTIONS = [
    'a reference-keeping link takes the queued packet at the latest when the next packet is offered or the client starts '
    'to receive (one-slot out-queue, as cflib.crtp.radiodriver); CRTPPacket objects are modelled as heap cells whose '
    'content is what pk.header/pk.data return when read',
    'between two flashes on one Bootloader object the code keeps only the link (downlink queue) and Cloader.error_code / '
    'targets; an exception raised by the link inside send_packet propagates uncaught (modelled as: the frames before it '
    'went out); the target geometry cache is not changed between the flashes of a history',
    'deck flashing itself (_flash_deck_incrementally, the firmware restart around it) and _get_boot_delay need a running '
    'firmware with the memory subsystem; they are stubbed in the sessions: only the decision to enter the deck phase '
    '(warm boot, target list) and the artifacts handed to it are checked',
    'which artifacts flash(file, targets) selects is not part of the property text: the firmware phase flashes every MCU '
    'firmware artifact and the soft-device step runs whatever the list names (code as is, modelled as is, recorded as '
    'observations in design.d/C12.md)',
    'read_flash exactness assumes an honest device: a packet that has the form of a read reply for this target is the '
    'device\'s own reply to the request it answers (rf_honest); the device returns 25 bytes per request, fewer only at '
    'the end of its flash',
    'UPLOAD DELIVERY RELIES ON THE LINK LAYER: buffer-load packets (0x14) are assumed to reach the target, in order. The '
    'client has no check of its own: upload_buffer gets no acknowledgement, _internal_flash never calls read_flash and '
    'there is no CRC/verify step anywhere in cflib/bootloader, and the bootloader link is opened with safelink=0, so '
    'the clause "every byte of every page exactly once at the right offset" is proved about what is SENT and holds '
    'for what ARRIVES only if the radio/USB layer delivers every frame it accepted (radio auto-ack/retry, property C01); '
    'only flash-write commands and their replies are subject to faults in the model',
    'struct format "BBHHHH" without byte-order prefix (native) is little-endian and unpadded on the platforms cflib runs on',
    '_update_info runs under a virtual clock (receive_packet(2) costs 2 s when empty, 0.1 s when it returns a packet); '
    'reset_to_bootloader / link re-opening between the sd+bl step and the firmware step are played by the fake, not modelled',
    'honest environment for the exactness theorem: a positive flash-write acknowledgement [addr,0x18,1,..] enters '
    'the downlink queue only in an attempt whose command reached the target (att_honest); late, lost, negative, '
    'short and foreign packets are unrestricted',
    'the geometry the client holds (Cloader.targets[addr]) is the target\'s real geometry, with page_size, '
    'buffer_pages, flash_pages in 1..65535 as the 16-bit info reply fields allow',
    'the image is a bytes object (values 0..255) of length < 2^32, so that int((len-1)/page_size) computed in '
    'floating point equals integer division (checked by the tie on boundary values)',
    'the UI configuration is an input: progress_cb installed or not, terminate_flashing_cb absent or answering a given '
    'sequence, error_cb installed or not (never read by cflib/bootloader); the callbacks themselves do not raise',
]
PROVED = ('Forty-two theorems (C12/Property.v), all closed under the global context. Single image: exact placement, '
          'nothing outside its pages, no out-of-range command, other target untouched, refusal before any write, negative '
          'override raises before any flash-write, frame sizes, per-page loads exactly once in order, bounded retry then abort. '
          'Geometry: info packet decoded exactly, only a received matching packet is reported, at most six requests. nRF51 '
          'bootloader+softdevice: override page fits exactly to the flash end or is refused; successful branch leaves the '
          'image in the last pages. Whole flash(zip, targets), all manifests / target lists / caches: the plan is either an '
          'exception before any write, or the firmware artifacts on the geometry held at entry, or the soft-device '
          'step, a reboot, and the firmware artifacts on the geometry learnt AFTER the reboot; the firmware phase takes '
          'every firmware artifact of the manifest, once each, in manifest order (the target list only decides whether it '
          'runs); calls start in plan order; a target no call addresses is untouched; on every target nothing outside the '
          'union of the started calls\' page ranges changes; a stale cache across the reboot is refuted by a concrete '
          'witness. read_flash: a returned buffer equals the device page byte for byte for every page size and reply-loss '
          'pattern, at most six requests per chunk. UI callbacks: for every configuration of progress_cb / '
          'terminate_flashing_cb the outcome (abort or completion), script position and frames equal those without callbacks, '
          'or the run is terminated on a prefix of them when the terminate callback says so; whole plans are identical with '
          'progress_cb; the raise-only-without-progress_cb variant is refuted. Histories on one object: a flash does not depend '
          'on the downlink queue it finds, so its writes are a function of its own request and the script position however '
          'the previous flash ended; a buffer counter surviving an abort is refuted. Reference-keeping links: if no packet '
          'cell is written after hand-over, deferred serialisation equals immediate serialisation; upload_buffer hands over '
          'a new cell per chunk, so its deferred stream is the model\'s frame list; one reused cell is refuted. Receive '
          'streams: against every function nat -> receive result write_flash sends 1..6 commands with one receive each; a '
          'stream without the answer gives failure after six and six; not counting strays is refuted. error_cb: flash() '
          'sessions are identical for every UI configuration and never invoke it; the per-image loop stops at the first failed '
          'image with nothing of the following images sent; swallowing the failure when error_cb is set is refuted.')
NOT_PROVED = ('zip/manifest parsing (incl. the legacy manifest-v1 rule that adds the distro s110 binary), flash_full / '
              'start_bootloader / _get_boot_delay (need a firmware-side Crazyflie), deck flashing, reset/reconnect (played by '
              'the fake) are not modelled; final content when two selected images overlap on one target is not stated. Loss of buffer-load packets, a target whose real geometry differs from the reported one, and replies '
              'forged or delayed across write commands (a positive acknowledgement of an earlier command arriving after '
              'the flush of the next) are outside the model; bytes of the last flash page beyond the image end take '
              'whatever the buffer held (inside the occupied range, allowed by the statement).')

HEADER = ('From CF Require Import Common.Bytes C12.Model C12.Session C12.Plan C12.Callbacks C12.History C12.Alias C12.Stream C12.ErrorCb.\nOpen Scope Z_scope.\n'
          'Fixpoint zr (a : Z) (n : nat) : list Z := match n with O => [] | S k => a :: zr (a + 1) k end.\n'
          'Definition mem (n salt : Z) : list Z := map (fun a => ((a * 7 + salt) * 13 + a / 8) mod 251) (zr 0 (Z.to_nat n)).\n'
          'Definition dg1 (p b : Z) (l : list Z) : Z := fold_left (fun h v => (h * b + v + 1) mod p) l 7.\n'
          'Definition dg (l : list Z) : Z * Z := (dg1 2147483647 31 l, dg1 2147483629 37 l).\n'
          'Definition uobs (pv_prev : Z) (r : ui_res * list frame * list (option pkt)) : list Z :=\n'
          '  let (rf, rest) := r in let (res, fs) := rf in\n'
          '  (match res with UFalse => [0] | URaise => [1] | UMalformed => [3] | UTrue i m =>\n'
          '     [2; i_ps i; i_bp i; i_fp i; i_sp i] ++ i_cpuid i ++\n'
          '     [match i_pv i with Some v => v | None => 255 end; match i_pv i with Some v => v | None => pv_prev end] ++\n'
          '     match i_ver i with Some (a, b, c, p) => [1; a; b; c; if p then 1 else 0] | None => [0] end end) ++\n'
          '  [Z.of_nat (length rest)] ++ concat (map (fun f : frame => zlen f :: f) fs).\n'
          'Definition oc4 (r : outcome * list pkt * list att * list (frame * bool)) := fst (fst (fst r)).\n'
          'Definition sc4 (r : outcome * list pkt * list att * list (frame * bool)) := snd (fst r).\n'
          'Definition tr4 (r : outcome * list pkt * list att * list (frame * bool)) := snd r.\n'
          'Definition geo (tid : Z) (p : pkt) : Z * Z * Z * Z :=\n'
          '  match parse_info tid p with POk i => (i_ps i, i_bp i, i_fp i, i_sp i) | _ => (0, 0, 0, 0) end.\n'
          'Definition fl (tid : Z) (g : Z * Z * Z * Z) (img : list Z) (s : list att) :=\n'
          '  let \'(ps, bp, fp, sp) := g in internal_flash tid ps bp fp sp None img [] s.\n'
          'Definition ci (tid : Z) (p : pkt) : option cinfo :=\n'
          '  match parse_info tid p with POk i => Some (mkC (i_ps i) (i_bp i) (i_fp i) (i_sp i) (i_ver i)) | _ => None end.\n'
          'Definition scode (o : souts) : Z := match o with SDone => 0 | SFlash x => outcome_code x | SExc KeyError => 10\n'
          '  | SExc UnknownSoftDevice => 11 | SExc ConflictingRequirements => 12 | SExc CannotFlashNrf => 13\n'
          '  | SExc OneSdblOnly => 14 | SExc InvalidVersion => 15 end.\n'
          'Definition rcode (r : rres) : list Z := match r with RNone => [0] | RRaiseStruct => [1] | RBuf b => 2 :: b end.\n'
          'Definition fimg (n s1 s2 s3 : Z) : list Z := map (fun a => (((a * s1 + s2) * (a + s3)) / 7) mod 256) (zr 0 (Z.to_nat n)).\n')

STM, NRF = 0xFF, 0xFE
CODES = {0: 'Done', 1: 'Refused', 2: 'WriteFailed', 3: 'struct.error', 4: 'IndexError', 5: 'ZeroDivisionError', 6: 'Terminated'}


# ------------------------------------------------------------------------------------------------ running the real code
def _mem(n, salt):
    return bytes(((a * 7 + salt) * 13 + (a >> 3)) % 251 for a in range(n))


def _raise_stack_limit():
    # coqc needs a deep C stack for the long lists of the 1024-byte-page cases (inherited by child processes)
    import resource
    try:
        soft, hard = resource.getrlimit(resource.RLIMIT_STACK)
        resource.setrlimit(resource.RLIMIT_STACK, (hard, hard))
    except Exception:
        pass


def fimg(n, s1, s2, s3):
    return [(((a * s1 + s2) * (a + s3)) // 7) % 256 for a in range(n)]


def dg(vals):
    """Two 31-bit polynomial digests (the 61+89-bit one of Common/Digest.v costs ~0.3 ms per element in vm_compute)."""
    h1, h2 = 7, 7
    for v in vals:
        h1 = (h1 * 31 + v + 1) % 2147483647
        h2 = (h2 * 37 + v + 1) % 2147483629
    return (h1, h2)


def compare(terms, exp, tag, shard):
    got = coqrun.eval_terms(HEADER, ['dg (%s)' % t for t in terms], tag=tag, shard=shard, timeout=900)
    bad = [i for i, (g, e) in enumerate(zip(got, exp)) if tuple(g) != dg(e)]
    out = []
    if bad:
        # printing costs ~1 ms per numeral: show only the few smallest differing cases in full
        show = [i for i in sorted(bad, key=lambda i: len(exp[i])) if len(exp[i]) < 4000][:3]
        full = coqrun.eval_terms(HEADER, [terms[i] for i in show], tag=tag + 'f', shard=1, timeout=900) if show else []
        out = list(zip(show, full)) + [(i, None) for i in bad if i not in show]
    return out


_POOL = None


def compare_async(terms, exp, tag, shard):
    """compare() in a worker thread (the work is in coqc child processes): the batches of one run evaluate concurrently"""
    global _POOL
    if _POOL is None:
        from concurrent.futures import ThreadPoolExecutor
        _POOL = ThreadPoolExecutor(8)
    return _POOL.submit(compare, list(terms), list(exp), tag, shard)


def build_targets(case):
    tg = []
    for k, t in enumerate(case['targets']):
        tg.append(ft.Tgt(t['id'], t['ps'], t['bp'], t['fp'],
                         buf=_mem(t['ps'] * t['bp'], 3 + k), flash=_mem(t['ps'] * t['fp'], 101 + k)))
    return tg


def run_impl(case, policy=None):
    """Run _internal_flash of the tree under test on `case`.  Returns (code, detail, link, targets)."""
    from cflib.bootloader import Bootloader, FlashArtifact, Target as ZT
    from cflib.bootloader.boottypes import Target
    from cflib.crtp.crtpstack import CRTPPacket
    tg = build_targets(case)
    link = ft.Link(tg, case.get('script', []), case.get('queue', []), CRTPPacket)
    link.policy = policy
    link.deferred = bool(case.get('deferred'))
    bl = Bootloader()
    bl._cload.link = link
    for t in case['targets']:
        ti = Target(t['id'])
        ti.addr = t['id']
        ti.page_size, ti.buffer_pages, ti.flash_pages, ti.start_page = t['ps'], t['bp'], t['fp'], t['sp']
        bl._cload.targets[t['id']] = ti
    name = {STM: 'stm32', NRF: 'nrf51'}[case['addr']]
    art = FlashArtifact(bytes(case['image']), ZT('cf2', name, 'fw', [], []), None)
    detail = ''
    link.log = install_callbacks(bl, case.get('cb'))
    with contextlib.redirect_stdout(io.StringIO()):
        try:
            if case.get('override') is None:
                bl._internal_flash(art)
            else:
                bl._internal_flash(art, page_override=case['override'])
            code = 0
        except ft.HarnessAbort as e:
            code, detail = 98, repr(e)
        except struct.error as e:
            code, detail = 3, repr(e)
        except IndexError as e:
            code, detail = 4, repr(e)
        except ZeroDivisionError as e:
            code, detail = 5, repr(e)
        except Exception as e:
            if type(e) is Exception and e.args == ('Not enough space to flash the image file',):
                code = 1
            elif type(e) is Exception and e.args == ():
                code = 2
            elif type(e) is Exception and e.args == ('Flashing terminated',):
                code = 6
            else:
                code, detail = 99, repr(e)
    try:
        link.drain()             # the radio thread sends what is still queued
    except ft.HarnessAbort as e:
        code, detail = 98, repr(e)
    return code, detail, link, tg


def install_callbacks(bl, cb):
    """cb: None or {'progress': bool, 'term': None | [bool, ...]} — the UI configuration (flash_full(progress_cb=...,
    terminate_flash_cb=...), cfclient).  Returns the list the progress messages are classified into."""
    log = []
    cb = cb or {}

    def progress(msg, pct):
        int(pct)
        if 'Starting...' in msg:
            log.append(1)
        elif 'Not enough space' in msg:
            log.append(2)
        elif 'Uploading buffer' in msg:
            log.append(3)
        elif 'Writing buffer' in msg:
            log.append(4)
        elif 'Error during flash operation' in msg:
            log.append(5)
        else:
            log.append(9)
    if cb.get('progress'):
        bl.progress_cb = progress
    if cb.get('term') is not None:
        seq = list(cb['term'])
        bl.terminate_flashing_cb = lambda: (seq.pop(0) if seq else False)
    bl.error_cb = None
    if cb.get('error'):
        errors = []
        bl.error_cb = lambda msg: errors.append(str(msg))
        bl._c12_errors = errors
    return log


def impl_obs(case):
    code, detail, link, tg = run_impl(case)
    out = [code]
    for (h, d, deliv) in link.sent:
        out += [1 if deliv else 0, 1 + len(d), h] + list(d)
    for t in tg:
        out += list(t.buf) + list(t.flash) + [1 if t.oob else 0]
    for (h, d) in link.q:
        out += [h, len(d)] + list(d)
    out += [len(link.log)] + list(link.log)
    out += [1 if link.distinct_load_objects() else 0]
    return out, code, detail, link, tg


# ------------------------------------------------------------------------------------------------ the model term
def _pkt(p):
    return '(%s, %s)' % (coqrun.z(p[0]), coqrun.zlist(p[1]))


def _att(a):
    return 'mkA %s [%s] [%s]' % (coqrun.coq_bool(a['deliv']), '; '.join(_pkt(p) for p in a.get('intime', [])),
                                 '; '.join(_pkt(p) for p in a.get('late', [])))


def model_term(case):
    me = [t for t in case['targets'] if t['id'] == case['addr']][0]
    ov = 'None' if case.get('override') is None else '(Some %s)' % coqrun.z(case['override'])
    tgs = []
    for k, t in enumerate(case['targets']):
        tgs.append('(mkT %d %d %d %d %s %s false)' % (
            t['id'], t['ps'], t['bp'], t['fp'],
            '(mem %d %d)' % (t['ps'] * t['bp'], 3 + k), '(mem %d %d)' % (t['ps'] * t['fp'], 101 + k)))
    if case.get('image_formula'):
        img = '(fimg %d %d %d %d)' % tuple(case['image_formula'])
        assert fimg(*case['image_formula']) == list(case['image'])
    else:
        img = coqrun.zlist(case['image'])
    cb = case.get('cb') or {}
    term = 'None' if cb.get('term') is None else '(Some [%s])' % '; '.join(coqrun.coq_bool(b) for b in cb['term'])
    cfg = '(mkCb %s %s)' % (coqrun.coq_bool(bool(cb.get('progress'))), term)
    return ('let \'(o, q, s, tr, lg) := internal_flash_cb false %s %d %d %d %d %d %s %s [%s] [%s] in '
            '[ocb_code o] ++ trace_obs tr ++ '
            'concat (map (fun T => let T1 := deliver T tr in t_buf T1 ++ t_flash T1 ++ [if t_oob T1 then 1 else 0]) [%s]) '
            '++ pkts_obs q ++ [zlen (map msg_code lg)] ++ map msg_code lg '
            '++ [if cells_distinct (ub_ops true (map fst tr)) then 1 else 0]'
            % (cfg, case['addr'], me['ps'], me['bp'], me['fp'], me['sp'], ov, img,
               '; '.join(_pkt(p) for p in case.get('queue', [])),
               '; '.join(_att(a) for a in case.get('script', [])), '; '.join(tgs)))


# ------------------------------------------------------------------------------------------------ generators
def ack(addr, ok=1, code=0):
    return [0xFF, [addr, 0x18, ok, code]]


def att_ok(addr):
    return {'deliv': True, 'intime': [ack(addr)], 'late': []}


def att_lost_up():
    return {'deliv': False, 'intime': [], 'late': []}


def att_lost_reply():
    return {'deliv': True, 'intime': [], 'late': []}


def att_late(addr):
    return {'deliv': True, 'intime': [], 'late': [ack(addr)]}


def att_neg(addr, code=5, deliv=False):
    return {'deliv': deliv, 'intime': [ack(addr, 0, code)], 'late': []}


def rand_pkt(rng, addr):
    """A packet that is not a positive acknowledgement for addr (may be any other thing)."""
    k = rng.randrange(8)
    if k == 0:
        return [0xFF, [addr, 0x18]]                    # short: matches, then IndexError
    if k == 1:
        return [0xFF, [addr, 0x18, 1]]                 # short with status only
    if k == 2:
        return [0xFF, [addr ^ 1, 0x18, 1, 0]]          # the other target's acknowledgement
    if k == 3:
        return [0xF3, [addr, 0x18, 1, 0]]              # header 0xF3 | 0x0C = 0xFF: accepted by CRTPPacket
    if k == 4:
        return [0x00, [addr, 0x18, 1, 0]]              # console port
    if k == 5:
        return [0xFF, [addr, 0x14, 1, 0]]
    if k == 6:
        return [0xFF, [addr]]
    return [rng.choice([0xFF, 0xEF, 0x0C]), [rng.randrange(256) for _ in range(rng.randrange(0, 6))]]


def rand_att(rng, addr):
    k = rng.randrange(12)
    if k <= 2:
        return att_ok(addr)
    if k == 3:
        return att_lost_up()
    if k == 4:
        return att_lost_reply()
    if k == 5:
        return att_late(addr)
    if k == 6:
        return att_neg(addr, rng.randrange(256), rng.random() < 0.5)
    if k == 7:
        return {'deliv': rng.random() < 0.5, 'intime': [rand_pkt(rng, addr)], 'late': []}
    if k == 8:
        return {'deliv': True, 'intime': [rand_pkt(rng, addr), ack(addr)], 'late': [rand_pkt(rng, addr)]}
    if k == 9:
        return {'deliv': True, 'intime': [ack(addr), ack(addr)], 'late': [ack(addr)]}
    if k == 10:   # dishonest: acknowledgement without delivery (model and code must still agree)
        return {'deliv': False, 'intime': [ack(addr)], 'late': []}
    return {'deliv': rng.random() < 0.7, 'intime': [rand_pkt(rng, addr) for _ in range(rng.randrange(3))],
            'late': [rand_pkt(rng, addr) for _ in range(rng.randrange(3))]}


def rand_script(rng, addr, ncalls):
    mode = rng.randrange(10)
    if mode <= 1:
        return []
    if mode == 2:   # k lost attempts at one call, then fine
        j = rng.randrange(ncalls + 1)
        k = rng.choice([1, 2, 4, 5, 5, 6, 7])
        lost = rng.choice([att_lost_up, att_lost_reply])
        return [att_ok(addr) for _ in range(j)] + [lost() for _ in range(k)]
    if mode == 3:   # a negative reply at one call
        j = rng.randrange(ncalls + 1)
        return [att_ok(addr) for _ in range(j)] + [att_neg(addr, rng.randrange(256), rng.random() < 0.5)]
    if mode == 4:   # acknowledgement arrives on the sixth attempt
        j = rng.randrange(ncalls + 1)
        return [att_ok(addr) for _ in range(j)] + [att_lost_up() for _ in range(5)] + [att_ok(addr)]
    if mode == 5:   # late acknowledgements
        return [rng.choice([att_late(addr), att_ok(addr), att_lost_up()]) for _ in range(rng.randrange(1, 3 * ncalls + 3))]
    return [rand_att(rng, addr) for _ in range(rng.randrange(1, 2 * ncalls + 8))]


PS_GRID = [1, 2, 3, 5, 8, 12, 16, 24, 25, 26, 49, 50, 51, 64, 75, 100]
BP_GRID = [1, 1, 2, 2, 3, 4, 5, 10]


def interesting_lengths(ps, bp):
    s = set()
    for base in (ps, bp * ps, 2 * bp * ps, 3 * bp * ps, 25, 50, 2 * ps, 3 * ps):
        for d in (-1, 0, 1):
            s.add(base + d)
    s.add(1)
    s.add(2)
    s.add(3 * bp * ps + 3)
    return sorted(x for x in s if 1 <= x <= 3 * bp * ps + 3)


def gen_case(rng, big=False):
    if big:
        ps, bp = 1024, rng.choice([10, 1])
        addr = STM if bp == 10 else NRF
        ln = rng.choice([1, 1023, 1024, 1025, bp * 1024, bp * 1024 + 1, 2 * bp * 1024 - 1, rng.randrange(1, 3 * bp * 1024 + 4)])
        if bp == 1:
            ln = min(ln, 4000)
    else:
        ps = rng.choice(PS_GRID)
        bp = rng.choice(BP_GRID)
        addr = rng.choice([STM, NRF])
        if rng.random() < 0.6:
            ln = rng.choice(interesting_lengths(ps, bp))
        else:
            ln = rng.randrange(1, 3 * bp * ps + 4)
    npg = (ln + ps - 1) // ps
    sp = rng.choice([0, 0, 1, 3, 16]) if not big else rng.choice([0, 16])
    override = None
    r = rng.random()
    if r < 0.15:
        override = rng.choice([0, 1, 2, sp + 1, sp + 2])
    elif r < 0.18:
        override = -rng.randrange(1, 3)
    start = sp if override is None else override
    r = rng.random()
    if r < 0.12:
        fp = max(0, start + npg - rng.randrange(1, 3))        # does not fit
    elif r < 0.5:
        fp = max(0, start + npg)                              # fits exactly
    else:
        fp = max(0, start + npg + rng.randrange(1, 4))
    # the other target: different geometry, same link
    ops, obp = rng.choice([4, 8, 16]), rng.choice([1, 2])
    other = {'id': addr ^ 1, 'ps': ops, 'bp': obp, 'fp': rng.randrange(1, 5), 'sp': rng.randrange(0, 2)}
    me = {'id': addr, 'ps': ps, 'bp': bp, 'fp': fp, 'sp': sp}
    targets = [me, other] if addr == STM else [other, me]
    if rng.random() < 0.02 and not big:
        image = []
    elif rng.random() < 0.1:
        image = [rng.choice([0, 255, 0xEE])] * ln
    else:
        image = [rng.randrange(256) for _ in range(ln)]
    ncalls = (npg + bp - 1) // bp
    script = rand_script(rng, addr, ncalls)
    queue = []
    if rng.random() < 0.25:
        queue = [rng.choice([ack(addr), ack(addr, 0, 3), rand_pkt(rng, addr)]) for _ in range(rng.randrange(1, 4))]
    c = {'targets': targets, 'addr': addr, 'image': image, 'override': override, 'script': script, 'queue': queue}
    if rng.random() < 0.5:
        c['deferred'] = True           # reference-keeping link (radio driver style)
    r = rng.random()
    if r < 0.55:
        c['cb'] = {'progress': rng.random() < 0.8,
                   'term': None if rng.random() < 0.5 else
                   [rng.random() < 0.15 for _ in range(rng.randrange(0, npg + 2))]}
    if image and (big or ln > 48 or rng.random() < 0.8):
        # long literal lists cost ~0.2 ms per numeral to parse in Coq: most images are given by a formula
        c['image_formula'] = [ln, rng.randrange(1, 1000), rng.randrange(1000), rng.randrange(1000)]
        c['image'] = fimg(*c['image_formula'])
    return c


def att_honest(a, addr):
    def pos(p):
        h, d = p
        return (h | 0x0C) == 0xFF and len(d) >= 3 and d[0] == addr and d[1] == 0x18 and d[2] == 1
    return a['deliv'] or not any(pos(p) for p in a.get('intime', []) + a.get('late', []))


def case_facts(case):
    me = [t for t in case['targets'] if t['id'] == case['addr']][0]
    ps, bp, fp = me['ps'], me['bp'], me['fp']
    start = me['sp'] if case.get('override') is None else case['override']
    ln = len(case['image'])
    npg = (ln + ps - 1) // ps
    return me, ps, bp, fp, start, ln, npg


def nontrivial(case):
    me, ps, bp, fp, start, ln, npg = case_facts(case)
    if ln == 0:
        return False
    faulty = any(a != att_ok(case['addr']) for a in case.get('script', []))
    return npg > bp or ln % ps != 0 or faulty


def corpus_entries():
    import glob
    import json
    import os
    out = []
    for p in sorted(glob.glob(os.path.join(coqrun.VERIF, 'corpus', 'C12', '*.json'))):
        d = json.load(open(p))
        out.append((d['case'], d.get('fault')))
    return out


def corpus_cases():
    return [c for (c, f) in corpus_entries()]


def fixed_cases():
    """Hand-picked cases that every run includes."""
    two = lambda addr, ps, bp, fp, sp: ([{'id': STM, 'ps': ps, 'bp': bp, 'fp': fp, 'sp': sp},
                                         {'id': NRF, 'ps': 8, 'bp': 1, 'fp': 3, 'sp': 0}] if addr == STM else
                                        [{'id': STM, 'ps': 8, 'bp': 2, 'fp': 3, 'sp': 1},
                                         {'id': NRF, 'ps': ps, 'bp': bp, 'fp': fp, 'sp': sp}])
    cs = []
    img = lambda n: [(i * 37 + 11) % 256 for i in range(n)]
    for addr in (STM, NRF):
        cs.append({'targets': two(addr, 16, 2, 8, 1), 'addr': addr, 'image': img(40), 'override': None, 'script': [], 'queue': []})
        cs.append({'targets': two(addr, 16, 2, 8, 1), 'addr': addr, 'image': img(64), 'override': 3, 'script': [], 'queue': []})
        cs.append({'targets': two(addr, 25, 3, 9, 0), 'addr': addr, 'image': img(225), 'override': None, 'script': [], 'queue': []})
        cs.append({'targets': two(addr, 16, 2, 5, 1), 'addr': addr, 'image': img(65), 'override': None, 'script': [], 'queue': []})
        cs.append({'targets': two(addr, 16, 2, 8, 0), 'addr': addr, 'image': img(40), 'override': None,
                   'script': [att_lost_up()] * 6, 'queue': []})
        cs.append({'targets': two(addr, 16, 2, 8, 0), 'addr': addr, 'image': img(40), 'override': None,
                   'script': [att_lost_reply()] * 5 + [att_ok(addr)], 'queue': []})
        cs.append({'targets': two(addr, 16, 2, 8, 0), 'addr': addr, 'image': img(40), 'override': None,
                   'script': [att_lost_up()] * 4 + [att_ok(addr)], 'queue': [ack(addr)]})
        cs.append({'targets': two(addr, 16, 2, 8, 0), 'addr': addr, 'image': img(40), 'override': None,
                   'script': [att_ok(addr), att_neg(addr, 9)], 'queue': []})
        cs.append({'targets': two(addr, 16, 2, 8, 0), 'addr': addr, 'image': img(40), 'override': None,
                   'script': [{'deliv': True, 'intime': [[0xFF, [addr, 0x18]]], 'late': []}], 'queue': []})
        cs.append({'targets': two(addr, 16, 2, 8, 0), 'addr': addr, 'image': img(40), 'override': -1, 'script': [], 'queue': []})
        cs.append({'targets': two(addr, 16, 2, 8, 0), 'addr': addr, 'image': [], 'override': None, 'script': [], 'queue': []})
    return cs


def gen_cases(ctx, n_small, n_big):
    cs = corpus_cases() + fixed_cases()
    cs += [gen_case(ctx.rng) for _ in range(n_small)]
    cs += [gen_case(ctx.rng, big=True) for _ in range(n_big)]
    return cs


def int_div_boundary_check():
    """int((n-1)/ps) == (n-1)//ps on boundary values (the floating-point division the code uses)."""
    bad = []
    n = 0
    for ps in (1, 2, 3, 7, 255, 256, 1000, 1024, 4096, 65535):
        for k in (1, 2, 3, 1000, 65535, 65536, 1 << 20, (1 << 32) // ps):
            for d in (-1, 0, 1):
                v = k * ps + d
                if v < 0 or v >= (1 << 32):
                    continue
                n += 1
                if int(v / ps) != v // ps:
                    bad.append((v, ps))
    return n, bad


# ------------------------------------------------------------------------------------------------ _update_info (info packet -> geometry)
class _patched:
    """Virtual clock inside cflib.bootloader.cloader, optional replacement of cflib.crtp.get_link_driver."""

    def __init__(self, clock, link_factory=None):
        self.clock, self.link_factory = clock, link_factory

    def __enter__(self):
        import cflib.bootloader.cloader as cl
        import cflib.crtp
        self.cl, self.crtp = cl, cflib.crtp
        self.old_time, self.old_gld = cl.time, cflib.crtp.get_link_driver
        cl.time = self.clock
        if self.link_factory is not None:
            cflib.crtp.get_link_driver = self.link_factory
        return self

    def __exit__(self, *a):
        self.cl.time = self.old_time
        self.crtp.get_link_driver = self.old_gld


def run_update_info(case):
    """case: {'tid', 'pv_prev', 'events': [None | [hdr, data]]}.  Returns the observation list (see uobs)."""
    import re
    from cflib.bootloader.cloader import Cloader
    from cflib.crtp.crtpstack import CRTPPacket
    clock = fs.VClock()
    link = fs.EventLink(case['events'], clock, CRTPPacket)
    cl = Cloader(None)
    cl.link = link
    cl.protocol_version = case['pv_prev']
    tid = case['tid']
    with _patched(clock):
        try:
            r = cl._update_info(tid)
            head = [2] if r else [0]
        except ft.HarnessAbort:
            head = [98]
        except struct.error:
            head = [1]
        except Exception as e:
            head = [3] if e.args == ('Malformed flash mapping packet',) else [99]
    if head == [2]:
        t = cl.targets[tid]
        cpu = [int(x, 16) for x in t.cpuid.split(':')]
        head += [t.page_size, t.buffer_pages, t.flash_pages, t.start_page] + cpu + [t.protocol_version, cl.protocol_version]
        if t.version is None:
            head += [0]
        else:
            m = re.match(r'^(\d+)\.(\d+)\.(\d+)(\+?)$', t.version)
            head += [1, int(m.group(1)), int(m.group(2)), int(m.group(3)), 1 if m.group(4) else 0]
        if t.addr != tid or t.id != tid:
            head += [-1]
    out = head + [len(link.events)]
    for f in link.sent:
        out += [len(f)] + f
    return out


def _ev(e):
    return 'None' if e is None else '(Some %s)' % _pkt(e)


def info_term(case):
    return 'uobs %d (update_info %d %d [%s])' % (case['pv_prev'], case['tid'], case['pv_prev'],
                                                  '; '.join(_ev(e) for e in case['events']))


def gen_info_case(rng):
    tid = rng.choice([STM, NRF])
    pv_prev = rng.choice([0xFF, 0xFF, 0x10, 0x01])

    def good(n_rest=None):
        rest_len = rng.choice([0, 0, 1, 2, 4, 5, 5, 7]) if n_rest is None else n_rest
        rest = [rng.choice([0x10, 0x10, 0x01, 0x00, rng.randrange(256)])] + [rng.randrange(256) for _ in range(rest_len)]
        rest = rest[:rest_len]
        g = [rng.choice([0, 1, 255, 256, 1024, 4096, 65535, rng.randrange(65536)]) for _ in range(4)]
        return fs.info_packet(tid, g[0], g[1], g[2], g[3], cpuid=[rng.randrange(256) for _ in range(12)], rest=rest)

    def other():
        k = rng.randrange(9)
        p = good()
        if k == 0:
            return [0xFF, p[1][:rng.choice([0, 1])]]                 # too short for '<BB'
        if k == 1:
            return [0xFF, p[1][:rng.choice([2, 5, 9, 10, 21])]]      # matches, too short for the formats
        if k == 2:
            return [0xFF, [tid ^ 1] + p[1][1:]]                      # other target
        if k == 3:
            return [0xFF, [tid, rng.choice([0x11, 0x18, 0x14])] + p[1][2:]]
        if k == 4:
            return [rng.choice([0x00, 0xEF, 0xF2]), p[1]]            # another port/channel
        if k == 5:
            return [0xF3, p[1]]                                      # 0xF3 | 0x0C = 0xFF: accepted
        if k == 6:
            return [0xFF, [tid, 0x12] + [rng.randrange(256) for _ in range(rng.randrange(0, 6))]]
        if k == 7:
            return ack(tid)
        return None
    evs = []
    for _ in range(rng.choice([0, 1, 1, 2, 3, 5, 8])):
        evs.append(rng.choice([None, None, other(), other()]))
    if rng.random() < 0.8:
        evs.append(good())
        # what _update_mapping may receive
        evs.append(rng.choice([None, [0xFF, [tid, 0x12, 1, 2, 3, 4]], [0xFF, [tid, 0x12, 1, 2, 3]], [0xFF, [tid, 0x12]],
                               [0xFF, [tid]], good()]))
    if rng.random() < 0.15:
        evs = [None] * rng.choice([4, 5, 6]) + evs
    if rng.random() < 0.1:
        evs = [other() for _ in range(rng.choice([60, 99, 100, 101, 120]))] + evs
    return {'tid': tid, 'pv_prev': pv_prev, 'events': evs}


# ------------------------------------------------------------------------------------------------ Bootloader.flash sessions (zip -> artifacts -> where)
def make_zip(path, files):
    """files: list of (name, bytes, metadata dict)"""
    import json
    import zipfile
    with zipfile.ZipFile(path, 'w') as z:
        z.writestr('manifest.json', json.dumps({'version': 2, 'subversion': 1, 'release': '2099.1',
                                                'files': {n: m for (n, c, m) in files}}))
        for (n, c, m) in files:
            z.writestr(n, bytes(c))


def run_session(case):
    """A whole Bootloader.flash(zip, []) against SessionLink.  Returns (code, detail, link, targets, bootloader)."""
    import os
    from cflib.bootloader import Bootloader
    from cflib.crtp.crtpstack import CRTPPacket
    clock = fs.VClock()
    tg = build_targets(case)
    link = fs.SessionLink(tg, case.get('script', []), CRTPPacket, {int(k): v for k, v in case['reports'].items()}, clock)
    path = os.path.join(coqrun.BUILD, 'c12_session_%d.zip' % os.getpid())
    os.makedirs(coqrun.BUILD, exist_ok=True)
    files = []
    if case.get('sd') is not None:
        files.append(('sd.bin', case['sd'], {'platform': 'cf2', 'target': 'nrf51', 'type': 'bootloader+softdevice',
                                             'release': '2099.1', 'repository': 'x', 'provides': ['sd-s130']}))
    if case.get('nrf_fw') is not None:
        files.append(('nrf.bin', case['nrf_fw'], {'platform': 'cf2', 'target': 'nrf51', 'type': 'fw', 'release': '2099.1',
                                                  'repository': 'x', 'requires': ['sd-s130'] if case.get('sd') is not None
                                                  else [case.get('nrf_requires', 'sd-s110')]}))
    if case.get('stm_fw') is not None:
        files.append(('stm.bin', case['stm_fw'], {'platform': 'cf2', 'target': 'stm32', 'type': 'fw', 'release': '2099.1',
                                                  'repository': 'x'}))
    make_zip(path, files)
    detail = ''
    bl = None
    try:
        with _patched(clock, lambda uri: link), contextlib.redirect_stdout(io.StringIO()):
            bl = Bootloader('radio://0/0/2M/E7E7E7E7E7')
            bl._cload.link = link
            try:
                # what start_bootloader does once a link exists
                ok = bl._cload.check_link_and_get_info()
                bl.protocol_version = bl._cload.protocol_version
                if ok and bl.protocol_version == 0x10:
                    bl._cload.request_info_update(NRF)
                bl.flash(path, [])
                code = 0
            except ft.HarnessAbort as e:
                code, detail = 98, repr(e)
            except struct.error as e:
                code, detail = 3, repr(e)
            except IndexError as e:
                code, detail = 4, repr(e)
            except ZeroDivisionError as e:
                code, detail = 5, repr(e)
            except Exception as e:
                if type(e) is Exception and e.args == ('Not enough space to flash the image file',):
                    code = 1
                elif type(e) is Exception and e.args == ():
                    code = 2
                else:
                    code, detail = 99, repr(e)
    finally:
        try:
            os.remove(path)
        except OSError:
            pass
    return code, detail, link, tg, bl


def session_obs(case):
    code, detail, link, tg, bl = run_session(case)
    out = [code]
    for (h, d, deliv) in link.sent:
        if h == 0xFF and len(d) >= 2 and d[1] in (0x14, 0x18):
            out += [1 if deliv else 0, 1 + len(d), h] + list(d)
    for t in tg:
        out += list(t.buf) + list(t.flash) + [1 if t.oob else 0]
    return out, code, detail, link, tg, bl


def _img(c, key):
    f = c.get(key + '_formula')
    if f:
        assert fimg(*f) == list(c[key])
        return '(fimg %d %d %d %d)' % tuple(f)
    return coqrun.zlist(c[key])


def session_term(case):
    """The model of the session: sd+bl step on the geometry parsed from the first nRF51 report, then the firmware
    images on the geometry parsed from the reports given after the reset."""
    rep = {int(k): v for k, v in case['reports'].items()}

    def ipk(tid, r):
        p = fs.info_packet(tid, r[0], r[1], r[2], r[3], rest=r[4])
        return _pkt(p)
    has_sd = case.get('sd') is not None
    phase2 = 1 if has_sd else 0
    g_nrf1 = 'geo 254 %s' % ipk(NRF, rep[NRF][0])
    g_nrf2 = 'geo 254 %s' % ipk(NRF, rep[NRF][min(phase2, len(rep[NRF]) - 1)])
    g_stm2 = 'geo 255 %s' % ipk(STM, rep[STM][min(phase2, len(rep[STM]) - 1)])
    scr = '[%s]' % '; '.join(_att(a) for a in case.get('script', []))
    steps = []
    if has_sd:
        steps.append('(fun s => let \'(ps, bp, fp, sp) := %s in flash_sdbl ps bp fp sp %s [] s)' % (g_nrf1, _img(case, 'sd')))
    if case.get('nrf_fw') is not None:
        steps.append('(fun s => fl 254 (%s) %s s)' % (g_nrf2, _img(case, 'nrf_fw')))
    if case.get('stm_fw') is not None:
        steps.append('(fun s => fl 255 (%s) %s s)' % (g_stm2, _img(case, 'stm_fw')))
    tgs = []
    for k, t in enumerate(case['targets']):
        tgs.append('(mkT %d %d %d %d (mem %d %d) (mem %d %d) false)' % (
            t['id'], t['ps'], t['bp'], t['fp'], t['ps'] * t['bp'], 3 + k, t['ps'] * t['fp'], 101 + k))
    return ('let run := fold_left (fun (acc : outcome * list att * list (frame * bool)) '
            '(step : list att -> outcome * list pkt * list att * list (frame * bool)) => '
            'let \'(o, s, tr) := acc in match o with Done => let r := step s in (oc4 r, sc4 r, tr ++ tr4 r) | _ => acc end) '
            '[%s] (Done, %s, []) in '
            'let \'(o, s, tr) := run in '
            '[outcome_code o] ++ trace_obs tr ++ '
            'concat (map (fun T => let T1 := deliver T tr in t_buf T1 ++ t_flash T1 ++ [if t_oob T1 then 1 else 0]) [%s])'
            % ('; '.join(steps), scr, '; '.join(tgs)))


def gen_session_case(rng):
    ps = rng.choice([4, 8, 16, 25, 32])
    nbp, sbp = rng.choice([1, 1, 2]), rng.choice([2, 3, 10])
    sfp = rng.randrange(6, 16)
    sps = rng.choice([8, 16, 26, 64])
    has_sd = rng.random() < 0.7
    # _get_current_nrf51_sd_version reads the soft device off the start page: 88 = s110, 108 = s130
    nsp1 = 88 if has_sd or rng.random() < 0.5 else 108
    nfp_total = 108 + rng.randrange(4, 24)
    ssp = rng.choice([0, 1, 4])
    k = rng.randrange(1, nfp_total - 108 + 1)                # pages of the sd+bl image
    r = rng.random()
    if r < 0.6:
        sdlen = k * ps
    elif r < 0.8:
        sdlen = k * ps + rng.randrange(1, ps)
    elif r < 0.9:
        sdlen = (nfp_total + rng.randrange(0, 2)) * ps     # as large as / larger than the flash
    else:
        sdlen = rng.randrange(1, ps + 1)
    nsp2 = 108 if has_sd else nsp1
    nfp2 = max(nsp2, rng.choice([nfp_total, nfp_total - k]))   # what the new bootloader reports
    pvrest = [0x10] + ([rng.randrange(256), rng.randrange(128), rng.randrange(256), rng.randrange(256)]
                       if rng.random() < 0.5 else [])
    reports = {str(NRF): [[ps, nbp, nfp_total, nsp1, pvrest], [ps, nbp, nfp2, nsp2, pvrest]],
               str(STM): [[sps, sbp, sfp, ssp, pvrest]]}
    targets = [{'id': STM, 'ps': sps, 'bp': sbp, 'fp': sfp, 'sp': ssp},
               {'id': NRF, 'ps': ps, 'bp': nbp, 'fp': nfp_total, 'sp': nsp1}]
    c = {'targets': targets, 'reports': reports, 'script': rand_script(rng, rng.choice([STM, NRF]), 3) if rng.random() < 0.4 else []}

    def im(key, n):
        c[key + '_formula'] = [n, rng.randrange(1, 1000), rng.randrange(1000), rng.randrange(1000)]
        c[key] = fimg(*c[key + '_formula'])
    if has_sd:
        im('sd', sdlen)
    if rng.random() < 0.7:
        avail = max(1, nfp2 - nsp2) * ps
        im('nrf_fw', rng.choice([1, ps, avail, avail + 1, rng.randrange(1, avail + 2)]))
        if not has_sd:
            c['nrf_requires'] = 'sd-s110' if nsp1 == 88 else 'sd-s130'
    if rng.random() < 0.8 or (not has_sd and 'nrf_fw' not in c):
        avail = (sfp - ssp) * sps
        im('stm_fw', rng.choice([1, sps, sbp * sps, avail, avail + 1, rng.randrange(1, avail + 2)]))
    return c


# ------------------------------------------------------------------------------------------------ whole flash(): artifact plan, selection, reboot
PLAT = {'cf1': 1, 'cf2': 2, 'deck': 3, 'cf9': 10}
TGT = {'stm32': 255, 'nrf51': 254, 'bcAI:gap8': 1000, 'bcLighthouse4': 1001, 'bcAI:esp': 1002}
TYP = {'fw': 1, 'bootloader+softdevice': 2, 'bootloader': 10}
SDV = {'sd-s110': 110, 'sd-s130': 130, 'sd-s140': 140}
FEXN = {10: 'KeyError', 11: 'UnknownSoftDevice', 12: 'ConflictingRequirements', 13: 'CannotFlashNrf', 14: 'OneSdblOnly',
        15: 'InvalidVersion'}


def run_plan_session(case, policy=None):
    """Bootloader.flash(zip, targets) for a generated manifest / target list.  Deck flashing and the firmware restart
    around it are stubbed (recorded); everything else is the real code on the simulated link."""
    import os
    import cflib.bootloader as blmod
    from cflib.bootloader import Bootloader, Target
    from cflib.crtp.crtpstack import CRTPPacket
    clock = fs.VClock()
    tg = build_targets(case)
    link = fs.SessionLink(tg, case.get('script', []), CRTPPacket, {int(k): v for k, v in case['reports'].items()}, clock)
    path = os.path.join(coqrun.BUILD, 'c12_plan_%d.zip' % os.getpid())
    os.makedirs(coqrun.BUILD, exist_ok=True)
    files = []
    for k, f in enumerate(case['files']):
        md = {'platform': f['platform'], 'target': f['target'], 'type': f['type'], 'release': f['release'], 'repository': 'x'}
        if f.get('requires'):
            md['requires'] = list(f['requires'])
        if f.get('provides'):
            md['provides'] = list(f['provides'])
        files.append(('f%d.bin' % k, f['image'], md))
    make_zip(path, files)
    rec = {'deck_calls': [], 'restart': 0}
    code, detail, bl = 0, '', None
    old_time = blmod.time
    try:
        blmod.time = clock
        with _patched(clock, lambda uri: link), contextlib.redirect_stdout(io.StringIO()):
            bl = Bootloader('radio://0/0/2M/E7E7E7E7E7')
            bl._cload.link = link
            bl.warm_booted = bool(case.get('warm'))
            rec['log'] = install_callbacks(bl, case.get('cb'))
            link.policy = policy

            def deck_stub(artifacts, targets, start_index, enable_console_log=False, boot_delay=0.0):
                rec['deck_calls'].append(([bytes(a.content) for a in artifacts], [tuple(t[:3]) for t in targets]))
                return -1
            bl._flash_deck_incrementally = deck_stub
            bl.reset_to_firmware = lambda boot_delay=0.0: rec.__setitem__('restart', rec['restart'] + 1) or True
            bl.start_bootloader = lambda warm_boot=False, cf=None: True
            bl.close = lambda: None
            try:
                ok = bl._cload.check_link_and_get_info()
                bl.protocol_version = bl._cload.protocol_version
                if ok and bl.protocol_version == 0x10:
                    bl._cload.request_info_update(NRF)
                bl.flash(path, [Target(p, t, ty, [], []) for (p, t, ty) in case['select']])
            except ft.HarnessAbort as e:
                code, detail = 98, repr(e)
            except struct.error as e:
                code, detail = 3, repr(e)
            except IndexError as e:
                code, detail = 4, repr(e)
            except ZeroDivisionError as e:
                code, detail = 5, repr(e)
            except KeyError as e:
                code, detail = 10, repr(e)
            except Exception as e:
                m = e.args[0] if e.args and isinstance(e.args[0], str) else ''
                if type(e) is Exception and e.args == ('Not enough space to flash the image file',):
                    code = 1
                elif type(e) is Exception and e.args == ():
                    code = 2
                elif m.startswith('Unknown soft device'):
                    code = 11
                elif m.startswith('Cannot flash nRF51, conflicting'):
                    code = 12
                elif m.startswith('Cannot flash nRF51: We have'):
                    code = 13
                elif 'ne and only one bootloader+softdevice' in m:
                    code = 14
                elif type(e).__name__ == 'InvalidVersion':
                    code = 15
                else:
                    code, detail = 99, repr(e)
    finally:
        blmod.time = old_time
        try:
            os.remove(path)
        except OSError:
            pass
    rec['errors'] = list(getattr(bl, '_c12_errors', [])) if bl is not None else []
    return code, detail, link, tg, rec


def plan_obs(case):
    code, detail, link, tg, rec = run_plan_session(case)
    out = [code]
    for (h, d, deliv) in link.sent:
        if h == 0xFF and len(d) >= 2 and d[1] in (0x14, 0x18):
            out += [1 if deliv else 0, 1 + len(d), h] + list(d)
    for t in tg:
        out += list(t.buf) + list(t.flash) + [1 if t.oob else 0]
    out += [1 if link.resets else 0, 1 if rec['deck_calls'] else 0, len(rec['errors'])]
    return out, code, detail, link, tg, rec


def _sel(t):
    return 'mkSel %d %d %d' % (PLAT[t[0]], TGT[t[1]], TYP[t[2]])


def _img2(f):
    if f.get('formula'):
        assert fimg(*f['formula']) == list(f['image'])
        return '(fimg %d %d %d %d)' % tuple(f['formula'])
    return coqrun.zlist(f['image'])


def plan_term(case):
    rep = {int(k): v for k, v in case['reports'].items()}

    def cache(phase):
        def one(tid):
            r = rep[tid][min(phase, len(rep[tid]) - 1)]
            return 'ci %d %s' % (tid, _pkt(fs.info_packet(tid, r[0], r[1], r[2], r[3], rest=r[4])))
        pv = rep[STM][0][4][0] if rep[STM][0][4] else 0xFF
        # start_bootloader asks for the nRF51 info only on protocol version 0x10; the fresh Cloader after the reboot always does
        nrf = one(NRF) if (pv == 0x10 or phase > 0) else 'None'
        return '(mkCache (%s) (%s))' % (one(STM), nrf)
    pv = rep[STM][0][4][0] if rep[STM][0][4] else 0xFF
    platform = 2 if pv == 0x10 else 1
    arts = []
    for f in case['files']:
        rel = [int(x) for x in f['release'].split('.')]
        arts.append('mkArt (%s) %s %s %s (%d, %d, %d)' % (
            _sel((f['platform'], f['target'], f['type'])), _img2(f),
            coqrun.zlist([SDV[x] for x in f.get('requires', [])]), coqrun.zlist([SDV[x] for x in f.get('provides', [])]),
            rel[0], rel[1], rel[2]))
    sels = '[%s]' % '; '.join(_sel(t) for t in case['select'])
    scr = '[%s]' % '; '.join(_att(a) for a in case.get('script', []))
    tgs = []
    for k, t in enumerate(case['targets']):
        tgs.append('(mkT %d %d %d %d (mem %d %d) (mem %d %d) false)' % (
            t['id'], t['ps'], t['bp'], t['fp'], t['ps'] * t['bp'], 3 + k, t['ps'] * t['fp'], 101 + k))
    return ('let r := flash_session_e false (mkUi %s %s) (flash_plan %d %s %s [%s] %s) %s in '
            'let \'(o, s, tr, cs, rb, ne) := r in '
            '[scode o] ++ trace_obs tr ++ '
            'concat (map (fun T => let T1 := deliver T tr in t_buf T1 ++ t_flash T1 ++ [if t_oob T1 then 1 else 0]) [%s]) ++ '
            '[if rb then 1 else 0; if (match o with SDone => true | _ => false end) && deck_phase %s %s then 1 else 0; Z.of_nat ne]'
            % (coqrun.coq_bool(bool((case.get('cb') or {}).get('progress'))),
               coqrun.coq_bool(bool((case.get('cb') or {}).get('error'))), platform, cache(0), cache(1), '; '.join(arts),
               sels, scr, '; '.join(tgs), coqrun.coq_bool(bool(case.get('warm'))), sels))


def gen_plan_case(rng):
    ps = rng.choice([4, 8, 16, 25])
    nbp, sbp = rng.choice([1, 1, 2]), rng.choice([2, 3, 10])
    sps = rng.choice([8, 16, 26])
    sfp = rng.randrange(8, 18)
    ssp = rng.choice([0, 1, 4])
    nfp = 108 + rng.randrange(6, 20)
    nsp1 = rng.choice([88, 88, 88, 108, 108, 100])
    pv = rng.choice([0x10] * 12 + [0x00, 0x01])

    def ver(plus_ok=True):
        r = rng.random()
        if r < 0.45:
            return []
        a, b, c = rng.choice([(2023, 11, 0), (1, 2, 3), (2024, 2, 1)])
        hi = (a >> 8) | (0x80 if plus_ok and rng.random() < 0.06 else 0)
        return [a & 0xFF, hi, b, c]
    rest0 = [pv] + ver()
    rest1 = [pv] + ver()
    nsp2 = rng.choice([108, 108, 108, 88])
    reports = {str(NRF): [[ps, nbp, nfp, nsp1, rest0], [ps, nbp, nfp - rng.choice([0, 0, 2]), nsp2, rest1]],
               str(STM): [[sps, sbp, sfp, ssp, rest0], [sps, sbp, sfp, rng.choice([ssp, ssp, ssp + 1]), rest1]]}
    targets = [{'id': STM, 'ps': sps, 'bp': sbp, 'fp': sfp, 'sp': ssp}, {'id': NRF, 'ps': ps, 'bp': nbp, 'fp': nfp, 'sp': nsp1}]
    c = {'targets': targets, 'reports': reports, 'warm': rng.random() < 0.4,
         'script': rand_script(rng, rng.choice([STM, NRF]), 3) if rng.random() < 0.25 else []}

    def image(n):
        f = [max(1, n), rng.randrange(1, 1000), rng.randrange(1000), rng.randrange(1000)]
        return {'formula': f, 'image': fimg(*f)}
    kinds = []
    nfiles = rng.choice([1, 2, 2, 3, 3, 4])
    pool = ['stm_fw', 'nrf_fw', 'sdbl', 'deck', 'stm_fw', 'nrf_fw', 'sdbl', 'deck', 'stm_fw2', 'other_plat', 'odd_type',
            'odd_target', 'sdbl_stm']
    files = []
    for _ in range(nfiles):
        k = rng.choice(pool)
        rel = rng.choice(['2023.11.0', '1.2.3', '2024.2.1'])
        if k in ('stm_fw', 'stm_fw2'):
            avail = (sfp - ssp) * sps
            f = dict(platform='cf2', target='stm32', type='fw', release=rel,
                     **image(rng.choice([1, sps, sbp * sps + 1, avail, avail + sps + 1, rng.randrange(1, avail + 1)])))
        elif k == 'nrf_fw':
            avail = (nfp - 108) * ps
            f = dict(platform='cf2', target='nrf51', type='fw', release=rel,
                     requires=[rng.choice(['sd-s130', 'sd-s130', 'sd-s110', 'sd-s140'])],
                     **image(rng.choice([1, ps, avail, rng.randrange(1, avail + 1)])))
            if rng.random() < 0.1:
                f['requires'] = f['requires'] + [rng.choice(['sd-s130', 'sd-s110'])]
        elif k in ('sdbl', 'sdbl_stm'):
            pages = rng.randrange(1, 6)
            n = pages * ps if rng.random() < 0.8 else pages * ps + rng.randrange(1, ps)
            f = dict(platform='cf2', target='nrf51' if k == 'sdbl' else 'stm32', type='bootloader+softdevice', release=rel,
                     provides=[rng.choice(['sd-s130', 'sd-s130', 'sd-s130', 'sd-s110'])], **image(n))
        elif k == 'deck':
            f = dict(platform='deck', target=rng.choice(['bcAI:gap8', 'bcLighthouse4']), type='fw', release=rel,
                     **image(rng.randrange(1, 40)))
        elif k == 'other_plat':
            f = dict(platform='cf9', target='stm32', type='fw', release=rel, **image(rng.randrange(1, 30)))
        elif k == 'odd_type':
            f = dict(platform='cf2', target='stm32', type='bootloader', release=rel, **image(rng.randrange(1, 30)))
        else:
            f = dict(platform='cf2', target='bcAI:esp', type='fw', release=rel, **image(rng.randrange(1, 30)))
        files.append(f)
    c['files'] = files
    r = rng.random()
    if r < 0.4:
        sel = []
    else:
        cands = [(f['platform'], f['target'], f['type']) for f in files] + [('cf2', 'stm32', 'fw'), ('cf2', 'nrf51', 'fw'),
                                                                             ('deck', 'bcAI:gap8', 'fw'), ('cf1', 'stm32', 'fw')]
        sel = [list(rng.choice(cands)) for _ in range(rng.choice([1, 1, 2]))]
    c['select'] = sel
    if rng.random() < 0.5:
        # the UI configuration: progress callback, and a terminate callback that never asks to stop
        c['cb'] = {'progress': rng.random() < 0.85, 'term': None if rng.random() < 0.5 else []}
    if rng.random() < 0.5:
        c.setdefault('cb', {'progress': False, 'term': None})['error'] = True     # an error callback is installed
    return c



# ------------------------------------------------------------------------------------------------ Cloader.read_flash
def run_read_flash(case):
    """case: {'t': target dict, 'ps_client', 'page', 'fates'} -> observation [0] None / [1] struct.error / [2]+bytes, then frames."""
    from cflib.bootloader.cloader import Cloader
    from cflib.bootloader.boottypes import Target
    from cflib.crtp.crtpstack import CRTPPacket
    t = case['t']
    dev = ft.Tgt(t['id'], t['ps'], t['bp'], t['fp'], buf=_mem(t['ps'] * t['bp'], 3), flash=_mem(t['ps'] * t['fp'], 101))
    link = fs.ReadLink(dev, case['fates'], CRTPPacket)
    cl = Cloader(None)
    cl.link = link
    ti = Target(t['id'])
    ti.page_size = case['ps_client']
    cl.targets[t['id']] = ti
    result = None
    try:
        r = cl.read_flash(addr=t['id'], page=case['page'])
        head = [0] if r is None else [2] + list(r)
        result = None if r is None else list(r)
    except ft.HarnessAbort:
        head = [98]
    except struct.error:
        head = [1]
    except Exception as e:
        head = [99, repr(e)]
    out = head + [len(link.fates)]
    for f in link.sent:
        out += [len(f)] + f
    link.result = result
    return out, dev, link


def _fate(f):
    if f == 'lost':
        return 'RLost'
    if f == 'good':
        return 'RGood'
    return '(RWrong %s)' % _pkt(f[1])


def read_term(case):
    t = case['t']
    return ('let \'(r, fs, tr) := read_flash (mkT %d %d %d %d (mem %d 3) (mem %d 101) false) %d %d %s [%s] in '
            'rcode r ++ [Z.of_nat (length fs)] ++ concat (map (fun f : frame => zlen f :: f) tr)'
            % (t['id'], t['ps'], t['bp'], t['fp'], t['ps'] * t['bp'], t['ps'] * t['fp'], t['id'], case['ps_client'],
               coqrun.z(case['page']), '; '.join(_fate(f) for f in case['fates'])))


def gen_read_case(rng, honest_only=False):
    tid = rng.choice([STM, NRF])
    ps = rng.choice([1, 2, 24, 25, 26, 49, 50, 51, 64, 75, 100, 128, 256, 1024]) if rng.random() < 0.9 else rng.randrange(1, 300)
    fp = rng.randrange(1, 6) if ps < 300 else rng.randrange(1, 3)
    t = {'id': tid, 'ps': ps, 'bp': 1, 'fp': fp, 'sp': 0}
    page = rng.choice([0, fp - 1, fp - 1, rng.randrange(fp)])
    if not honest_only and rng.random() < 0.05:
        page = rng.choice([fp, fp + 3, 65535, 65536, -1])
    ps_client = ps if honest_only or rng.random() < 0.9 else rng.choice([0, ps + 7, max(0, ps - 3)])
    nchunks = (ps_client + 24) // 25

    def reply(pg, off):
        a = pg * ps + off
        return [0xFF, [tid, 0x1C] + list(struct.pack('<HH', pg & 0xFFFF, off & 0xFFFF)) + list(_mem(ps * fp, 101)[a:a + 25])]

    def wrong():
        k = rng.randrange(8)
        if k == 0:
            return ['wrong', reply(page if 0 <= page < fp else 0, 25 * rng.randrange(0, nchunks + 1))]   # stale genuine reply
        if k == 1:
            return ['wrong', reply(rng.randrange(fp), 0)]                                                 # another page
        if k == 2 and not honest_only:
            return ['wrong', [0xFF, [tid, 0x1C, 0, 0]]]                                                   # truncated: struct.error
        if k == 3:
            return ['wrong', [0xFF, [tid ^ 1, 0x1C, 0, 0, 0, 0, 1, 2, 3]]]
        if k == 4:
            return ['wrong', [0x00, [tid, 0x1C, 0, 0, 0, 0, 1, 2, 3]]]
        if k == 5:
            return ['wrong', ack(tid) if not honest_only else [0xFF, [tid, 0x18, 1, 0, 0, 0]]]
        if k == 6 and not honest_only:
            return ['wrong', [0xFF, [tid, 0x1C] + [rng.randrange(256) for _ in range(rng.randrange(0, 12))]]]
        return 'lost'
    mode = rng.randrange(6)
    if mode <= 1:
        fates = []
    elif mode == 2:
        fates = ['good'] * rng.randrange(0, nchunks + 1) + ['lost'] * rng.choice([1, 4, 5, 6, 7])
    elif mode == 3:
        fates = ['good'] * rng.randrange(0, nchunks + 1) + ['lost'] * 5 + ['good']
    else:
        fates = [rng.choice(['good', 'good', 'lost', wrong(), wrong()]) for _ in range(rng.randrange(1, 3 * nchunks + 4))]
    return {'t': t, 'ps_client': ps_client, 'page': page, 'fates': fates}


def check_read_case(case):
    """Property text: with an honest device (every read reply that arrives is the device's own for the page/offset it
    names) read_flash returns None or exactly the device's page; undisturbed, it returns the page."""
    obs, dev, link = run_read_flash(case)
    t, page, ps = case['t'], case['page'], case['ps_client']

    def fail(cls, expected, observed, detail_):
        return {'class': cls, 'case': {'kind': 'read', 'case': case}, 'expected': expected, 'observed': observed,
                'detail': detail_}
    if obs[0] in (98, 99):
        return fail('read_flash_unbounded_or_crashed', 'a page or None', obs[:2], '')
    want = list(dev.flash[page * t['ps']:page * t['ps'] + ps])
    if obs[0] == 2:
        got = link.result
        if got != want:
            k = next((i for i in range(min(len(got), len(want))) if got[i] != want[i]), min(len(got), len(want)))
            return fail('read_flash_wrong_bytes', 'flash[page*ps : (page+1)*ps]', {'first_wrong_byte': k, 'len': len(got)},
                        'read_flash returned bytes that are not the device\'s page')
    if not case['fates'] and obs[0] != 2:
        return fail('read_flash_failed_undisturbed', 'the page', obs[:1], 'no fault injected but no page returned')
    nreq = sum(1 for f in link.sent if len(f) == 7 and f[2] == 0x1C)
    if nreq > 6 * max(1, (ps + 24) // 25):
        return fail('read_flash_unbounded_or_crashed', '<= 6 requests per chunk', nreq, '')
    return None


def _short(c):
    d = {k: v for k, v in c.items() if k not in ('files', 'script')}
    d['files'] = [[f['platform'], f['target'], f['type'], len(f['image']), f.get('requires'), f.get('provides'), f['release']]
                  for f in c.get('files', [])]
    d['script_len'] = len(c.get('script', []))
    return d


def corpus_history_entries():
    import glob
    import json
    import os
    out = []
    for p in sorted(glob.glob(os.path.join(coqrun.VERIF, 'corpus', 'C12', 'history', '*.json'))):
        d = json.load(open(p))
        out.append((d['case'], d.get('faults')))
    return out


def corpus_plan_entries():
    import glob
    import json
    import os
    out = []
    for p in sorted(glob.glob(os.path.join(coqrun.VERIF, 'corpus', 'C12', 'plan', '*.json'))):
        d = json.load(open(p))
        out.append((d['case'], d.get('fault')))
    return out


# ------------------------------------------------------------------------------------------------ histories: several flashes on ONE Bootloader object
def run_history(case, faults=None):
    """case['flashes'] run one after the other on the same Bootloader/Cloader/link.  faults: optional list (one per
    flash) of Policy faults (then the flat script is not used).  Returns (per-flash records, link, targets)."""
    from cflib.bootloader import Bootloader, FlashArtifact, Target as ZT
    from cflib.bootloader.boottypes import Target
    from cflib.crtp.crtpstack import CRTPPacket
    tg = build_targets(case)
    link = ft.Link(tg, case.get('script', []), case.get('queue', []), CRTPPacket)
    bl = Bootloader()
    bl._cload.link = link
    for t in case['targets']:
        ti = Target(t['id'])
        ti.addr = t['id']
        ti.page_size, ti.buffer_pages, ti.flash_pages, ti.start_page = t['ps'], t['bp'], t['fp'], t['sp']
        bl._cload.targets[t['id']] = ti
    recs = []
    for k, fl in enumerate(case['flashes']):
        name = {STM: 'stm32', NRF: 'nrf51'}[fl['addr']]
        art = FlashArtifact(bytes(fl['image']), ZT('cf2', name, 'fw', [], []), None)
        bl.progress_cb = None
        bl.terminate_flashing_cb = None
        log = install_callbacks(bl, fl.get('cb'))
        link.nsend = 0
        link.deferred = bool(case.get('deferred'))
        link.raise_at = fl.get('link_exc_at')
        pol = None
        if faults is not None:
            pol = Policy(fl['addr'], faults[k])
        link.policy = pol
        before = [(bytes(t.buf), bytes(t.flash), t.oob) for t in tg]
        n0 = len(link.sent)
        code, detail = 0, ''
        with contextlib.redirect_stdout(io.StringIO()):
            try:
                if fl.get('override') is None:
                    bl._internal_flash(art)
                else:
                    bl._internal_flash(art, page_override=fl['override'])
            except ft.HarnessAbort as e:
                code, detail = 98, repr(e)
            except ft.LinkError:
                code = 7
            except struct.error as e:
                code, detail = 3, repr(e)
            except IndexError as e:
                code, detail = 4, repr(e)
            except ZeroDivisionError as e:
                code, detail = 5, repr(e)
            except Exception as e:
                if type(e) is Exception and e.args == ('Not enough space to flash the image file',):
                    code = 1
                elif type(e) is Exception and e.args == ():
                    code = 2
                elif type(e) is Exception and e.args == ('Flashing terminated',):
                    code = 6
                else:
                    code, detail = 99, repr(e)
        try:
            link.drain()
        except ft.HarnessAbort as e:
            code, detail = 98, repr(e)
        after = [(bytes(t.buf), bytes(t.flash), t.oob) for t in tg]
        recs.append({'code': code, 'detail': detail, 'frames': link.sent[n0:], 'before': before, 'after': after,
                     'log': log, 'pol': pol})
    return recs, link, tg


def history_obs(case):
    recs, link, tg = run_history(case)
    out = []
    for r in recs:
        out += [r['code'], len(r['frames'])]
        for (h, d, deliv) in r['frames']:
            out += [1 if deliv else 0, 1 + len(d), h] + list(d)
    for t in tg:
        out += list(t.buf) + list(t.flash) + [1 if t.oob else 0]
    return out, recs


def history_term(case):
    geo = {t['id']: t for t in case['targets']}
    reqs = []
    for fl in case['flashes']:
        g = geo[fl['addr']]
        cb = fl.get('cb') or {}
        term = 'None' if cb.get('term') is None else '(Some [%s])' % '; '.join(coqrun.coq_bool(b) for b in cb['term'])
        ov = 'None' if fl.get('override') is None else '(Some %s)' % coqrun.z(fl['override'])
        exc = 'None' if fl.get('link_exc_at') is None else '(Some (Z.to_nat %d))' % fl['link_exc_at']
        img = '(fimg %d %d %d %d)' % tuple(fl['formula']) if fl.get('formula') else coqrun.zlist(fl['image'])
        reqs.append('mkReq (mkCb %s %s) %d %d %d %d %d %s %s %s' % (
            coqrun.coq_bool(bool(cb.get('progress'))), term, fl['addr'], g['ps'], g['bp'], g['fp'], g['sp'], ov, img, exc))
    tgs = []
    for k, t in enumerate(case['targets']):
        tgs.append('(mkT %d %d %d %d (mem %d %d) (mem %d %d) false)' % (
            t['id'], t['ps'], t['bp'], t['fp'], t['ps'] * t['bp'], 3 + k, t['ps'] * t['fp'], 101 + k))
    return ('let res := run_history [%s] [%s] [%s] in '
            'let tr := concat (map snd res) in '
            'concat (map (fun x : Z * list (frame * bool) => fst x :: Z.of_nat (length (snd x)) :: trace_obs (snd x)) res) ++ '
            'concat (map (fun T => let T1 := deliver T tr in t_buf T1 ++ t_flash T1 ++ [if t_oob T1 then 1 else 0]) [%s])'
            % ('; '.join(reqs), '; '.join(_pkt(p) for p in case.get('queue', [])),
               '; '.join(_att(a) for a in case.get('script', [])), '; '.join(tgs)))


def gen_history_case(rng, for_oracle=False):
    sps, sbp = rng.choice([4, 8, 16, 26]), rng.choice([2, 3, 4, 10])
    nps = rng.choice([4, 8, 16, 25])
    ssp, nsp = rng.choice([2, 3, 5]), rng.choice([1, 2, 4])
    targets = [{'id': STM, 'ps': sps, 'bp': sbp, 'fp': ssp + 3 * sbp + 4, 'sp': ssp},
               {'id': NRF, 'ps': nps, 'bp': 1, 'fp': nsp + 8, 'sp': nsp}]
    geo = {t['id']: t for t in targets}
    flashes = []
    for k in range(rng.choice([2, 2, 3])):
        addr = rng.choice([STM, STM, NRF])
        g = geo[addr]
        avail = (g['fp'] - g['sp']) * g['ps']
        ln = rng.choice([1, g['ps'], g['ps'] + 1, g['bp'] * g['ps'] + 1, 2 * g['bp'] * g['ps'] + g['ps'], avail,
                         rng.randrange(1, avail + 1)])
        ln = max(1, min(ln, avail + (g['ps'] if rng.random() < 0.05 else 0)))
        f = [ln, rng.randrange(1, 1000), rng.randrange(1000), rng.randrange(1000)]
        fl = {'addr': addr, 'formula': f, 'image': fimg(*f), 'override': None}
        if rng.random() < 0.1:
            fl['override'] = g['sp'] + 1
        npg = (ln + g['ps'] - 1) // g['ps']
        r = rng.random()
        if r < 0.3:
            fl['cb'] = {'progress': rng.random() < 0.5, 'term': [False] * rng.randrange(0, npg + 1) + [True]}
        elif r < 0.5:
            fl['cb'] = {'progress': True, 'term': None}
        if rng.random() < 0.3 and not for_oracle:
            fl['link_exc_at'] = rng.randrange(1, 2 * npg + 4)
        flashes.append(fl)
    c = {'targets': targets, 'flashes': flashes, 'queue': [], 'script': []}
    if rng.random() < 0.5:
        c['deferred'] = True
    if not for_oracle and rng.random() < 0.7:
        ncalls = sum((len(fl['image']) // (geo[fl['addr']]['ps'] * geo[fl['addr']]['bp'])) + 1 for fl in flashes)
        c['script'] = rand_script(rng, flashes[0]['addr'], ncalls)
    return c


HFAULTS = [{'kind': 'stray_flood', 'call': 0, 'k': 300, 'strays': 0}, {'kind': 'stray_flood', 'call': 1, 'k': 300, 'strays': 1},
           {'kind': 'stray_flood', 'call': 0, 'k': 300, 'strays': 2, 'exec': True},
           None, None, {'kind': 'negative', 'call': 0}, {'kind': 'negative', 'call': 1}, {'kind': 'lost_forever', 'call': 0},
           {'kind': 'lost_forever', 'call': 1, 'up': False}, {'kind': 'lost_k', 'call': 0, 'k': 2}, {'kind': 'late_k', 'call': 0, 'k': 2}]


def check_history(case, faults):
    """The clauses of the property for EVERY flash of a history on one Bootloader object, judged on the device state
    right before and right after that flash."""
    recs, link, tg = run_history(case, faults)
    geo = {t['id']: t for t in case['targets']}

    def fail(cls, k, expected, observed, detail_):
        return {'class': cls, 'case': {'kind': 'history', 'case': case, 'faults': faults}, 'expected': expected,
                'observed': dict(observed, flash_no=k, previous_outcomes=[CODES.get(r['code'], r['code']) for r in recs[:k]]),
                'detail': detail_}
    for k, (fl, r) in enumerate(zip(case['flashes'], recs)):
        g = geo[fl['addr']]
        ps, bp, fp = g['ps'], g['bp'], g['fp']
        start = g['sp'] if fl.get('override') is None else fl['override']
        img = bytes(fl['image'])
        ln = len(img)
        npg = (ln + ps - 1) // ps
        idx = [i for i, t in enumerate(case['targets']) if t['id'] == fl['addr']][0]
        if r['code'] == 98 and 'listen budget' in r['detail']:
            return fail('flash_write_not_bounded', k, 'abort after a bounded number of attempts', {'detail': r['detail']},
                        'write_flash kept listening instead of aborting')
        if r['code'] in (98, 99):
            return fail('unexpected_exception', k, 'success or a flashing error', {'detail': r['detail']}, '')
        for (h, d, deliv) in r['frames']:
            if 1 + len(d) > 32:
                return fail('frame_too_long', k, '<= 32 bytes', {'len': 1 + len(d)}, '')
        if any(a[2] for a in r['after']):
            return fail('command_out_of_range', k, 'all commands inside buffer and flash', {},
                        'a load-buffer or write-flash command addressed bytes beyond the buffer or the flash')
        for i in range(len(tg)):
            if i != idx and (r['before'][i][1] != r['after'][i][1] or r['before'][i][0] != r['after'][i][0]):
                return fail('other_target_touched', k, 'other target unchanged', {}, '')
        fb, fa = r['before'][idx][1], r['after'][idx][1]
        lo, hi = start * ps, (start + npg) * ps
        fits = ln <= (fp - start) * ps
        if not fits:
            if r['frames'] or fb != fa or r['code'] == 0:
                return fail('too_big_not_refused', k, 'refused, no frame sent', {'frames': len(r['frames'])}, '')
            continue
        if fb[:lo] != fa[:lo] or fb[hi:] != fa[hi:]:
            a = next(i for i in range(len(fa)) if (i < lo or i >= hi) and fa[i] != fb[i])
            return fail('page_outside_image_touched', k, 'unchanged outside pages [%d,%d)' % (start, start + npg),
                        {'first_changed_byte': a, 'page': a // ps, 'below_start_page': a < lo},
                        'a flash page outside the range the image occupies was written')
        # loads: every byte of every page once, at its offset; writes name the right page
        page, cov, i = 0, {}, 0
        sent = r['frames']
        while i < len(sent):
            h, d, deliv = sent[i]
            if d[1] == 0x14:
                bpage, off = struct.unpack('<HH', d[2:6])
                for j, b in enumerate(d[6:]):
                    cov[(bpage, off + j)] = cov.get((bpage, off + j), 0) + 1
                    a = (page + bpage) * ps + off + j
                    if off + j >= ps or a >= ln or img[a] != b:
                        return fail('load_wrong_offset', k, 'image byte %d at buffer page %d offset %d' % (a, bpage, off + j),
                                    {'frame': i}, 'a buffer-load frame carries a byte to the wrong place')
                i += 1
            elif d[1] == 0x18:
                bq, fq, n = struct.unpack('<HHH', d[2:8])
                want = {(p, o) for p in range(n) for o in range(ps) if (page + p) * ps + o < ln}
                if bq != 0 or fq != start + page or set(cov) != want or any(v != 1 for v in cov.values()):
                    return fail('page_not_covered_once', k, 'pages %d..%d loaded once, write at flash page %d' % (page, page + n - 1, start + page),
                                {'write': [bq, fq, n], 'loaded': len(cov), 'expected': len(want)},
                                'buffer loads do not cover the pages of a flash-write exactly once')
                j = i
                while j < len(sent) and sent[j][1] == d:
                    j += 1
                if j - i > 16:
                    return fail('write_retry_unbounded', k, '<= 16 attempts', {'attempts': j - i}, '')
                i, page, cov = j, page + n, {}
            else:
                i += 1
        if r['code'] == 0:
            pol = r['pol']
            if pol is not None:
                for c_, rec in enumerate(pol.calls):
                    if rec['pos_ack'] == 0:
                        return fail('continued_after_failed_write', k, 'flashing aborts with an error',
                                    {'write_call': c_, 'attempts': rec['attempts']}, '')
                if bytes(fa[lo:lo + ln]) != img:
                    a = next(i for i in range(ln) if fa[lo + i] != img[i])
                    return fail('image_not_exact', k, 'flash[start*ps : start*ps+len] == image', {'first_wrong_byte': a}, '')
        elif r['code'] == 6:
            term = (fl.get('cb') or {}).get('term')
            if not term or not any(term):
                return fail('spurious_terminate', k, 'no termination', {}, '')
        elif r['code'] != 7:
            f = faults[k] if faults else None
            if r['pol'] is not None and (f is None or f['kind'] in ('late_k',) or (f['kind'] == 'lost_k' and f['k'] <= 4)):
                return fail('spurious_abort', k, 'success', {'outcome': CODES.get(r['code'], r['code'])},
                            'flashing failed although every write was acknowledged')
    return None



# ------------------------------------------------------------------------------------------------ write_flash against a stream of receive results
def run_write_flash_stream(case):
    """case: {'addr', 'rx': [None | [hdr, data]], 'tail': None | [hdr, data]} -> [result code, receives, sends]"""
    from cflib.bootloader.cloader import Cloader
    from cflib.crtp.crtpstack import CRTPPacket
    link = fs.StreamLink(case['rx'], case['tail'], CRTPPacket)
    cl = Cloader(None)
    cl.link = link
    try:
        r = cl.write_flash(case['addr'], 0, 3, 2)
        code = 1 if r is True else (0 if r is False else 97)
    except ft.HarnessAbort:
        code = 98
    except IndexError:
        code = 2
    except Exception:
        code = 99
    return [code, link.k, len(link.sent)]


def stream_term(case):
    def e(x):
        return 'None' if x is None else '(Some %s)' % _pkt(x)
    return ('let \'(r, k, s) := write_flash_stream %d (fun j => nth j [%s] %s) in '
            '[match r with WTrue => 1 | WFalse => 0 | WRaise _ => 2 end; Z.of_nat k; Z.of_nat s]'
            % (case['addr'], '; '.join(e(x) for x in case['rx']), e(case['tail'])))


def gen_stream_case(rng):
    addr = rng.choice([STM, NRF])

    def stray():
        return rng.choice(stray_packets(addr, rng.randrange(4)) + [rand_pkt(rng, addr) for _ in range(2)])
    n = rng.choice([0, 1, 2, 3, 5, 6, 7, 12])
    rx = [rng.choice([None, stray(), stray()]) for _ in range(n)]
    tail = rng.choice([None, stray(), ack(addr), ack(addr, 0, 7)])
    if rng.random() < 0.5:
        rx.append(rng.choice([ack(addr), ack(addr, 0, 3), [0xFF, [addr, 0x18]], [0xFF, [addr, 0x18, 1]]]))
    return {'addr': addr, 'rx': rx, 'tail': tail}


def check_stream_case(case):
    """Text: a flash-write that goes unanswered (whatever else the link delivers) is given up after a bounded number
    of attempts."""
    obs = run_write_flash_stream(case)
    if obs[0] == 98 or obs[2] > 16:
        return {'class': 'flash_write_not_bounded', 'case': {'kind': 'stream', 'case': case},
                'expected': 'write_flash returns after a bounded number of commands and receives',
                'observed': {'receives': obs[1], 'commands': obs[2]},
                'detail': 'write_flash did not give up although the command is never answered'}
    return None



def tie_extra(ctx):
    """update_info cases and whole-session cases; returns (n, disagreements, distribution, samples)."""
    dis = []
    rng = ctx.rng
    icases = [gen_info_case(rng) for _ in range(ctx.scale(150, 3000))]
    terms = [info_term(c) for c in icases]
    exp = [run_update_info(c) for c in icases]
    dist = {'update_info_outcome': {}, 'session_outcome': {}, 'session_with_sd': 0}
    for e in exp:
        k = {0: 'False', 1: 'struct.error', 2: 'True', 3: 'MalformedMapping'}.get(e[0], str(e[0]))
        dist['update_info_outcome'][k] = dist['update_info_outcome'].get(k, 0) + 1
    fut_1 = compare_async(terms, exp, 'c12i', max(10, len(terms) // 5 + 1))
    scases = [gen_session_case(rng) for _ in range(ctx.scale(50, 1500))]
    terms, exp2, keep = [], [], []
    for c in scases:
        obs, code, detail, link, tg, bl = session_obs(c)
        if code >= 98:
            dis.append({'what': 'Bootloader.flash raised an unexpected exception', 'case': c, 'impl': detail})
            continue
        terms.append(session_term(c))
        exp2.append(obs)
        keep.append(c)
        k = CODES[code]
        dist['session_outcome'][k] = dist['session_outcome'].get(k, 0) + 1
        dist['session_with_sd'] += c.get('sd') is not None
    fut_2 = compare_async(terms, exp2, 'c12s', max(10, len(terms) // 5 + 1))
    # whole flash() with generated manifests and target lists
    pcases = [c for (c, f) in corpus_plan_entries()] + [gen_plan_case(rng) for _ in range(ctx.scale(130, 2000))]
    terms, exp3, keep3 = [], [], []
    dist['plan_outcome'] = {}
    dist['plan_with_selection'] = 0
    dist['plan_rebooted'] = 0
    for c in pcases:
        obs, code, detail, link, tg, rec = plan_obs(c)
        if code >= 98:
            dis.append({'what': 'Bootloader.flash raised an unexpected exception', 'case': _short(c), 'impl': detail})
            continue
        terms.append(plan_term(c))
        exp3.append(obs)
        keep3.append(c)
        k = CODES.get(code) or FEXN.get(code, str(code))
        dist['plan_outcome'][k] = dist['plan_outcome'].get(k, 0) + 1
        dist['plan_with_selection'] += bool(c['select'])
        dist['plan_rebooted'] += bool(link.resets)
    fut_3 = compare_async(terms, exp3, 'c12p', max(10, len(terms) // 5 + 1))
    # several flashes on one Bootloader object
    hcases = [c for (c, f) in corpus_history_entries()] + [gen_history_case(rng) for _ in range(ctx.scale(80, 2000))]
    terms = [history_term(c) for c in hcases]
    exp5 = []
    dist['history_outcomes'] = {}
    for c in hcases:
        obs, recs = history_obs(c)
        exp5.append(obs)
        key = '>'.join(CODES.get(r['code'], 'LinkError' if r['code'] == 7 else str(r['code'])) for r in recs)
        dist['history_outcomes'][key] = dist['history_outcomes'].get(key, 0) + 1
    fut_4 = compare_async(terms, exp5, 'c12h', max(10, len(terms) // 5 + 1))
    # write_flash against streams of receive results (silence / strays / answers, finite prefix + endless tail)
    wcases = [gen_stream_case(rng) for _ in range(ctx.scale(150, 2000))]
    wterms = [stream_term(c) for c in wcases]
    exp6 = [run_write_flash_stream(c) for c in wcases]
    fut_w = compare_async(wterms, exp6, 'c12w', max(10, len(wterms) // 4 + 1))
    # read_flash
    rcases = [gen_read_case(rng) for _ in range(ctx.scale(150, 2500))]
    terms = [read_term(c) for c in rcases]
    exp4 = [run_read_flash(c)[0] for c in rcases]
    dist['read_flash_outcome'] = {}
    for e in exp4:
        k = {0: 'None', 1: 'struct.error', 2: 'page'}.get(e[0], str(e[0]))
        dist['read_flash_outcome'][k] = dist['read_flash_outcome'].get(k, 0) + 1
    fut_5 = compare_async(terms, exp4, 'c12r', max(10, len(terms) // 5 + 1))
    # collect the evaluations (all batches ran concurrently)
    for bi, mv in fut_1.result():
        dis.append({'what': '_update_info: model and implementation differ', 'case': icases[bi],
                    'model': mv if mv is None else mv[:40], 'impl': exp[bi][:40]})
    for bi, mv in fut_2.result():
        c = keep[bi]
        d = {'what': 'Bootloader.flash session: model and implementation differ',
             'case': {k: (v if not isinstance(v, list) or len(v) < 40 else len(v)) for k, v in c.items()},
             'impl_outcome': exp2[bi][0]}
        if mv is not None:
            k = next((i for i, (a, b) in enumerate(zip(mv, exp2[bi])) if a != b), min(len(mv), len(exp2[bi])))
            d.update({'first_difference_at': k, 'model': mv[max(0, k - 4):k + 12], 'impl': exp2[bi][max(0, k - 4):k + 12]})
        dis.append(d)
    for bi, mv in fut_3.result():
        d = {'what': 'Bootloader.flash (artifact plan): model and implementation differ', 'case': _short(keep3[bi]),
             'impl_outcome': exp3[bi][0]}
        if mv is not None:
            k = next((i for i, (a, b) in enumerate(zip(mv, exp3[bi])) if a != b), min(len(mv), len(exp3[bi])))
            d.update({'first_difference_at': k, 'model': mv[max(0, k - 4):k + 12], 'impl': exp3[bi][max(0, k - 4):k + 12],
                      'model_outcome': mv[0] if mv else None})
        dis.append(d)
    for bi, mv in fut_4.result():
        c = hcases[bi]
        d = {'what': 'history of flashes on one Bootloader: model and implementation differ',
             'case': {'targets': c['targets'], 'script_len': len(c['script']),
                      'flashes': [{k: (v if k != 'image' else len(v)) for k, v in fl.items()} for fl in c['flashes']]}}
        if mv is not None:
            k = next((i for i, (a, b) in enumerate(zip(mv, exp5[bi])) if a != b), min(len(mv), len(exp5[bi])))
            d.update({'first_difference_at': k, 'model': mv[max(0, k - 4):k + 12], 'impl': exp5[bi][max(0, k - 4):k + 12]})
        dis.append(d)
    for bi, mv in fut_5.result():
        dis.append({'what': 'read_flash: model and implementation differ', 'case': rcases[bi],
                    'model': mv if mv is None else mv[:30], 'impl': exp4[bi][:30]})
    for bi, mv in fut_w.result():
        dis.append({'what': 'write_flash on a receive stream: model and implementation differ', 'case': wcases[bi],
                    'model': mv, 'impl': exp6[bi]})
    samples = [{'update_info': {'tid': icases[0]['tid'], 'events': icases[0]['events'][:2], 'impl': exp[0][:8]}},
               {'flash_plan': _short(keep3[-1]) if keep3 else None}]
    return len(icases) + len(keep) + len(keep3) + len(rcases) + len(hcases) + len(wcases), dis, dist, samples



# ------------------------------------------------------------------------------------------------ tie
def tie(ctx):
    _raise_stack_limit()
    cases = gen_cases(ctx, ctx.scale(320, 8000), ctx.scale(4, 60))
    terms, exp, meta = [], [], []
    dis = []
    dist = {'outcome': {}, 'page_size': {}, 'buffer_pages': {}, 'addr': {}, 'override': 0, 'faulty_script': 0,
            'stale_queue': 0, 'exact_page_multiple': 0, 'exact_buffer_multiple': 0, 'max_image_len': 0}
    seen = set()
    nontriv = 0
    for c in cases:
        obs, code, detail, link, tg = impl_obs(c)
        if code >= 98:
            dis.append({'what': 'implementation raised an unexpected exception', 'case': c, 'impl': detail, 'model': None})
            continue
        terms.append(model_term(c))
        exp.append(obs)
        meta.append((c, code))
        me, ps, bp, fp, start, ln, npg = case_facts(c)
        key = CODES[code]
        dist['outcome'][key] = dist['outcome'].get(key, 0) + 1
        dist['page_size'][str(ps)] = dist['page_size'].get(str(ps), 0) + 1
        dist['buffer_pages'][str(bp)] = dist['buffer_pages'].get(str(bp), 0) + 1
        dist['addr'][hex(c['addr'])] = dist['addr'].get(hex(c['addr']), 0) + 1
        dist['override'] += c.get('override') is not None
        dist['faulty_script'] += any(a != att_ok(c['addr']) for a in c.get('script', []))
        dist['stale_queue'] += bool(c.get('queue'))
        dist['exact_page_multiple'] += ln > 0 and ln % ps == 0
        dist['exact_buffer_multiple'] += ln > 0 and ln % (ps * bp) == 0
        dist['max_image_len'] = max(dist['max_image_len'], ln)
        h = hash_int(c)
        if h not in seen:
            seen.add(h)
            nontriv += nontrivial(c)
    big = [i for i, e in enumerate(exp) if len(e) > 20000]
    small = [i for i in range(len(exp)) if i not in set(big)]
    fut_big = compare_async([terms[i] for i in big], [exp[i] for i in big], 'c12b', 1) if big else None   # one process per long case
    fut_small = compare_async([terms[i] for i in small], [exp[i] for i in small], 'c12', max(10, len(small) // 10 + 1)) if small else None
    nx, dx, distx, sampx = tie_extra(ctx)      # its batches evaluate concurrently with the two above
    res = []
    if fut_big is not None:
        res += [(big[k], mv) for k, mv in fut_big.result()]
    if fut_small is not None:
        res += [(small[k], mv) for k, mv in fut_small.result()]
    for bi, mv in res:
        c, code = meta[bi]
        d = {'what': 'flash run: model and implementation differ', 'case': c, 'impl_outcome': CODES.get(code, code)}
        if mv is not None:
            k = next((i for i, (a, b) in enumerate(zip(mv, exp[bi])) if a != b), min(len(mv), len(exp[bi])))
            d['first_difference_at'] = k
            d['model'] = mv[max(0, k - 4):k + 12]
            d['impl'] = exp[bi][max(0, k - 4):k + 12]
            d['model_outcome'] = CODES.get(mv[0], mv[0]) if mv else None
        dis.append(d)
    nb, bad = int_div_boundary_check()
    for (v, ps) in bad[:3]:
        dis.append({'what': 'int(v/ps) differs from v//ps', 'v': v, 'ps': ps})
    dis += dx
    dist.update(distx)
    nontriv += nx
    return {
        'evaluations': len(terms) + nb + nx,
        'distinct_nontrivial': nontriv,
        'rule': 'also: Cloader._update_info on scripted receive events under a virtual clock (result, stored geometry, '
                'cpu id, versions, frames sent, events consumed) and whole Bootloader.flash(zip) sessions (info packets -> '
                'geometry, nRF51 sd+bl erase + override page, firmware images; compared: outcome, all load/write frames, final '
                'memories); a case is (two target geometries, addressed target, image, override page, script of flash-write fates, '
                'stale queue); non-trivial: image spans more than one buffer-full, or ends inside a page, or the script '
                'contains an attempt that is not a plain positive acknowledgement; compared: outcome, every frame with its '
                'delivered flag, final buffer+flash+out-of-range flag of both targets, remaining downlink queue '
                '(two 31-bit polynomial digests computed inside Coq, differing cases re-evaluated and compared in full)',
        'samples': [{'addr': c['addr'], 'geometry': case_facts(c)[0], 'len': len(c['image']), 'override': c['override'],
                     'script': c['script'][:3], 'impl_outcome': CODES[code]} for (c, code) in meta[11:14] + meta[-2:]] + sampx,
        'distribution': dist,
        'exhaustive': False,
        'disagreements': dis,
    }


def hash_int(case):
    import hashlib
    import json
    return int(hashlib.sha1(json.dumps(case, sort_keys=True).encode()).hexdigest()[:15], 16)


# ------------------------------------------------------------------------------------------------ oracle
def stray_packets(addr, which=0):
    """Packets that are not the answer of target addr to a flash-write command"""
    other = [0xFF, [addr ^ 1, 0x18, 1, 0]]             # the other target's acknowledgement
    sets = [[other],
            [other, [0xFF, [addr, 0x14, 1, 0]], [0xFF, [addr]], [0x00, [addr, 0x18, 1, 0]]],   # + wrong command, short, console port
            [[0xFF, [addr, 0x1C, 0, 0, 0, 0, 1, 2, 3]], [0xFF, [addr ^ 1, 0x10] + [0] * 20]],  # read reply, other target's info
            [[0xFF, []], other]]
    return sets[which % len(sets)]


class Policy:
    """Fate of flash-write commands decided per (write call, attempt) — a write call is a maximal run of
    identical consecutive 0x18 frames.  Always honest: a positive acknowledgement only after delivery."""

    def __init__(self, addr, fault):
        self.addr, self.fault = addr, fault
        self.call = -1
        self.att = 0
        self.last = None
        self.calls = []        # per call: {'frame', 'attempts', 'delivered', 'pos_ack'}

    def __call__(self, frame):
        addr = self.addr if self.addr is not None else frame[0]     # sessions: the target the command names
        if frame != self.last:
            self.call += 1
            self.att = 0
            self.last = frame
            self.calls.append({'frame': frame, 'attempts': 0, 'delivered': 0, 'pos_ack': 0})
        else:
            self.att += 1
        rec = self.calls[-1]
        rec['attempts'] += 1
        f = self.fault
        a = att_ok(addr)
        if f and self.call >= f['call'] and (f.get('only_call') is not True or self.call == f['call']):
            kind = f['kind']
            if kind == 'lost_forever':
                a = att_lost_up() if f.get('up', True) else att_lost_reply()
            elif kind == 'negative':
                a = att_neg(addr, f.get('code', 5), f.get('exec', False))
            elif kind == 'stray_flood':
                # the command goes unanswered while the link delivers OTHER packets on every listen, for k listens
                a = {'deliv': bool(f.get('exec', False)), 'intime': [], 'late': [],
                     'flood': {'pkts': stray_packets(addr, f.get('strays', 0)), 'k': f.get('k', 300)}}
            elif kind == 'lost_k' and self.call == f['call']:
                if self.att < f['k']:
                    a = att_lost_up() if f.get('up', True) else att_lost_reply()
            elif kind == 'late_k' and self.call == f['call']:
                if self.att < f['k']:
                    a = att_late(addr)
            elif kind == 'foreign' and self.call == f['call']:
                if self.att < f['k']:
                    a = {'deliv': True, 'intime': [[0xFF, [addr ^ 1, 0x18, 1, 0]]], 'late': []}
        rec['delivered'] += bool(a['deliv'])
        rec['pos_ack'] += sum(1 for p in a['intime'] + a['late'] if p[1][:3] == [addr, 0x18, 1])
        return a


def check_case(case, fault=None):
    """The property text on the observables of one run.  Returns (failure dict or None)."""
    addr = case['addr']
    pol = Policy(addr, fault) if (fault is not None or not case.get('script')) else None
    code, detail, link, tg = run_impl(case, policy=pol)
    me, ps, bp, fp, start, ln, npg = case_facts(case)
    mine = [t for t in tg if t.tid == addr][0]
    others = [t for t in tg if t.tid != addr]
    init = build_targets(case)
    mine0 = [t for t in init if t.tid == addr][0]
    others0 = [t for t in init if t.tid != addr]

    def fail(cls, expected, observed, detail_):
        return {'class': cls, 'case': {'case': case, 'fault': fault}, 'expected': expected, 'observed': observed,
                'detail': detail_}

    if code == 98 and 'listen budget' in detail:
        return fail('flash_write_not_bounded', 'the flash-write is given up after a bounded number of attempts and the '
                    'flashing aborts with an error', detail,
                    'write_flash kept listening (more than 200 receive_packet calls for one command) instead of aborting')
    if code == 98:
        return fail('write_retry_unbounded', 'a bounded number of flash-write attempts', detail,
                    'the flash-write command was re-sent more than 64 times')
    if code == 99:
        return fail('unexpected_exception', 'success or a flashing error', detail, 'unexpected exception type')
    if ln == 0:
        return None
    # frames fit the radio frame
    for (h, d, deliv) in link.sent:
        if 1 + len(d) > 32:
            return fail('frame_too_long', '<= 32 bytes', 1 + len(d), 'a frame exceeds header + 31 bytes')
    # nothing out of range, other target untouched
    if any(t.oob for t in tg):
        return fail('command_out_of_range', 'all commands inside buffer and flash', 'out-of-range command seen',
                    'a load-buffer or write-flash command addressed bytes beyond the buffer or the flash')
    for t, t0 in zip(others, others0):
        if t.flash != t0.flash or t.buf != t0.buf:
            return fail('other_target_touched', 'other target unchanged', 'changed', 'the target not being flashed was modified')
    fits = start >= 0 and ln <= (fp - start) * ps
    if fits and code == 1:
        return fail('fitting_image_refused', 'accepted', 'Refused', 'an image that fits was refused')
    if not fits and start >= 0:
        if code == 0 or link.sent or mine.flash != mine0.flash:
            return fail('too_big_not_refused', 'refused, no frame sent', {'outcome': CODES[code], 'frames': len(link.sent)},
                        'an image that does not fit must be refused before anything is written')
        return None
    if start < 0:
        if mine.flash != mine0.flash:
            return fail('negative_start_wrote_flash', 'no flash write', 'flash changed', 'negative start page')
        return None
    # pages outside the image's range untouched (any outcome)
    lo, hi = start * ps, (start + npg) * ps
    if mine.flash[:lo] != mine0.flash[:lo] or mine.flash[hi:] != mine0.flash[hi:] or len(mine.flash) != len(mine0.flash):
        k = next(i for i in range(len(mine.flash)) if (i < lo or i >= hi) and mine.flash[i] != mine0.flash[i])
        return fail('page_outside_image_touched', 'unchanged outside pages [%d,%d)' % (start, start + npg),
                    {'first_changed_byte': k, 'page': k // ps}, 'a flash page outside the range the image occupies was written')
    # buffer-load coverage: between two write calls every byte of every page exactly once, at its offset
    img = bytes(case['image'])
    page = 0            # index of the first image page of the current group
    cov = {}
    group_pages = 0
    i = 0
    sent = link.sent
    while i < len(sent):
        h, d, deliv = sent[i]
        if d[1] == 0x14:
            bpage, off = struct.unpack('<HH', d[2:6])
            for k, b in enumerate(d[6:]):
                cov[(bpage, off + k)] = cov.get((bpage, off + k), 0) + 1
                a = (page + bpage) * ps + off + k
                if off + k >= ps or a >= ln or img[a] != b:
                    return fail('load_wrong_offset', 'byte %d of the image at buffer page %d offset %d' % (a, bpage, off + k),
                                {'frame': i, 'byte': b}, 'a buffer-load frame carries a byte to the wrong place')
            i += 1
        else:
            bq, fq, n = struct.unpack('<HHH', d[2:8])
            want = {(p, o) for p in range(n) for o in range(ps) if (page + p) * ps + o < ln}
            if bq != 0 or fq != start + page or set(cov) != want or any(v != 1 for v in cov.values()):
                return fail('page_not_covered_once', 'each byte of pages %d..%d loaded exactly once, write at flash page %d'
                            % (page, page + n - 1, start + page),
                            {'write': [bq, fq, n], 'loaded': len(cov), 'expected': len(want),
                             'multiple': sum(1 for v in cov.values() if v != 1)},
                            'buffer loads do not cover the pages of a flash-write exactly once')
            j = i
            while j < len(sent) and sent[j][1] == d:
                j += 1
            if j - i > 16:
                return fail('write_retry_unbounded', '<= 16 attempts', j - i, 'flash-write retried too often')
            i = j
            page += n
            cov = {}
    honest = all(att_honest(a, addr) for a in case.get('script', []))
    if code == 0:
        if pol is not None:
            for k, rec in enumerate(pol.calls):
                if rec['pos_ack'] == 0:
                    return fail('continued_after_failed_write', 'flashing aborts with an error',
                                {'outcome': 'Done', 'write_call': k, 'attempts': rec['attempts']},
                                'a flash-write that was never positively acknowledged did not abort the flashing')
        if honest or pol is not None:
            got = bytes(mine.flash[lo:lo + ln])
            if got != img:
                k = next(i for i in range(ln) if got[i] != img[i])
                return fail('image_not_exact', 'flash[start*ps : start*ps+len] == image',
                            {'first_wrong_byte': k, 'flash': got[k], 'image': img[k]},
                            'flashing reported success but the flash does not hold the image')
    elif code == 6:
        term = (case.get('cb') or {}).get('term')
        if not term or not any(term):
            return fail('spurious_terminate', 'no termination', 'Flashing terminated',
                        'flashing was terminated although the terminate callback never asked for it')
    else:
        if pol is not None and (fault is None or fault['kind'] in ('late_k', 'foreign') or
                                (fault['kind'] == 'lost_k' and fault['k'] <= 4)):
            return fail('spurious_abort', 'success', CODES[code], 'flashing failed although every write was acknowledged '
                        'within five attempts')
    if pol is not None and fault is not None and fault['kind'] in ('lost_forever', 'negative', 'stray_flood') and code == 0 \
            and fault['call'] < len(pol.calls):
        return fail('continued_after_failed_write', 'error', 'Done', 'write failed but flashing reported success')
    return None


FLOODS = [{'kind': 'stray_flood', 'call': 0, 'k': 300, 'strays': 0}, {'kind': 'stray_flood', 'call': 1, 'k': 300, 'strays': 1},
          {'kind': 'stray_flood', 'call': 0, 'k': 300, 'strays': 2, 'exec': True}, {'kind': 'stray_flood', 'call': 0, 'k': 3, 'strays': 3},
          {'kind': 'stray_flood', 'call': 1, 'k': 40, 'strays': 1}, {'kind': 'stray_flood', 'call': 0, 'k': 7, 'strays': 0}]
FAULTS = [None,
          {'kind': 'lost_forever', 'call': 0, 'up': True}, {'kind': 'lost_forever', 'call': 1, 'up': False},
          {'kind': 'negative', 'call': 0}, {'kind': 'negative', 'call': 1, 'exec': True, 'code': 1},
          {'kind': 'lost_k', 'call': 0, 'k': 1}, {'kind': 'lost_k', 'call': 1, 'k': 4, 'up': False},
          {'kind': 'lost_k', 'call': 0, 'k': 5}, {'kind': 'lost_k', 'call': 0, 'k': 9},
          {'kind': 'late_k', 'call': 0, 'k': 2}, {'kind': 'late_k', 'call': 1, 'k': 4},
          {'kind': 'foreign', 'call': 0, 'k': 3}] + FLOODS


def grid_cases(ctx, deep):
    """Deterministic geometry x length grid (clean script) — complete for the small geometries."""
    out = []
    pss = [1, 2, 3, 4, 5, 8] if not deep else [1, 2, 3, 4, 5, 7, 8, 12, 13, 25, 26]
    bps = [1, 2, 3] if not deep else [1, 2, 3, 4, 5]
    for ps in pss:
        for bp in bps:
            for sp in (0, 2):
                for ln in range(1, 3 * bp * ps + 4):
                    npg = (ln + ps - 1) // ps
                    for slack in (0, 1):
                        addr = STM if (ps + bp + ln) % 2 else NRF
                        me = {'id': addr, 'ps': ps, 'bp': bp, 'fp': sp + npg + slack, 'sp': sp}
                        other = {'id': addr ^ 1, 'ps': 4, 'bp': 1, 'fp': 2, 'sp': 0}
                        out.append({'targets': [me, other] if addr == STM else [other, me], 'addr': addr,
                                    'image': [(i * 89 + ln) % 256 for i in range(ln)], 'override': None,
                                    'script': [], 'queue': []})
    return out


# ------------------------------------------------------------------------------------------------ oracle: info packet and sessions
def check_info_case(g, tid, rest):
    """A target reporting geometry g: after _update_info the client holds exactly g."""
    case = {'tid': tid, 'pv_prev': 0xFF, 'events': [None, [0xFF, [tid ^ 1, 0x10] + [9] * 20],
                                                    fs.info_packet(tid, g[0], g[1], g[2], g[3], rest=rest), None]}
    obs = run_update_info(case)
    if obs[0] != 2 or obs[1:5] != list(g):
        return {'class': 'info_geometry_wrong', 'case': {'kind': 'info', 'g': list(g), 'tid': tid, 'rest': list(rest)},
                'expected': list(g), 'observed': obs[1:5],
                'detail': 'page_size/buffer_pages/flash_pages/start_page held by the client differ from the info packet'}
    return None


def check_session(case):
    """Property text for a Bootloader.flash session: every image lands where the reported geometry says (sd+bl image in
    the last pages of the nRF51 flash), nothing else in either flash changes, refused images write nothing."""
    code, detail, link, tg, bl = run_session(case)
    init = build_targets(case)

    def fail(cls, expected, observed, detail_):
        return {'class': cls, 'case': {'kind': 'session', 'case': case}, 'expected': expected, 'observed': observed,
                'detail': detail_}
    if code >= 98:
        return fail('session_unexpected_exception', 'success or a flashing error', detail, '')
    if any(t.oob for t in tg):
        return fail('command_out_of_range', 'all commands inside buffer and flash', 'out-of-range command', '')
    rep = {int(k): v for k, v in case['reports'].items()}
    has_sd = case.get('sd') is not None
    ph2 = 1 if has_sd else 0
    allowed = {STM: [], NRF: []}       # byte ranges that may change, (lo, hi, image or None)
    n1 = rep[NRF][0]
    honest = all(att_honest(a, STM) and att_honest(a, NRF) for a in case.get('script', []))
    if has_sd:
        ps, fp, sp = n1[0], n1[2], n1[3]
        allowed[NRF].append((sp * ps, (sp + 1) * ps, None))
        ln = len(case['sd'])
        if ln % ps == 0 and ln // ps <= fp:
            allowed[NRF].append(((fp - ln // ps) * ps, fp * ps, bytes(case['sd'])))
    n2 = rep[NRF][min(ph2, len(rep[NRF]) - 1)]
    s2 = rep[STM][min(ph2, len(rep[STM]) - 1)]
    for key, tid, r in (('nrf_fw', NRF, n2), ('stm_fw', STM, s2)):
        if case.get(key) is not None:
            ps, fp, sp = r[0], r[2], r[3]
            ln = len(case[key])
            if ln <= (fp - sp) * ps:
                npg = (ln + ps - 1) // ps
                allowed[tid].append((sp * ps, (sp + npg) * ps, bytes(case[key])))
    for t, t0 in zip(tg, init):
        ok = bytearray(len(t.flash))
        for (lo, hi, _) in allowed[t.tid]:
            for a in range(max(0, lo), min(hi, len(ok))):
                ok[a] = 1
        for a in range(len(t.flash)):
            if not ok[a] and t.flash[a] != t0.flash[a]:
                return fail('session_wrote_outside', 'flash unchanged outside the images\' page ranges',
                            {'target': t.tid, 'byte': a, 'page': a // t.ps},
                            'a flash page that belongs to none of the flashed images was written')
    if code == 0 and honest:
        for t in tg:
            # later images may overlap earlier ranges only by mistake of the generator: check the last writer
            for (lo, hi, img) in allowed[t.tid]:
                if img is None:
                    continue
                overl = [x for x in allowed[t.tid] if x[2] is not None and x is not (lo, hi, img) and not (x[1] <= lo or hi <= x[0])]
                if len(overl) > 1:
                    continue
                if bytes(t.flash[lo:lo + len(img)]) != img:
                    return fail('session_image_not_exact', 'image at its place',
                                {'target': t.tid, 'at_byte': lo, 'len': len(img)},
                                'flash() succeeded but an image is not where the reported geometry puts it')
    return None


def check_plan_session(case, fault=None):
    """Property text for flash(zip, targets) on the final flash images of all targets: every flashed firmware artifact
    lies exactly at the start page its target reported at that time (after the reboot if there was one), nothing outside the
    union of the flashed images' page ranges (plus the bootloader+softdevice step) is written on any target, frames are
    <= 32 bytes, and without faults every page is written once, in manifest order."""
    files = case['files']
    if any(f['type'] == 'bootloader+softdevice' and f['target'] != 'nrf51' for f in files):
        return None            # a soft device addressed to another MCU: exercised by the tie only
    pol = Policy(None, fault) if fault is not None else None
    code, detail, link, tg, rec = run_plan_session(case, policy=pol)
    init = build_targets(case)

    def fail(cls, expected, observed, detail_):
        return {'class': cls, 'case': {'kind': 'plan', 'case': case, 'fault': fault}, 'expected': expected, 'observed': observed,
                'detail': detail_}
    if code == 98 and 'listen budget' in detail:
        return fail('flash_write_not_bounded', 'abort after a bounded number of attempts', detail, '')
    if code >= 98:
        return fail('session_unexpected_exception', 'success or a flashing error', detail, '')
    if pol is not None:
        # "a flash-write that fails or goes unanswered ... aborts the flashing with an error instead of continuing":
        # whatever callbacks are installed, flash() must raise and nothing more may be sent to any target's flash
        for k, rc in enumerate(pol.calls):
            if rc['pos_ack'] == 0:
                last = max(i for i, (h, d, dl) in enumerate(link.sent) if d == rc['frame'])
                later = [(d[0], d[1]) for (h, d, dl) in link.sent[last + 1:] if h == 0xFF and len(d) >= 2 and d[1] in (0x14, 0x18)]
                if code == 0 or later:
                    return fail('continued_after_failed_write', 'flash() raises and sends nothing more after the failed flash-write',
                                {'outcome': CODES.get(code) or FEXN.get(code, code), 'write_call': k, 'target': rc['frame'][0],
                                 'frames_sent_afterwards': len(later), 'to_targets': sorted(set(x[0] for x in later)),
                                 'error_cb_calls': len(rec['errors']), 'callbacks': case.get('cb')},
                                'a flash-write that was never positively acknowledged did not abort the flashing')
                break
    if any(t.oob for t in tg):
        return fail('command_out_of_range', 'all commands inside buffer and flash', 'out-of-range command', '')
    for (h, d, deliv) in link.sent:
        if 1 + len(d) > 32:
            return fail('frame_too_long', '<= 32 bytes', 1 + len(d), 'a frame exceeds header + 31 bytes')
    tids18 = [bytes(d) for (h, d, deliv) in link.sent if h == 0xFF and len(d) >= 2 and d[1] == 0x18]
    run = 0
    for k, d in enumerate(tids18):
        run = run + 1 if k and tids18[k - 1] == d else 1
        if run > 16:
            return fail('write_retry_unbounded', '<= 16 attempts', run, 'flash-write retried too often')
    rep = {int(k): v for k, v in case['reports'].items()}
    pv = rep[STM][0][4][0] if rep[STM][0][4] else 0xFF
    platform = 'cf2' if pv == 0x10 else 'cf1'
    phase = 1 if link.resets else 0
    sel = [tuple(x) for x in case['select']]
    tid_of = {'stm32': STM, 'nrf51': NRF}
    fw = [f for f in files if f['platform'] == platform and f['type'] != 'bootloader+softdevice']
    psel = [x for x in sel if x[0] == platform]
    # "flashed artifacts" = what the code's plan flashes: every MCU firmware artifact of the platform, provided the
    # firmware phase runs at all (empty list or a target of this platform named).  WHICH targets the list names is not
    # part of the property text (observation recorded in design.d/C12.md), so it is not judged here.
    wanted = fw if (not sel or psel) else []
    allowed = {STM: [], NRF: []}

    def rng_of(f, tid, ph):
        r = rep[tid][min(ph, len(rep[tid]) - 1)]
        ps, fp, sp = r[0], r[2], r[3]
        npg = (len(f['image']) + ps - 1) // ps
        return sp * ps, (sp + npg) * ps, len(f['image']) <= (fp - sp) * ps
    n0 = rep[NRF][0]
    for f in files:
        if f['platform'] == platform and f['type'] == 'bootloader+softdevice':
            ps, fp, sp = n0[0], n0[2], n0[3]
            allowed[NRF].append((sp * ps, (sp + 1) * ps, None))
            ln = len(f['image'])
            if ln % ps == 0 and ln // ps <= fp:
                allowed[NRF].append(((fp - ln // ps) * ps, fp * ps, None))
    for f in wanted:
        tid = tid_of.get(f['target'])
        if tid is not None:
            lo, hi, fits = rng_of(f, tid, phase)
            if fits:
                allowed[tid].append((lo, hi, f))
    for t, t0 in zip(tg, init):
        ok = bytearray(len(t.flash))
        for (lo, hi, _) in allowed[t.tid]:
            for a in range(max(0, lo), min(hi, len(ok))):
                ok[a] = 1
        for a in range(len(t.flash)):
            if not ok[a] and t.flash[a] != t0.flash[a]:
                return fail('plan_wrote_outside', 'flash unchanged outside the selected images\' page ranges',
                            {'target': t.tid, 'byte': a, 'page': a // t.ps},
                            'a flash page that belongs to none of the selected images was written')
    honest = all(att_honest(a, STM) and att_honest(a, NRF) for a in case.get('script', []))
    if code == 0 and honest:
        for t in tg:
            mine = [(lo, hi, f) for (lo, hi, f) in allowed[t.tid] if f is not None]
            for (lo, hi, f) in mine:
                if any(o is not f and not (ohi <= lo or hi <= olo) for (olo, ohi, o) in allowed[t.tid]):
                    continue           # overlapping images: the later one wins, not checked here
                img = bytes(f['image'])
                if bytes(t.flash[lo:lo + len(img)]) != img:
                    return fail('artifact_not_at_reported_start_page', 'image at start_page(reported at that time) * page_size',
                                {'target': t.tid, 'at_byte': lo, 'artifact': [f['platform'], f['target'], f['type']],
                                 'rebooted': bool(link.resets)},
                                'flash() succeeded but a selected image is not where its target\'s current report puts it')
                if not case.get('script'):
                    pages = [p for (b, fpg, n) in t.writes for p in range(fpg, fpg + n) if lo <= p * t.ps < hi]
                    if sorted(pages) != sorted(set(pages)):
                        return fail('artifact_flashed_twice', 'each page of a selected image written once', sorted(pages), '')
        if not case.get('script'):
            exp_seq = [NRF, NRF] if link.resets else []
            exp_seq += [tid_of[f['target']] for f in wanted if f['target'] in tid_of]
            tids = [d[0] for (h, d, deliv) in link.sent if h == 0xFF and len(d) >= 2 and d[1] == 0x18]
            coll = [x for k, x in enumerate(tids) if k == 0 or tids[k - 1] != x]
            ecoll = [x for k, x in enumerate(exp_seq) if k == 0 or exp_seq[k - 1] != x]
            if coll != ecoll:
                return fail('artifact_order_wrong', ecoll, coll, 'targets are not flashed in manifest order')
        wanted_decks = [f for f in files if f['platform'] == 'deck']
        deck_expected = bool(case.get('warm')) and (not sel or any(x[0] == 'deck' for x in sel))
        if bool(rec['deck_calls']) != deck_expected:
            return fail('deck_phase_wrong', deck_expected, bool(rec['deck_calls']), 'deck update entered/skipped wrongly')
        if rec['deck_calls'] and sorted(rec['deck_calls'][0][0]) != sorted(bytes(f['image']) for f in wanted_decks):
            return fail('deck_artifacts_wrong', 'all deck artifacts of the file', len(rec['deck_calls'][0][0]), '')
    return None



def oracle_extra(ctx, deep, rng):
    fails, n = [], 0
    for tid in (STM, NRF):
        for g in [(1024, 10, 1024, 16), (1024, 1, 232, 88), (1, 1, 1, 0), (65535, 65535, 65535, 65535), (256, 257, 258, 259),
                  (0x0102, 0x0304, 0x0506, 0x0708)] + [tuple(rng.randrange(65536) for _ in range(4)) for _ in range(30)]:
            for rest in ([], [0x10], [0x10, 1, 2, 3, 4], [0x01, 0xFF, 0x7F, 9, 9, 9]):
                n += 1
                r = check_info_case(g, tid, rest)
                if r and not any(x['class'] == r['class'] for x in fails):
                    fails.append(r)
    for _ in range(ctx.scale(60, 1500) * (3 if deep else 1)):
        c = gen_session_case(rng)
        n += 1
        r = check_session(c)
        if r and not any(x['class'] == r['class'] for x in fails):
            fails.append(r)
    plan_cases = [c for (c, f) in corpus_plan_entries()] + [gen_plan_case(rng) for _ in range(ctx.scale(250, 3000) * (2 if deep else 1))]
    for (c, f) in corpus_plan_entries():
        if f is not None:
            n += 1
            r = check_plan_session(c, f)
            if r and not any(x['class'] == r['class'] for x in fails):
                fails.append(r)
    for c in plan_cases:
        n += 1
        r = check_plan_session(c)
        if r and not any(x['class'] == r['class'] for x in fails):
            fails.append(shrink_plan(r))
    # multi-image sessions with a failing flash-write in the first / a middle / the last image, under every callback
    # configuration (progress_cb, error_cb, terminate callback that never stops)
    for k in range(ctx.scale(160, 2000) * (2 if deep else 1)):
        c = gen_multi_image_case(rng)
        kind = SFAULT_KINDS[k % len(SFAULT_KINDS)]
        f = dict(kind, call=rng.randrange(0, 4))
        c['cb'] = {'progress': k % 2 == 0, 'error': (k // 2) % 2 == 0, 'term': None if k % 3 else []}
        n += 1
        r = check_plan_session(c, f)
        if r and not any(x['class'] == r['class'] for x in fails):
            fails.append(shrink_plan(r))
    for k in range(ctx.scale(200, 2000)):
        c = gen_stream_case(rng)
        if k % 3 == 0:      # never answered, strays for ever
            c['tail'] = rng.choice(stray_packets(c['addr'], k))
            c['rx'] = [x for x in c['rx'] if x is None or not (x[1][:2] == [c['addr'], 0x18] and (x[0] | 0x0C) == 0xFF)]
        n += 1
        r = check_stream_case(c)
        if r and not any(x['class'] == r['class'] for x in fails):
            fails.append(r)
    hist = [(c, f) for (c, f) in corpus_history_entries() if f is not None]
    for _ in range(ctx.scale(350, 6000) * (2 if deep else 1)):
        c = gen_history_case(rng, for_oracle=True)
        hist.append((c, [rng.choice(HFAULTS) for _ in c['flashes']]))
    for (c, f) in hist:
        n += 1
        r = check_history(c, f)
        if r and not any(x['class'] == r['class'] for x in fails):
            fails.append(shrink_history(r))
    for _ in range(ctx.scale(300, 3000)):
        c = gen_read_case(rng, honest_only=True)
        n += 1
        r = check_read_case(c)
        if r and not any(x['class'] == r['class'] for x in fails):
            fails.append(r)
    return n, fails


def shrink_history(failure):
    """Drop trailing flashes, shorten images, drop callbacks while the same class fails."""
    import copy
    cls = failure['class']
    best = failure
    for _ in range(30):
        c, fts = best['case']['case'], best['case']['faults']
        cands = []
        if len(c['flashes']) > 2:
            for k in (len(c['flashes']) - 1, 0):
                c2 = copy.deepcopy(c)
                del c2['flashes'][k]
                cands.append((c2, fts[:k] + fts[k + 1:]))
        for k, fl in enumerate(c['flashes']):
            if len(fl['image']) > 1:
                c2 = copy.deepcopy(c)
                c2['flashes'][k]['image'] = fl['image'][:max(1, len(fl['image']) // 2)]
                c2['flashes'][k].pop('formula', None)
                cands.append((c2, fts))
            if fl.get('cb'):
                c2 = copy.deepcopy(c)
                c2['flashes'][k].pop('cb')
                cands.append((c2, fts))
        progressed = False
        for (c2, f2) in cands:
            try:
                r = check_history(c2, f2)
            except Exception:
                r = None
            if r is not None and r['class'] == cls:
                best, progressed = r, True
                break
        if not progressed:
            break
    return best


SFAULT_KINDS = [{'kind': 'negative'}, {'kind': 'lost_forever'}, {'kind': 'negative', 'exec': True, 'code': 1},
                {'kind': 'lost_forever', 'up': False}, {'kind': 'stray_flood', 'k': 300, 'strays': 1}]


def gen_multi_image_case(rng):
    """A zip with two to four MCU firmware images for both targets (no soft device), everything fits."""
    for _ in range(200):
        c = gen_plan_case(rng)
        fw = [f for f in c['files'] if f['platform'] == 'cf2' and f['type'] == 'fw' and f['target'] in ('stm32', 'nrf51')]
        rep = {int(k): v for k, v in c['reports'].items()}
        if len(fw) >= 2 and len({f['target'] for f in fw}) == 2 and rep[STM][0][4][:1] == [0x10] and \
                not any(f['type'] == 'bootloader+softdevice' for f in c['files']) and rep[NRF][0][3] in (88, 108):
            c['script'] = []
            c['select'] = []
            for f in fw:
                if f['target'] == 'nrf51':
                    f['requires'] = ['sd-s110' if rep[NRF][0][3] == 88 else 'sd-s130']
            for k2 in rep:
                for r in rep[k2]:
                    r[4] = [0x10]
            return c
    return c


def shrink_plan(failure):
    """Drop files / selections / script / image bytes while the same class fails."""
    import copy
    cls = failure['class']
    best = failure
    for _ in range(30):
        c = best['case']['case']
        cands = []
        for k in range(len(c['files'])):
            c2 = copy.deepcopy(c)
            del c2['files'][k]
            if c2['files']:
                cands.append(c2)
        for k in range(len(c['select'])):
            c2 = copy.deepcopy(c)
            del c2['select'][k]
            cands.append(c2)
        if c.get('script'):
            c2 = copy.deepcopy(c)
            c2['script'] = []
            cands.append(c2)
        for k, f in enumerate(c['files']):
            if len(f['image']) > 1:
                c2 = copy.deepcopy(c)
                c2['files'][k]['image'] = c2['files'][k]['image'][:max(1, len(f['image']) // 2)]
                c2['files'][k].pop('formula', None)
                cands.append(c2)
        progressed = False
        for c2 in cands:
            try:
                r = check_plan_session(c2, best['case'].get('fault'))
            except Exception:
                r = None
            if r is not None and r['class'] == cls:
                best, progressed = r, True
                break
        if not progressed:
            break
    return best



def callback_variants(c, k):
    """The same case under the UI configurations: as generated, with a progress callback, and (now and then) with a
    terminate callback that never / at some page asks to stop.  Every clause must hold under each of them."""
    out = [c]
    if not c.get('deferred'):
        # the same case through the reference-keeping link: what the radio serialises later must still be the image
        out.append(dict(c, deferred=True))
    if not c.get('cb'):
        out.append(dict(c, cb={'progress': True, 'term': None}))
        if k % 5 == 0:
            out.append(dict(c, cb={'progress': True, 'term': [False, False, False]}))
        if k % 7 == 0:
            out.append(dict(c, cb={'progress': k % 2 == 0, 'term': [False] * (k % 3) + [True]}))
    return out


def oracle(ctx, deep=False):
    fails = []
    n = 0
    rng = __import__('random').Random(ctx.seed * 7919 + 12)
    nrand = ctx.scale(300, 4000) * (4 if deep else 1)
    pool = grid_cases(ctx, deep or ctx.thorough) + [gen_case(rng) for _ in range(nrand)]
    pool += [gen_case(rng, big=True) for _ in range(ctx.scale(4, 40))]
    rng.shuffle(pool)       # the time budget may cut the run short: keep every prefix diverse
    cases = corpus_cases() + fixed_cases() + pool
    seen = set()
    nontriv = 0
    nx, fx = oracle_extra(ctx, deep, __import__('random').Random(ctx.seed * 104729 + 5))
    n += nx
    nontriv += nx
    fails += fx
    for (c, f) in corpus_entries():      # past witnesses, with the fault they were found under
        if f is not None:
            n += 1
            r = check_case(c, f)
            if r is not None and not any(x['class'] == r['class'] for x in fails):
                fails.append(shrink(r))
    import time
    t0 = time.time()
    budget = 600 if ctx.thorough else 30
    for k, c in enumerate(cases):
        el = time.time() - t0
        if el > budget or (fails and el > budget / 4):
            break
        faults = [None]
        if not c.get('script'):
            faults = FAULTS if (k % 7 == 0 or deep) else [None, FAULTS[1 + k % (len(FAULTS) - 1)]]
        for f in faults:
            for c2 in callback_variants(c, k):
                n += 1
                r = check_case(c2, f)
                h = hash_int({'c': c2, 'f': f})
                if h not in seen:
                    seen.add(h)
                    nontriv += nontrivial(c2) or f is not None
                if r is not None and not any(x['class'] == r['class'] for x in fails):
                    fails.append(shrink(r))
    return {'evaluations': n, 'failures': fails, 'distinct_nontrivial': nontriv,
            'rule': 'property text on the fake target: frames <= 32 bytes, no command out of range, other target and pages '
                    'outside the image range unchanged, loads cover each page byte exactly once at its offset, refusal '
                    'before any frame when too big, success only with every write acknowledged and then flash == image, '
                    'bounded retries; complete length grid for small geometries + random cases x fault kinds'}


def shrink(failure):
    """Reduce the image length / script of a failing case while it fails with the same class."""
    cls = failure['class']
    case, fault = failure['case']['case'], failure['case']['fault']
    best = failure
    import copy
    for _ in range(40):
        c = copy.deepcopy(best['case']['case'])
        progressed = False
        cands = []
        ln = len(c['image'])
        for nl in sorted({ln // 2, ln - 1, ln - case_facts(c)[1]}):
            if 1 <= nl < ln:
                c2 = copy.deepcopy(c)
                c2['image'] = c2['image'][:nl]
                c2.pop('image_formula', None)
                cands.append(c2)
        if c.get('script'):
            c2 = copy.deepcopy(c)
            c2['script'] = c2['script'][:-1]
            cands.append(c2)
        if c.get('queue'):
            c2 = copy.deepcopy(c)
            c2['queue'] = []
            cands.append(c2)
        for c2 in cands:
            try:
                r = check_case(c2, fault)
            except Exception:
                r = None
            if r is not None and r['class'] == cls:
                best = r
                progressed = True
                break
        if not progressed:
            break
    return best


def replay(payload, ctx):
    c = payload['case']
    if c.get('kind') == 'info':
        return check_info_case(tuple(c['g']), c['tid'], c['rest'])
    if c.get('kind') == 'session':
        return check_session(c['case'])
    if c.get('kind') == 'plan':
        return check_plan_session(c['case'], c.get('fault'))
    if c.get('kind') == 'read':
        return check_read_case(c['case'])
    if c.get('kind') == 'stream':
        return check_stream_case(c['case'])
    if c.get('kind') == 'history':
        return check_history(c['case'], c['faults'])
    return check_case(c['case'], c.get('fault'))
