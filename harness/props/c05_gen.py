"""C05 translator (T-tie): constants and the type table of cflib/crazyflie/log.py -> coq/C05/Gen_Consts.v.

Fail-closed: any shape that is not recognised raises (the check then reports a broken translator).
Only literals are read (module-level NAME = int, class-level NAME = int, the `types` dict literal of
LogTocElement, the keys `errno.X` of Log._err_codes); nothing is executed."""
import ast
import errno as _errno
import os
import struct

UNSIGNED = 'BHIL'
SIGNED = 'bhil'
FLOAT = 'ef'


class TranslatorError(Exception):
    pass


def _module_ints(tree):
    out = {}
    for node in tree.body:
        if isinstance(node, ast.Assign) and len(node.targets) == 1 and isinstance(node.targets[0], ast.Name) \
                and isinstance(node.value, ast.Constant) and isinstance(node.value.value, int) \
                and not isinstance(node.value.value, bool):
            out[node.targets[0].id] = node.value.value
    return out


def _class(tree, name):
    for node in tree.body:
        if isinstance(node, ast.ClassDef) and node.name == name:
            return node
    raise TranslatorError('class %s not found' % name)


def _class_assign(cls, name):
    for node in cls.body:
        if isinstance(node, ast.Assign) and len(node.targets) == 1 and isinstance(node.targets[0], ast.Name) \
                and node.targets[0].id == name:
            return node.value
    raise TranslatorError('%s.%s not found' % (cls.name, name))


def _int(node, what):
    if isinstance(node, ast.Constant) and isinstance(node.value, int) and not isinstance(node.value, bool):
        return node.value
    raise TranslatorError('%s is not an integer literal' % what)


def read_constants(repo):
    log_src = open(os.path.join(repo, 'cflib', 'crazyflie', 'log.py')).read()
    crtp_src = open(os.path.join(repo, 'cflib', 'crtp', 'crtpstack.py')).read()
    toc_src = open(os.path.join(repo, 'cflib', 'crazyflie', 'toc.py')).read()
    log_t, crtp_t, toc_t = ast.parse(log_src), ast.parse(crtp_src), ast.parse(toc_src)
    m = _module_ints(log_t)
    mt = _module_ints(toc_t)
    need = ['CHAN_TOC', 'CHAN_SETTINGS', 'CHAN_LOGDATA', 'CMD_CREATE_BLOCK', 'CMD_APPEND_BLOCK', 'CMD_DELETE_BLOCK',
            'CMD_START_LOGGING', 'CMD_STOP_LOGGING', 'CMD_RESET_LOGGING', 'CMD_CREATE_BLOCK_V2',
            'CMD_APPEND_BLOCK_V2']
    for n in need:
        if n not in m:
            raise TranslatorError('log.py: constant %s not found as an integer literal' % n)
    for n in ('CMD_TOC_INFO', 'CMD_TOC_INFO_V2'):
        if n not in mt:
            raise TranslatorError('toc.py: constant %s not found as an integer literal' % n)
    c = {n: m[n] for n in need}
    c['TOC_INFO'] = mt['CMD_TOC_INFO']
    c['TOC_INFO_V2'] = mt['CMD_TOC_INFO_V2']
    c['MAX_LEN'] = _int(_class_assign(_class(log_t, 'LogConfig'), 'MAX_LEN'), 'LogConfig.MAX_LEN')
    logc = _class(log_t, 'Log')
    c['MAX_BLOCKS'] = _int(_class_assign(logc, 'MAX_BLOCKS'), 'Log.MAX_BLOCKS')
    c['MAX_VARIABLES'] = _int(_class_assign(logc, 'MAX_VARIABLES'), 'Log.MAX_VARIABLES')
    c['MAX_DATA_SIZE'] = _int(_class_assign(_class(crtp_t, 'CRTPPacket'), 'MAX_DATA_SIZE'), 'CRTPPacket.MAX_DATA_SIZE')
    lv = _class(log_t, 'LogVariable')
    c['TOC_TYPE'] = _int(_class_assign(lv, 'TOC_TYPE'), 'LogVariable.TOC_TYPE')
    c['MEM_TYPE'] = _int(_class_assign(lv, 'MEM_TYPE'), 'LogVariable.MEM_TYPE')
    # error table: keys must be errno.NAME
    ec = _class_assign(logc, '_err_codes')
    if not isinstance(ec, ast.Dict):
        raise TranslatorError('Log._err_codes is not a dict literal')
    errs = []
    for k, v in zip(ec.keys, ec.values):
        if not (isinstance(k, ast.Attribute) and isinstance(k.value, ast.Name) and k.value.id == 'errno'
                and hasattr(_errno, k.attr)):
            raise TranslatorError('Log._err_codes: key is not errno.NAME')
        if not (isinstance(v, ast.Constant) and isinstance(v.value, str)):
            raise TranslatorError('Log._err_codes: value is not a string literal')
        errs.append((getattr(_errno, k.attr), k.attr, v.value))
    if len(set(e[0] for e in errs)) != len(errs):
        raise TranslatorError('Log._err_codes: duplicate keys')
    c['ERR'] = errs
    c['EEXIST'] = _errno.EEXIST
    c['ENOENT'] = _errno.ENOENT
    # type table
    td = _class_assign(_class(log_t, 'LogTocElement'), 'types')
    if not isinstance(td, ast.Dict):
        raise TranslatorError('LogTocElement.types is not a dict literal')
    types = []
    for k, v in zip(td.keys, td.values):
        ident = _int(k, 'LogTocElement.types key')
        if not (isinstance(v, ast.Tuple) and len(v.elts) == 3 and isinstance(v.elts[0], ast.Constant)
                and isinstance(v.elts[0].value, str) and isinstance(v.elts[1], ast.Constant)
                and isinstance(v.elts[1].value, str)):
            raise TranslatorError('LogTocElement.types[%r] is not (str, str, int)' % ident)
        cname, fmt, size = v.elts[0].value, v.elts[1].value, _int(v.elts[2], 'size')
        if len(fmt) != 2 or fmt[0] != '<':
            raise TranslatorError('unpack string %r is not "<" + one code' % fmt)
        code = fmt[1]
        if code in UNSIGNED:
            kind = 0
        elif code in SIGNED:
            kind = 1
        elif code in FLOAT:
            kind = 2
        else:
            raise TranslatorError('unpack code %r not handled' % code)
        types.append((ident, cname, fmt, kind, struct.calcsize(fmt), size))
    if len(set(t[0] for t in types)) != len(types) or len(set(t[1] for t in types)) != len(types):
        raise TranslatorError('LogTocElement.types: ids / C names not unique')
    c['TYPES'] = types
    return c


def render(c):
    def d(name, val):
        return 'Definition %s : Z := %d.' % (name, val)
    lines = ['(* GENERATED by harness/props/c05_gen.py from cflib/crazyflie/log.py, toc.py and cflib/crtp/crtpstack.py.',
             '   Do not edit; rewritten on every run. *)',
             'From Coq Require Import ZArith List.', 'Import ListNotations.', 'Open Scope Z_scope.', '',
             '(* LogTocElement.types: id |-> (kind, bytes consumed by the unpack string, declared size);',
             '   kind 0 = unsigned integer, 1 = signed integer, 2 = IEEE float (carried as its bit pattern) *)',
             'Definition g_types : list (Z * (Z * Z * Z)) :=',
             '  [' + '; '.join('(%d, (%d, %d, %d))' % (t[0], t[3], t[4], t[5]) for t in c['TYPES']) + '].',
             d('g_max_len', c['MAX_LEN']), d('g_max_data', c['MAX_DATA_SIZE']),
             d('g_max_blocks', c['MAX_BLOCKS']), d('g_max_vars', c['MAX_VARIABLES']),
             d('g_chan_toc', c['CHAN_TOC']), d('g_chan_settings', c['CHAN_SETTINGS']),
             d('g_chan_logdata', c['CHAN_LOGDATA']),
             d('g_cmd_create', c['CMD_CREATE_BLOCK']), d('g_cmd_append', c['CMD_APPEND_BLOCK']),
             d('g_cmd_delete', c['CMD_DELETE_BLOCK']), d('g_cmd_start', c['CMD_START_LOGGING']),
             d('g_cmd_stop', c['CMD_STOP_LOGGING']), d('g_cmd_reset', c['CMD_RESET_LOGGING']),
             d('g_cmd_create_v2', c['CMD_CREATE_BLOCK_V2']), d('g_cmd_append_v2', c['CMD_APPEND_BLOCK_V2']),
             d('g_toc_info', c['TOC_INFO']), d('g_toc_info_v2', c['TOC_INFO_V2']),
             d('g_eexist', c['EEXIST']), d('g_enoent', c['ENOENT']),
             'Definition g_err_codes : list Z := [' + '; '.join(str(e[0]) for e in c['ERR']) + '].', '']
    return '\n'.join(lines)


def write_consts(repo, coq_dir):
    c = read_constants(repo)
    text = render(c)
    p = os.path.join(coq_dir, 'C05', 'Gen_Consts.v')
    os.makedirs(os.path.dirname(p), exist_ok=True)
    old = open(p).read() if os.path.exists(p) else None
    if old != text:
        tmp = p + '.%d.tmp' % os.getpid()
        with open(tmp, 'w') as f:
            f.write(text)
        os.replace(tmp, p)
    return c
