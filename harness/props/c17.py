"""C17 — flight helpers (MotionCommander + _SetPointThread, PositionHlCommander).

Tie (V): the real classes are driven in virtual time by fakes/c17_sim.py (recording commander / high-level
commander / param, deterministic schedule of the real _SetPointThread.run) on generated programs and
schedules, with exact rational numbers (`Ex`) flowing through the unmodified cflib code; the Coq model
(C17/Model.v, over Q) is evaluated with vm_compute on the same program, schedule and constants and must
produce the same time-stamped call sequence, exception, flags and number of scheduling choices.

Oracle: the property text checked on the same real code running on ordinary Python floats (ordering of the
final commands, no streaming afterwards, stream period, height recurrence, velocity x duration = requested
displacement, reported position = start + displacements, go_to duration = distance / velocity).
"""
import hashlib
import json
import math
import os
from fractions import Fraction

from core import coqrun
from fakes import c17_sim as S

ID = 'C17'
PROPERTY_FILE = 'C17/Property.v'
LEVEL = 'proof'
ALLOWED_AXIOMS = ()
TRUSTED_BASE = [
    'C17/Model.v is hand-written from cflib/positioning/motion_commander.py and position_hl_commander.py (with the '
    'repairs F17a/F17b/F17c); tied on every run by differential evaluation on generated programs x schedules: the '
    'real classes run in virtual time on exact rationals and must produce the model\'s time-stamped call sequence',
    'harness/fakes/c17_sim.py: virtual clock, fake Queue, baton scheduling of the real _SetPointThread.run (one '
    'thread at a time, hand-over only inside Queue.get / sleep / join), recording commander; exact-rational number '
    'class Ex that absorbs the float constants of the source with their decimal-literal value',
]
ASSUMPTIONS = [
    'sends take no time in the executable two-thread model and in the tie; stalling sends (a send blocking 0.1 ... 2 s) are an '
    'environment fault exercised by the oracle on the real code (call and packet level), and the stop handshake under stalls is '
    'proved on a separate small model (C17_stop_joins_thread_for_every_stall)',
    'link contract: a packet handed to send_packet is a value (fresh object, never written again); under it the transmitted stream '
    'equals the commanded one for every transmit delay (theorem C17_link_values_transmitted_as_commanded); that the real commanders '
    'keep the contract is checked on every run by a link fake that queues packet references and serialises at transmit time',
    'the model\'s events are commander CALLS; that a call puts exactly its own packet on the wire whatever happened before on '
    'the same Crazyflie object (Commander / HighLevelCommander are stateless) is checked on every run by the packet-level oracle '
    '(real Commander over a recording send_packet, multi-flight histories) and proved per method by C08',
    'Python float arithmetic is idealised as exact rational arithmetic (decimal literals denote their decimal value); '
    'rounding is outside the theorems and is covered only by the float-mode oracle with tolerances',
    'math.sqrt and math.pi are parameters of the model: the arithmetic theorems assume sqrt(x)*sqrt(x) = x for the '
    'radicand used and nothing about pi except that the circumference is non-zero',
    'scheduling granularity: the setpoint thread runs from one Queue.get to the next without interleaving; virtual '
    'time advances only while the commanding thread sleeps or joins; UPDATE_PERIOD > 0',
    'MotionCommander.__enter__ must succeed for the context to be entered (default_height != 0); a take_off that '
    'raises inside __enter__ is outside the statement (Python does not call __exit__)',
]
PROVED = ('For every program of MotionCommander primitives (all 27 kinds incl. explicit land/take_off, user sleeps between commands, link-state changes (cf.is_connected() flips anywhere in the body) and a raise), every '
          'schedule and every start time: once the with statement was entered, leaving it (normally or by any exception) '
          'ends the call log with send_stop_setpoint; send_notify_setpoint_stop at the same instant, the thread is gone '
          'and any later passage of time adds no call; the same for an explicit land(). While flying, consecutive hover '
          'setpoints (and the final stop) are at most UPDATE_PERIOD apart and the streamed height obeys '
          'z\' = z + vz*(t\'-t); each blocking primitive commands velocity*duration = requested displacement (turn/circle: '
          'rate*duration = angle). PositionHlCommander: leaving the context ends with stop for every body (go_to raises on the ground, F17c); after every completed move the '
          'reported position is the previous one plus the displacement; every go_to targets the reported position with '
          'duration*velocity = distance.')
NOT_PROVED = ('Floating-point rounding; byte-code-level preemption inside the setpoint thread; a take_off that raises inside '
              '__enter__ (thread keeps streaming, __exit__ never runs); irrational square roots appear only as the '
              'hypothesis sqrt(x)^2 = x, the tie evaluates rational squares only.')

HEADER = ('From CF Require Import C17.Model.\nOpen Scope Q_scope.\n'
          '(* cheap 61-bit rolling hash (test plumbing only): Common.Digest costs two big Z.modulo per value *)\n'
          'Definition dg17 (l : list Z) : Z := fold_left (fun h v => Z.land (h * 1000003 + v + 1) 2305843009213693951) l 7%Z.\n')
DG_MASK = (1 << 61) - 1


def dg17(values):
    h = 7
    for v in values:
        h = (h * 1000003 + v + 1) & DG_MASK
    return h


def compare(terms, expected, tag):
    """model value (list Z) of every term against the implementation's; returns [(index, model values | None)]"""
    got = coqrun.eval_terms(HEADER, ['dg17 (%s)' % t for t in terms], tag=tag, shard=max(10, len(terms) // 15 + 1))
    bad = [i for i, (g, e) in enumerate(zip(got, expected)) if g != dg17(e)]
    out = []
    if bad:
        full = coqrun.eval_terms(HEADER, [terms[i] for i in bad[:6]], tag=tag + 'f', shard=1)
        out = list(zip(bad[:6], full)) + [(i, None) for i in bad[6:]]
    return out

EXC_CODE = {'none': 0, 'ZeroDivisionError': 1, 'ValueError': 2, 'NotFlying': 3, 'AlreadyFlying': 4, 'UserError': 5, 'NotConnected': 6}


# ----------------------------------------------------------------------------------------------- helpers
def F(s):
    return Fraction(s) if s is not None else None


def cq(s):
    """Coq Q literal of a decimal / fraction string"""
    f = Fraction(s)
    n = '%d' % f.numerator if f.numerator >= 0 else '(%d)' % f.numerator
    return '(%s # %d)' % (n, f.denominator)


def coq_opt(s):
    return 'None' if s is None else '(Some %s)' % cq(s)


def qz(v):
    f = S.to_frac(v)
    return [f.numerator, f.denominator]


def _constants():
    import cflib.positioning.motion_commander as M
    return {'vel': repr(M.MotionCommander.VELOCITY), 'rate': repr(M.MotionCommander.RATE),
            'period': repr(M._SetPointThread.UPDATE_PERIOD), 'pi': repr(math.pi)}


def coq_env(c):
    return '(mkEnv %s %s %s %s qsqrt_exact)' % (cq(c['vel']), cq(c['rate']), cq(c['period']), cq(c['pi']))


# signature of every primitive: (Coq constructor, kinds of the arguments: q = required, o = optional)
MC_OPS = {
    'left': ('OLeft', 'qo'), 'right': ('ORight', 'qo'), 'forward': ('OForward', 'qo'), 'back': ('OBack', 'qo'),
    'up': ('OUp', 'qo'), 'down': ('ODown', 'qo'), 'move_distance': ('OMove', 'qqqo'),
    'turn_left': ('OTurnLeft', 'qo'), 'turn_right': ('OTurnRight', 'qo'),
    'circle_left': ('OCircleLeft', 'qoo'), 'circle_right': ('OCircleRight', 'qoo'),
    'start_left': ('OStartLeft', 'o'), 'start_right': ('OStartRight', 'o'), 'start_forward': ('OStartForward', 'o'),
    'start_back': ('OStartBack', 'o'), 'start_up': ('OStartUp', 'o'), 'start_down': ('OStartDown', 'o'),
    'stop': ('OStopMotion', ''), 'start_turn_left': ('OStartTurnLeft', 'o'), 'start_turn_right': ('OStartTurnRight', 'o'),
    'start_circle_left': ('OStartCircleLeft', 'qo'), 'start_circle_right': ('OStartCircleRight', 'qo'),
    'start_linear_motion': ('OStartLinear', 'qqqo'), 'land': ('OLand', 'o'), 'take_off': ('OTakeOff', 'oo'),
    'raise': ('ORaise', ''), 'wait': ('OWait', 'q'), 'link_state': ('OLink', 'b'),
}
HL_OPS = {
    'left': ('HLeft', 'qo'), 'right': ('HRight', 'qo'), 'forward': ('HForward', 'qo'), 'back': ('HBack', 'qo'),
    'up': ('HUp', 'qo'), 'down': ('HDown', 'qo'), 'move_distance': ('HMove', 'qqqo'), 'go_to': ('HGoTo', 'qqoo'),
    'set_default_velocity': ('HSetVel', 'q'), 'set_default_height': ('HSetHeight', 'q'),
    'set_landing_height': ('HSetLanding', 'q'), 'land': ('HOLand', 'oo'), 'take_off': ('HOTakeOff', 'oo'),
    'raise': ('HRaise', ''), 'link_state': ('HLink', 'b'),
}


def coq_op(op, table):
    ctor, kinds = table[op[0]]
    args = list(op[1:]) + [None] * (len(kinds) - len(op) + 1)
    parts = [ctor]
    for k, a in zip(kinds, args):
        parts.append(('true' if a else 'false') if k == 'b' else cq(a) if k == 'q' else coq_opt(a))
    return '(' + ' '.join(parts) + ')' if len(parts) > 1 else ctor


def coq_mc_term(case, consts):
    ops = '[' + '; '.join(coq_op(o, MC_OPS) for o in case['ops']) + ']'
    sch = '[' + '; '.join('true' if b else 'false' for b in case.get('sched', [])) + ']'
    dh = case.get('default_height')
    return 'mc_enc %s %s %s %s %s %s %s' % (
        'true' if case.get('_ghost', True) else 'false', coq_env(consts), cq(str(S.START_TIME)),
        cq(dh if dh is not None else consts['defh']), ops, sch, cq(case.get('epilogue', '1')))


def coq_hl_term(case, consts):
    d = consts['hl']
    g = lambda k: cq(case[k] if case.get(k) is not None else d[k])  # noqa
    ctrl = 'None' if case.get('controller') is None else '(Some %d%%Z)' % case['controller']
    s0 = '(h_init %s %s %s %s %s %s %s %s)' % (cq(str(S.START_TIME)), g('x'), g('y'), g('z'), g('default_velocity'),
                                              g('default_height'), g('default_landing_height'), ctrl)
    if case.get('wait') is not None:
        s0 = '(h_set_time %s (%s + %s))' % (s0, cq(str(S.START_TIME)), cq(case['wait']))
    ops = '[' + '; '.join(coq_op(o, HL_OPS) for o in case['ops']) + ']'
    return 'hl_enc %s %s' % (s0, ops)


def _defaults():
    import inspect
    import cflib.positioning.motion_commander as M
    import cflib.positioning.position_hl_commander as H
    c = _constants()
    c['defh'] = repr(inspect.signature(M.MotionCommander.__init__).parameters['default_height'].default)
    ps = inspect.signature(H.PositionHlCommander.__init__).parameters
    c['hl'] = {k: repr(ps[k].default) for k in ('x', 'y', 'z', 'default_velocity', 'default_height',
                                                 'default_landing_height')}
    return c


# ----------------------------------------------------------------------------------------------- encoders (impl side)
def enc_mc(r, ghost=True):
    out = [1 if r['entered'] else 0, EXC_CODE.get(r['exc'], 8), 1 if r['flying_after'] else 0,
           1 if r['thread_ref_after'] else 0, r['sched_used'], r['n_exit']] + qz(r['t_exit'])
    for e in r['events']:
        name = e[0]
        if name == 'p.set_value' and len(e) == 4 and e[2] == 'kalman.resetEstimation' and e[3] in ('0', '1'):
            out += [1] + qz(e[1]) + [int(e[3])]
        elif name == 'c.send_hover_setpoint' and len(e) == 7:
            out += [2] + qz(e[1]) + qz(e[2]) + qz(e[3]) + qz(e[4]) + qz(e[5])
            if ghost:
                out += qz(e[6][1])
        elif name == 'c.send_stop_setpoint' and len(e) == 2:
            out += [3] + qz(e[1])
        elif name == 'c.send_notify_setpoint_stop' and len(e) == 2:
            out += [4] + qz(e[1])
        else:
            out += [99, len(e)]
    return out


def enc_hl(r):
    def pos(p):
        return qz(p[0]) + qz(p[1]) + qz(p[2])
    evs = []
    for e in r['events']:
        name = e[0]
        if name == 'p.set_value' and len(e) == 4 and e[2] == 'stabilizer.controller' and e[3].isdigit():
            evs += [1] + qz(e[1]) + [int(e[3])]
        elif name == 'h.takeoff' and len(e) == 4:
            evs += [2] + qz(e[1]) + qz(e[2]) + qz(e[3])
        elif name == 'h.land' and len(e) == 4:
            evs += [3] + qz(e[1]) + qz(e[2]) + qz(e[3])
        elif name == 'h.go_to' and len(e) == 7:
            evs += [4] + qz(e[1]) + qz(e[2]) + qz(e[3]) + qz(e[4]) + qz(e[5]) + qz(e[6])
        elif name == 'h.stop' and len(e) == 2:
            evs += [5] + qz(e[1])
        else:
            evs += [99, len(e)]
    head = [1 if r['entered'] else 0, EXC_CODE.get(r['exc'], 8), 1 if r['flying_after'] else 0] + qz(r['t_exit'])
    if not r['entered']:
        return head + evs
    out = head + pos(r['final_position']) + [len(r['positions'])]
    for p in r['positions']:
        out += pos(p)
    return out + evs


# ----------------------------------------------------------------------------------------------- generators
DIST = ['0.1', '0.2', '0.25', '0.3', '0.4', '0.5', '0.6', '1', '1.5', '0.3', '0.3', '0.05', '2', '0.01', '0.02', '3', '5']
# the whole legal range, not only the comfortable one: 0.01 ... 5 m/s, default (None) most often
VELS = [None, None, None, '0.1', '0.2', '0.25', '0.5', '1', '0.4', '0.01', '0.05', '1.25', '1.5', '2', '2.5', '3', '5']
FAST = ['1', '1.25', '1.5', '2', '2.5', '3', '5']
ANG = ['90', '45', '180', '360', '30', '72', '36', '-90', '0', '720', '1']
RATES = [None, None, '72', '90', '45', '36', '180', '360', '720', '500', '5']
RAD = ['0.5', '1', '0.25', '0.2', '-0.5', '2', '0.05']
PYTH = [('0.3', '0.4', '0'), ('0.1', '0.2', '0.2'), ('0.2', '0.3', '0.6'), ('-0.3', '0', '0.4'), ('0', '-0.6', '0.8'),
        ('0.4', '-0.4', '0.2'), ('0', '0', '-0.3'), ('0.5', '0', '0'), ('-0.2', '-0.1', '-0.2'), ('0', '0', '0.3'),
        ('3', '4', '0'), ('1', '2', '2'), ('-2', '3', '6'), ('0.03', '0', '-0.04'), ('1.2', '-1.2', '0.6')]
MAX_OP_SECONDS = 12
TINY = ['0.000000001', '0.000001', '0.0001', '0.0008', '0.001', '0.0010000001']


def _bound_duration(ops, rng):
    """keep the virtual flight time of one blocking primitive below MAX_OP_SECONDS by making it FASTER (never by leaving the
    fast / slow velocities out): long distances get the high velocities, the slow velocities the short distances"""
    for op in ops:
        name = op[0]
        if name in MC_DISP_NAMES or name == 'move_distance':
            vi = 2 if name in MC_DISP_NAMES else 4
            if name in MC_DISP_NAMES:
                length = abs(Fraction(op[1]))
            else:
                length = Fraction(int(math.isqrt(int(sum(Fraction(c) ** 2 for c in op[1:4]) * 10 ** 8)))) / 10 ** 4
            v = abs(Fraction(op[vi] if op[vi] is not None else '0.2'))
            if v != 0 and length / v > MAX_OP_SECONDS:
                cands = [f for f in FAST if length / Fraction(f) <= MAX_OP_SECONDS]
                op[vi] = rng.choice(cands or ['5'])
        elif name in ('turn_left', 'turn_right'):
            r = abs(Fraction(op[2] if op[2] is not None else '72'))
            if r != 0 and abs(Fraction(op[1])) / r > MAX_OP_SECONDS:
                op[2] = rng.choice(['180', '360', '720'])
        elif name in ('circle_left', 'circle_right'):
            v = abs(Fraction(op[2] if op[2] is not None else '0.2'))
            ang = abs(Fraction(op[3] if op[3] is not None else '360'))
            arc = 2 * abs(Fraction(op[1])) * Fraction('3.1416') * ang / 360
            if v != 0 and arc / v > MAX_OP_SECONDS:
                cands = [f for f in FAST if arc / Fraction(f) <= MAX_OP_SECONDS]
                op[2] = rng.choice(cands or ['5'])
    return ops


MC_DISP_NAMES = ('left', 'right', 'forward', 'back', 'up', 'down')


def _neg(s):
    return str(-Fraction(s))


def gen_mc_case(rng, quirks=True):
    """one MotionCommander program + schedule.  quirks: also zero / negative distances and velocities, explicit
    land/take_off, raise — the inputs on which primitives raise."""
    n = rng.choice([0, 1, 1, 2, 2, 3, 3, 4, 5, 6, 8])
    ops = []
    h = Fraction('0.3')       # rough height bookkeeping, only to steer towards height 0 / below ground

    def vel():
        if quirks and rng.random() < 0.04:
            return rng.choice(['0', '-0.2'])
        return rng.choice(VELS)

    def dist():
        if quirks and rng.random() < 0.05:
            return rng.choice(['0', '-0.3', '-0.1'])
        return rng.choice(DIST)
    for _ in range(n):
        k = rng.random()
        if rng.random() < 0.12:
            # a control loop: the same non-blocking command re-issued faster than the update period
            cmd = rng.choice([['start_forward', rng.choice(VELS)], ['start_left', rng.choice(VELS)], ['start_up', rng.choice(VELS)],
                              ['stop'], ['start_turn_left', rng.choice(RATES)],
                              ['start_linear_motion', '0.1', '0', rng.choice(['0', '0.1']), None],
                              ['start_circle_right', '0.5', None]])
            gap = rng.choice(['0.05', '0.1', '0.15', '0.19', '0.12'])
            for _i in range(rng.choice([2, 3, 4, 6])):
                ops.append(list(cmd))
                ops.append(['wait', gap if rng.random() < 0.8 else rng.choice(['0.2', '0.25', '0'])])
            if cmd[0] == 'start_up' or (cmd[0] == 'start_linear_motion' and cmd[3] != '0'):
                h = Fraction(-1)
            continue
        if rng.random() < 0.10:
            ops.append(['wait', rng.choice(['0.05', '0.1', '0.2', '0.3', '0.5', '1', '0.45'])])
            continue
        if rng.random() < 0.07:
            ops.append(['link_state', rng.choice([0, 0, 0, 1])])       # cf.is_connected() changes during the body
            continue
        if k < 0.30:
            name = rng.choice(['left', 'right', 'forward', 'back', 'up', 'down', 'up', 'down'])
            d = dist()
            if name == 'down' and rng.random() < 0.5 and h > 0:
                d = str(h)                       # come down exactly to the ground
            if name == 'up':
                h += Fraction(d)
            if name == 'down':
                h -= Fraction(d)
            ops.append([name, d, vel()])
        elif k < 0.40:
            x, y, z = rng.choice(PYTH)
            if rng.random() < 0.5:
                x, y, z = _neg(x), y, _neg(z)
            h += Fraction(z)
            ops.append(['move_distance', x, y, z, vel()])
        elif k < 0.50:
            r = rng.choice(RATES)
            if quirks and rng.random() < 0.06:
                r = rng.choice(['0', '-72'])
            ops.append([rng.choice(['turn_left', 'turn_right']), rng.choice(ANG), r])
        elif k < 0.58:
            rad = rng.choice(RAD)
            if quirks and rng.random() < 0.08:
                rad = '0'
            ops.append([rng.choice(['circle_left', 'circle_right']), rad, vel(), rng.choice([None, None, '90', '180', '45'])])
        elif k < 0.74:
            name = rng.choice(['start_left', 'start_right', 'start_forward', 'start_back', 'start_up', 'start_down',
                               'start_up', 'start_down'])
            ops.append([name, vel()])
            if name in ('start_up', 'start_down'):
                h = Fraction(-1)                 # unknown from here on
        elif k < 0.80:
            ops.append(['stop'])
        elif k < 0.85:
            ops.append([rng.choice(['start_turn_left', 'start_turn_right']), rng.choice(RATES)])
        elif k < 0.89:
            ops.append([rng.choice(['start_circle_left', 'start_circle_right']), rng.choice(RAD + ['0'] if quirks else RAD),
                        vel()])
        elif k < 0.93:
            ops.append(['start_linear_motion', rng.choice(['0', '0.1', '-0.2']), rng.choice(['0', '0.3']),
                        rng.choice(['0', '0.1', '-0.1', '0.2']), rng.choice([None, '0', '30', '-45'])])
        elif quirks and k < 0.96:
            ops.append(['land', vel()])
        elif quirks and k < 0.98:
            ops.append(['take_off', rng.choice([None, '0.4', '1', '0']), vel()])
        elif quirks:
            ops.append(['raise'])
        else:
            ops.append(['stop'])
    m = rng.random()
    nb = 3 * len(ops) + 12
    if m < 0.25:
        sched = []
    elif m < 0.45:
        sched = [0] * nb
    else:
        sched = [rng.randrange(2) for _ in range(nb)]
    dh = None
    r = rng.random()
    if r < 0.25:
        dh = rng.choice(['0.5', '1', '0.25', '0.2', '0.4'])
    elif quirks and r < 0.28:
        dh = rng.choice(['0', '-0.2'])
    _bound_duration(ops, rng)
    return {'kind': 'mc', 'default_height': dh, 'ops': ops, 'sched': sched, 'epilogue': rng.choice(['1', '0.5', '0.4'])}


def gen_hl_case(rng, quirks=True):
    n = rng.choice([0, 1, 2, 2, 3, 4, 5, 6, 8])
    case = {'kind': 'hl', 'ops': []}
    if rng.random() < 0.5:
        case['x'], case['y'], case['z'] = rng.choice(['0', '1', '-0.5']), rng.choice(['0', '2']), rng.choice(['0', '0.1'])
    if rng.random() < 0.4:
        case['default_velocity'] = rng.choice(['0.5', '1', '0.25', '0.2'])
    if rng.random() < 0.4:
        case['default_height'] = rng.choice(['1', '0.5', '0.3', '2'])
    if rng.random() < 0.3:
        case['controller'] = rng.choice([1, 2])
    if rng.random() < 0.4:
        case['default_landing_height'] = rng.choice(['0', '0.2', '0.5', '1', '3'])
    if rng.random() < 0.4:
        case['wait'] = rng.choice(['0.5', '1', '2', '0.25'])
    pos = [Fraction(case.get('x') or 0), Fraction(case.get('y') or 0), Fraction(case.get('default_height') or '0.5')]

    def vel():
        if quirks and rng.random() < 0.04:
            return rng.choice(['0', '-0.5'])
        return rng.choice([None, None, '0.5', '1', '0.25', '0.2', '2', '3', '5', '0.05', '1.5'])
    for _ in range(n):
        k = rng.random()
        if rng.random() < 0.07:
            case['ops'].append(['link_state', rng.choice([0, 0, 0, 1])])
            continue
        if rng.random() < 0.06:
            # many short steps in a row (e.g. 15 x 0.8 mm), ordinary moves follow and must start from the accumulated position
            name, d = rng.choice(['up', 'forward', 'left', 'back']), rng.choice(['0.0008', '0.0001', '0.001', '0.000001'])
            i, sgn = {'left': (1, 1), 'forward': (0, 1), 'back': (0, -1), 'up': (2, 1)}[name]
            for _i in range(rng.choice([3, 8, 15])):
                case['ops'].append([name, d, None])
                pos[i] += sgn * Fraction(d)
            continue
        if k < 0.35:
            name = rng.choice(['left', 'right', 'forward', 'back', 'up', 'down', 'down'])
            d = rng.choice(DIST + (['0', '-0.3'] if quirks else []))
            if rng.random() < 0.15:
                d = rng.choice(TINY)              # wave 13: displacements down to a nanometre are displacements
            if name == 'down' and pos[2] > 0 and rng.random() < 0.35:
                d = str(pos[2])                   # come down to height exactly 0.0
            ops_d = Fraction(d)
            i, sgn = {'left': (1, 1), 'right': (1, -1), 'forward': (0, 1), 'back': (0, -1), 'up': (2, 1), 'down': (2, -1)}[name]
            pos[i] += sgn * ops_d
            case['ops'].append([name, d, vel()])
        elif k < 0.50:
            x, y, z = rng.choice(PYTH + ([('0', '0', '0')] if quirks else []))
            pos = [pos[0] + Fraction(x), pos[1] + Fraction(y), pos[2] + Fraction(z)]
            case['ops'].append(['move_distance', x, y, z, vel()])
        elif k < 0.72:
            x, y, z = rng.choice(PYTH + [('0', '0', '0')])
            tgt = [pos[0] + Fraction(x), pos[1] + Fraction(y), pos[2] + Fraction(z)]
            if rng.random() < 0.25:
                case['ops'].append(['go_to', str(tgt[0]), str(tgt[1]), None, vel()])   # z = default height (may be irrational: dropped)
                tgt[2] = Fraction(case.get('default_height') or '0.5')
            else:
                if rng.random() < 0.2:
                    tgt[0], tgt[1], tgt[2] = pos[0], pos[1], Fraction(0)     # straight down to z = 0.0 (explicit zero argument)
                case['ops'].append(['go_to', str(tgt[0]), str(tgt[1]), str(tgt[2]), vel()])
            pos = tgt
        elif k < 0.79:
            case['ops'].append(['set_default_velocity', rng.choice(['0.5', '1', '0.25', '2'] + (['0', '-1'] if quirks else []))])
        elif k < 0.84:
            hh = rng.choice(['1', '0.5', '0.3'])
            case['ops'].append(['set_default_height', hh])
            case['default_height_now'] = hh
        elif k < 0.90:
            case['ops'].append(['set_landing_height', rng.choice(['0', '0.2', '1', '5', '-1'])])
        elif quirks and k < 0.94:
            case['ops'].append(['land', vel(), rng.choice([None, None, '0.1', '4', '0', '0'])])
        elif quirks and k < 0.97:
            case['ops'].append(['take_off', rng.choice([None, '0.7', '0']), vel()])
        elif quirks:
            case['ops'].append(['raise'])
    case.pop('default_height_now', None)
    return case


def run_case(case, exact):
    if case['kind'] == 'mc':
        return S.run_mc(case, exact)
    if case['kind'] == 'wire':
        return S.run_wire(case)
    return S.run_hl(case, exact)


# witnesses of the findings and hand-picked corner cases, always run first
def fixed_cases():
    cs = [
        {'kind': 'mc', 'default_height': None, 'ops': [['down', '0.3', None]], 'sched': [], 'epilogue': '1'},        # F17a
        {'kind': 'mc', 'default_height': None, 'ops': [['up', '0.2', None], ['down', '0.5', None]], 'sched': [], 'epilogue': '1'},
        {'kind': 'mc', 'default_height': None, 'ops': [['start_down', '0.3'], ['raise']], 'sched': [0] * 20, 'epilogue': '1'},
        {'kind': 'mc', 'default_height': None, 'ops': [['forward', '0', None]], 'sched': [1] * 20, 'epilogue': '1'},
        {'kind': 'mc', 'default_height': None, 'ops': [['land', None], ['forward', '1', None]], 'sched': [], 'epilogue': '1'},
        {'kind': 'mc', 'default_height': None, 'ops': [['land', '0'], ['take_off', '0', None]], 'sched': [0, 1] * 10, 'epilogue': '1'},
        {'kind': 'mc', 'default_height': None, 'ops': [['up', '0.2', '-0.2']], 'sched': [], 'epilogue': '1'},
        {'kind': 'mc', 'default_height': None, 'ops': [['forward', '0.2', None]], 'sched': [0] * 30, 'epilogue': '1'},
        {'kind': 'mc', 'default_height': '0', 'ops': [], 'sched': [], 'epilogue': '1'},
        {'kind': 'mc', 'default_height': None, 'ops': [], 'sched': [], 'epilogue': '1'},
        {'kind': 'mc', 'default_height': None, 'sched': [], 'epilogue': '1',
         'ops': [['start_forward', '0.2'], ['wait', '0.15'], ['start_forward', '0.2'], ['wait', '0.15'],
                 ['start_forward', '0.2'], ['wait', '0.15'], ['start_forward', '0.2'], ['wait', '0.15']]},
        {'kind': 'mc', 'default_height': None, 'sched': [0] * 12, 'epilogue': '1',
         'ops': [['stop'], ['wait', '0.1'], ['stop'], ['wait', '0.1'], ['stop'], ['wait', '0.3']]},
        {'kind': 'mc', 'default_height': None, 'sched': [], 'epilogue': '0.5',
         'ops': [['forward', '1', '2'], ['move_distance', '3', '4', '0', '5'], ['up', '0.5', '2.5'], ['circle_left', '0.5', '3', '90'],
                 ['turn_right', '720', '720'], ['back', '0.01', '0.01']]},
        {'kind': 'mc', 'default_height': None, 'sched': [], 'epilogue': '1', 'ops': [['link_state', 0]]},            # wave 11
        {'kind': 'mc', 'default_height': None, 'sched': [0] * 10, 'epilogue': '1',
         'ops': [['start_forward', None], ['link_state', 0], ['wait', '0.3'], ['raise']]},
        {'kind': 'mc', 'default_height': None, 'sched': [], 'epilogue': '1',
         'ops': [['land', None], ['link_state', 0], ['take_off', None, None], ['link_state', 1], ['take_off', None, None], ['link_state', 0]]},
        {'kind': 'hl', 'ops': [['link_state', 0], ['up', '0.2', None], ['land', None, None], ['take_off', None, None]]},
        {'kind': 'hl', 'ops': [['down', '2', None]]},                                                               # F17b
        {'kind': 'hl', 'default_landing_height': '1', 'ops': []},                                                   # F17b
        {'kind': 'hl', 'ops': [['up', '0.0008', None]] * 15 + [['forward', '0.5', None], ['go_to', '1', '0', '0.512', None]]},    # wave 13
        {'kind': 'hl', 'ops': [['forward', '0.000000001', None], ['left', '0.001', None], ['move_distance', '0.0006', '0', '0.0008', None],
                               ['back', '0.0010000001', '2'], ['go_to', '0.000001', '0.001', '0.5008', None], ['down', '0.2', None]]},
        {'kind': 'hl', 'ops': [['down', '0.5', None]]},                                      # height lands exactly on 0.0
        {'kind': 'hl', 'ops': [['go_to', '1', '0', '0', None], ['go_to', '1', '0', None, None]]},
        {'kind': 'hl', 'default_landing_height': '0.3', 'ops': [['land', None, '0'], ['take_off', '0', None], ['up', '0.4', None]]},
        {'kind': 'hl', 'default_height': '1', 'ops': [['set_landing_height', '0.2'], ['go_to', '0', '0', '0', '0.5']]},
        {'kind': 'hl', 'ops': [['set_default_velocity', '0'], ['up', '1', None]]},
        {'kind': 'hl', 'ops': [['set_default_velocity', '-1']]},
        {'kind': 'hl', 'ops': [['go_to', '1', '1', '1', None], ['go_to', '1', '1', '1', None], ['land', None, None], ['up', '1', None]]},
    ]
    return cs


def load_corpus():
    d = os.path.join(coqrun.VERIF, 'corpus', 'C17')
    out = []
    if os.path.isdir(d):
        for fn in sorted(os.listdir(d)):
            if fn.endswith('.json'):
                c = json.load(open(os.path.join(d, fn)))
                out.append(c.get('case', c))
    return out


# ----------------------------------------------------------------------------------------------- tie
def _hist(h, v, dflt):
    if v is None:
        key = dflt
    elif 'deg' in dflt or dflt.endswith('72'):
        x = abs(float(Fraction(v)))
        key = ('0' if x == 0 else '(0,72)' if x < 72 else '[72,180]' if x <= 180 else '(180,360]' if x <= 360 else '(360,720]') + \
              (' negative' if Fraction(v) < 0 else '')
    else:
        x = abs(float(Fraction(v)))
        key = ('0' if x == 0 else '(0,0.1)' if x < 0.1 else '[0.1,1]' if x <= 1 else '(1,2]' if x <= 2 else '(2,5]' if x <= 5
               else '(5,100]' if x <= 100 else '>100') + (' negative' if Fraction(v) < 0 else '')
    h[key] = h.get(key, 0) + 1


def _nontrivial(case, r):
    if case['kind'] == 'mc':
        return r['entered'] and len(case['ops']) >= 2 and sum(1 for e in r['events'] if e[0] == 'c.send_hover_setpoint') >= 10
    return r['entered'] and len(case['ops']) >= 2 and sum(1 for e in r['events'] if e[0] == 'h.go_to') >= 1


def tie(ctx):
    consts = _defaults()
    cases = fixed_cases() + load_corpus()
    n_mc, n_hl = ctx.scale(450, 6000), ctx.scale(350, 4000)
    for _ in range(n_mc):
        cases.append(gen_mc_case(ctx.rng))
    for _ in range(n_hl):
        cases.append(gen_hl_case(ctx.rng))
    terms, exp, kept = [], [], []
    dropped = 0
    dist = {'mc': 0, 'hl': 0, 'exc': {}, 'ops': {}, 'sched_defer_bits': 0, 'events': 0, 'not_entered': 0}
    seen = set()
    nontriv = 0
    dis = []
    ghost_ok = True
    for case in cases:
        try:
            r = run_case(case, True)
        except S.NotExact:
            dropped += 1
            continue
        except S.SimHang as e:
            dis.append({'what': 'implementation hangs in virtual time', 'case': case, 'impl': repr(e), 'model': None})
            continue
        if case['kind'] == 'mc':
            gh = all(e[-1][1] is not None for e in r['events'] if e[0] == 'c.send_hover_setpoint')
            case = dict(case, _ghost=gh)
            ghost_ok = ghost_ok and gh
            terms.append(coq_mc_term(case, consts))
            exp.append(enc_mc(r, gh))
        else:
            terms.append(coq_hl_term(case, consts))
            exp.append(enc_hl(r))
        kept.append((case, r))
        dist[case['kind']] += 1
        dist['exc'][r['exc']] = dist['exc'].get(r['exc'], 0) + 1
        dist['events'] += len(r['events'])
        if not r['entered']:
            dist['not_entered'] += 1
        for o in case['ops']:
            key = case['kind'] + '.' + o[0]
            dist['ops'][key] = dist['ops'].get(key, 0) + 1
        dist['sched_defer_bits'] += sum(1 for b in case.get('sched', []) if not b)
        if case['kind'] == 'mc':
            for o in case['ops']:
                vi = {'move_distance': 4, 'circle_left': 2, 'circle_right': 2}.get(o[0], 2 if o[0] in MC_DISP_NAMES else None)
                if vi is not None and len(o) > vi:
                    _hist(dist.setdefault('velocity_of_blocking_primitives_m_per_s', {}), o[vi], 'default 0.2')
                if o[0] in ('turn_left', 'turn_right'):
                    _hist(dist.setdefault('rate_of_turns_deg_per_s', {}), o[2], 'default 72')
        key = hashlib.sha1(json.dumps({k: v for k, v in case.items() if k != '_ghost'}, sort_keys=True).encode()).hexdigest()
        if key not in seen:
            seen.add(key)
            if _nontrivial(case, r):
                nontriv += 1
    for bi, mv in compare(terms, exp, 'c17'):
        case, r = kept[bi]
        first = None
        if mv is not None:
            for k in range(max(len(mv), len(exp[bi]))):
                a = mv[k] if k < len(mv) else None
                b = exp[bi][k] if k < len(exp[bi]) else None
                if a != b:
                    first = k
                    break
        if len(dis) < 6:
            dis.append({'what': '%s: model and implementation differ' % ('MotionCommander' if case['kind'] == 'mc' else 'PositionHlCommander'),
                        'case': {k: v for k, v in case.items() if k != '_ghost'}, 'first_difference_at': first,
                        'model': None if mv is None else mv[max(0, (first or 0) - 6):(first or 0) + 8],
                        'impl': exp[bi][max(0, (first or 0) - 6):(first or 0) + 8],
                        'impl_exc': r['exc'], 'header_model': None if mv is None else mv[:8], 'header_impl': exp[bi][:8]})
    dist['dropped_irrational'] = dropped
    dist['ghost_vz_compared'] = ghost_ok
    samples = []
    for case, r in kept[15:18] + kept[-2:]:
        samples.append({'case': {k: v for k, v in case.items() if k != '_ghost'}, 'impl_exc': r['exc'],
                        'impl_events': len(r['events'])})
    return {
        'evaluations': len(kept),
        'distinct_nontrivial': nontriv,
        'rule': 'program + schedule run on the real classes (exact rationals, virtual time) and in the Coq model; compared: '
                'entered flag, exception kind, _is_flying, _thread, number of scheduling choices, every time-stamped '
                'commander/param/high-level-commander call incl. arguments (and the thread\'s _z_velocity at every hover '
                'setpoint), reported positions after every primitive.  Non-trivial: context entered, >= 2 primitives and '
                '>= 10 hover setpoints (MotionCommander) / >= 1 go_to (PositionHlCommander)',
        'samples': samples,
        'distribution': dist,
        'exhaustive': False,
        'disagreements': dis,
    }


# ----------------------------------------------------------------------------------------------- oracle (float mode)
TOL = 1e-7


def _close(a, b, scale=1.0):
    return abs(a - b) <= TOL * max(1.0, abs(a), abs(b), scale)


MC_DISP = {'left': (0, 1, 0), 'right': (0, -1, 0), 'forward': (1, 0, 0), 'back': (-1, 0, 0), 'up': (0, 0, 1), 'down': (0, 0, -1)}


def check_mc(case, r, consts):
    """the property text on one float-mode observation; returns list of (class, detail, expected, observed)"""
    fails = []
    ev = r['events']
    names = [e[0] for e in ev]
    period = float(Fraction(consts['period']))
    if r['thread_errors']:
        fails.append(('mc_setpoint_thread_died', 'the setpoint thread raised', 'no exception', r['thread_errors']))
    if r['entered']:
        # -- leaving the context ends with stop; notify and nothing is streamed afterwards
        stops = [i for i, n in enumerate(names) if n == 'c.send_stop_setpoint']
        if not stops or stops[-1] < max([i for i, n in enumerate(names) if n == 'c.send_hover_setpoint'] + [-1]):
            fails.append(('mc_exit_without_stop' if r['alive_after'] or not stops else 'mc_setpoints_after_stop',
                          'after leaving the context (exception: %s) the last commander calls must be stop, notify' % r['exc'],
                          ['c.send_stop_setpoint', 'c.send_notify_setpoint_stop'], names[-3:]))
        elif names[stops[-1]:] != ['c.send_stop_setpoint', 'c.send_notify_setpoint_stop']:
            fails.append(('mc_stop_not_followed_by_notify', 'stop must be followed by the setpoint-priority release and nothing else',
                          ['c.send_stop_setpoint', 'c.send_notify_setpoint_stop'], names[stops[-1]:][:4]))
        if r['alive_after']:
            fails.append(('mc_exit_without_stop', 'a setpoint thread is still running after the context was left',
                          0, r['alive_after']))
    # -- an explicit land() that returned ends with stop; notify
    for k, op in enumerate(case['ops']):
        if op[0] == 'land' and k + 1 < len(r['marks']) and r['marks'][k][3]:
            a = r['marks'][k + 1][0]
            if names[max(0, a - 2):a] != ['c.send_stop_setpoint', 'c.send_notify_setpoint_stop']:
                fails.append(('mc_land_without_stop', 'land() returned without stop, notify as its last calls',
                              ['c.send_stop_setpoint', 'c.send_notify_setpoint_stop'], names[max(0, a - 2):a]))
    # -- stream period and height recurrence inside every flight (not under stalled sends: a send that blocks for longer than
    #    the period cannot be followed by the next one in time; the text's period clause presupposes a link that takes them)
    prev = None
    for e in ([] if case.get('stalls') else ev):
        n = e[0]
        if n == 'p.set_value':
            prev = ('param', e[1]) if e[3] == '0' else None
        elif n == 'c.send_hover_setpoint':
            t, z, vz = e[1], e[5], e[6][1]
            if prev is not None and prev[0] == 'param':
                if t - prev[1] > 2 + period + TOL:
                    fails.append(('mc_stream_gap', 'first hover setpoint later than one period after the thread start', period, t - prev[1] - 2))
                if not _close(z, 0.0):
                    fails.append(('mc_height_not_integrated', 'first streamed height must be 0', 0.0, z))
            elif prev is not None and prev[0] == 'hover':
                if t - prev[1] > period + TOL:
                    fails.append(('mc_stream_gap', 'hover setpoints further apart than the update period', period, t - prev[1]))
                if prev[3] is not None and not _close(z, prev[2] + prev[3] * (t - prev[1])):
                    fails.append(('mc_height_not_integrated', 'height must integrate the commanded vertical velocity',
                                  prev[2] + prev[3] * (t - prev[1]), z))
            prev = ('hover', t, z, vz)
        elif n == 'c.send_stop_setpoint':
            if prev is not None and prev[0] == 'hover' and e[1] - prev[1] > period + TOL:
                fails.append(('mc_stream_gap', 'stop later than one period after the last hover setpoint', period, e[1] - prev[1]))
            prev = None
    # -- blocking primitives: velocity x duration = requested displacement
    vdef, rdef = float(Fraction(consts['vel'])), float(Fraction(consts['rate']))
    for k, op in enumerate(case['ops']):
        if k + 1 >= len(r['marks']) or not r['marks'][k][3]:
            continue
        puts = r['puts'][r['marks'][k][1]:r['marks'][k + 1][1]]
        name = op[0]
        fl = lambda s, d=None: d if s is None else float(Fraction(s))  # noqa
        want = None
        if name in MC_DISP:
            d = fl(op[1])
            want = ('lin', tuple(c * d for c in MC_DISP[name]), abs(fl(op[2], vdef)))
        elif name == 'move_distance':
            want = ('lin', (fl(op[1]), fl(op[2]), fl(op[3])), abs(fl(op[4], vdef)))
        elif name in ('turn_left', 'turn_right'):
            want = ('yaw', fl(op[1]) * (1 if name == 'turn_left' else -1))
        elif name in ('circle_left', 'circle_right'):
            ang = fl(op[3], 360.0)
            want = ('circ', ang * (1 if name == 'circle_left' else -1), 2 * fl(op[1]) * math.pi * ang / 360.0)
        if want is None:
            continue
        if len(puts) != 2 or puts[1][1] != (0.0, 0.0, 0.0, 0.0) or len(puts[0][1]) != 4:
            fails.append(('mc_primitive_shape', '%s must command one motion and then a stop' % name, 2, [p[1] for p in puts]))
            continue
        (t1, (vx, vy, vz, yaw)), (t2, _) = puts
        dt = t2 - t1
        if want[0] == 'lin':
            got = (vx * dt, vy * dt, vz * dt)
            if not all(_close(g, w) for g, w in zip(got, want[1])) or not _close(yaw, 0.0):
                fails.append(('mc_primitive_displacement', '%s%r: velocity x duration must be the requested displacement' % (name, op[1:]),
                              want[1], got))
            elif not _close(math.sqrt(vx * vx + vy * vy + vz * vz), want[2]):
                fails.append(('mc_primitive_speed', '%s%r: speed must be the requested velocity' % (name, op[1:]), want[2],
                              math.sqrt(vx * vx + vy * vy + vz * vz)))
        elif want[0] == 'yaw':
            if not _close(yaw * dt, want[1], 360.0) or not (_close(vx, 0) and _close(vy, 0) and _close(vz, 0)):
                fails.append(('mc_primitive_displacement', '%s%r: rate x duration must be the requested angle' % (name, op[1:]),
                              want[1], yaw * dt))
        else:
            if not _close(yaw * dt, want[1], 360.0) or not _close(vx * dt, want[2]) or not (_close(vy, 0) and _close(vz, 0)):
                fails.append(('mc_primitive_displacement', '%s%r: rate x duration = angle and speed x duration = arc' % (name, op[1:]),
                              [want[1], want[2]], [yaw * dt, vx * dt]))
    return fails


def check_hl(case, r, consts):
    fails = []
    ev = r['events']
    names = [e[0] for e in ev]
    if not r['entered']:
        return fails
    marks, pos = r['marks'], r['positions']
    # primitives that issued motion commands while the helper was on the ground (after an explicit land())
    if not names or names[-1] != 'h.stop':
        cls = 'hl_exit_without_stop'
        if 'h.stop' in names and not r['flying_after']:
            tail = names[len(names) - names[::-1].index('h.stop'):]
            if tail and all(n == 'h.go_to' for n in tail):
                cls = 'hl_motion_after_land'      # F17c: go_to is not guarded by _is_flying
        fails.append((cls, 'after leaving the context (exception: %s) the last high-level command must be stop' % r['exc'],
                      'h.stop', names[-2:]))
    if r['flying_after']:
        fails.append(('hl_exit_without_stop', 'still marked flying after the context was left', False, True))
    # the defaults are tracked here from the constructor arguments and the setter calls (not read from the object)
    d0 = consts['hl']
    fl = lambda s, dflt=None: dflt if s is None else float(Fraction(s))  # noqa
    vdef = fl(case.get('default_velocity'), float(Fraction(d0['default_velocity'])))
    hdef = fl(case.get('default_height'), float(Fraction(d0['default_height'])))
    ldef = fl(case.get('default_landing_height'), float(Fraction(d0['default_landing_height'])))
    start = [fl(case.get(c), float(Fraction(d0[c]))) for c in ('x', 'y', 'z')]

    def dur_ok(dur, dist, v):        # relative: displacements go down to 1e-9 m
        return v != 0 and abs(dur * v - dist) <= 1e-6 * dist + 1e-13

    def pclose(a, t):                # positions are sums of a few numbers of size ~1: far below a nanometre of rounding
        return abs(a - t) <= 1e-11 * max(1.0, abs(a), abs(t))

    def want_dur(dist, v):
        return dist / v if v != 0 else 'ZeroDivisionError (velocity 0)'
    # -- the take-off of __enter__: to the default height, position = (x0, y0, default height)
    first = [e for e in ev[:marks[0][0]] if e[0] == 'h.takeoff']
    if len(first) != 1 or not _close(first[0][2], hdef) or not dur_ok(first[0][3], hdef, vdef):
        fails.append(('hl_takeoff_command', 'entering the context must take off to the default height in height / velocity seconds',
                      [hdef, want_dur(hdef, vdef)], [e[2:] for e in first]))
    if not all(_close(a, t) for a, t in zip(pos[0], [start[0], start[1], hdef])):
        fails.append(('hl_position_not_sum', 'after take-off the reported position must be (x0, y0, default height)',
                      [start[0], start[1], hdef], pos[0]))
    for k, op in enumerate(case['ops']):
        if k + 1 >= len(pos):
            break
        before, after = pos[k], pos[k + 1]
        evs = ev[marks[k][0]:marks[k + 1][0]]
        enames = [e[0] for e in evs]
        name = op[0]
        flying = marks[k][1]
        if name == 'set_default_velocity':
            vdef = fl(op[1])
        elif name == 'set_default_height':
            hdef = fl(op[1])
        elif name == 'set_landing_height':
            ldef = fl(op[1])
        if name == 'land':
            if not flying:
                if evs:
                    fails.append(('hl_land_on_ground', 'land() on the ground must not command anything', [], enames))
                continue
            v, lh = fl(op[1], vdef), fl(op[2] if len(op) > 2 else None, ldef)
            if enames != ['h.land', 'h.stop']:
                fails.append(('hl_land_without_stop', 'land() must send land and then stop as its last command', ['h.land', 'h.stop'], enames))
                continue
            if not _close(evs[0][2], lh) or not dur_ok(evs[0][3], abs(before[2] - lh), v):
                fails.append(('hl_land_command', 'land%r must go to the requested (or default) landing height in |z - height| / velocity seconds'
                              % (op[1:],), [lh, want_dur(abs(before[2] - lh), v)], evs[0][2:]))
            if not _close(after[2], lh) or not all(_close(a, b) for a, b in zip(after[:2], before[:2])):
                fails.append(('hl_position_not_sum', 'after land%r the reported height must be the landing height' % (op[1:],),
                              [before[0], before[1], lh], after))
            continue
        if name == 'take_off':
            if flying:
                continue        # raises 'Already flying' (the body ends there)
            hh, v = fl(op[1], hdef), fl(op[2] if len(op) > 2 else None, vdef)
            if enames != ['h.takeoff'] or not _close(evs[0][2], hh) or not dur_ok(evs[0][3], hh, v):
                fails.append(('hl_takeoff_command', 'take_off%r must go to the requested (or default) height in height / velocity seconds'
                              % (op[1:],), [hh, want_dur(hh, v)], [e[2:] for e in evs]))
            if not _close(after[2], hh):
                fails.append(('hl_position_not_sum', 'after take_off%r the reported height must be the take-off height' % (op[1:],), hh, after[2]))
            continue
        tgt = v = None
        if name in MC_DISP:
            tgt = [b + c * fl(op[1]) for b, c in zip(before, MC_DISP[name])]
            v = fl(op[2], vdef)
        elif name == 'move_distance':
            tgt = [before[0] + fl(op[1]), before[1] + fl(op[2]), before[2] + fl(op[3])]
            v = fl(op[4], vdef)
        elif name == 'go_to':
            tgt = [fl(op[1]), fl(op[2]), fl(op[3], hdef)]
            v = fl(op[4], vdef)
        if tgt is None:
            if list(after) != list(before) or evs:
                fails.append(('hl_position_drift', '%s changed the reported position or sent a command' % name, before, after))
            continue
        if not all(pclose(a, t) for a, t in zip(after, tgt)):
            fails.append(('hl_position_not_sum', '%s%r: reported position must be the previous one plus the displacement '
                          '(go_to: the target)' % (name, op[1:]), tgt, after))
        dist = math.sqrt(sum((t - b) ** 2 for t, b in zip(tgt, before)))
        if enames not in ([], ['h.go_to']) or (dist > 1e-12 and enames != ['h.go_to']):
            fails.append(('hl_goto_missing', '%s%r: exactly one go_to must be issued for a non-zero displacement (here %.3g m), however small' % (name, op[1:], dist),
                          ['h.go_to'], enames))
            continue
        if enames:
            g = evs[0]
            if not all(pclose(a, t) for a, t in zip(g[2:5], after)) or not all(pclose(a, t) for a, t in zip(g[2:5], tgt)):
                fails.append(('hl_goto_target', 'go_to must target the requested position, which is the position reported afterwards',
                              tgt, g[2:5]))
            if not dur_ok(g[6], dist, v):
                fails.append(('hl_goto_duration', '%s%r: go_to duration must be distance / velocity' % (name, op[1:]),
                              want_dur(dist, v), g[6]))
    return fails


STALL_D = ['0.1', '0.3', '0.6', '1.5', '2.0']


def gen_stall_spec(rng):
    """which sends of the setpoint thread block, and for how long (update period = 0.2 s)"""
    m = rng.random()
    if m < 0.35:
        return {'every': 1, 'd': rng.choice(STALL_D)}
    if m < 0.6:
        return {'every': rng.choice([2, 3, 5]), 'from': rng.randrange(4), 'd': rng.choice(STALL_D)}
    return {'at': sorted([k, rng.choice(STALL_D)] for k in rng.sample(range(70), rng.choice([3, 6, 12, 25])))}


def gen_stall_case(rng):
    """MotionCommander program under stalling sends; often with velocity changes queued right before the context is left, so that
    land()/__exit__ finds the thread inside a send with events waiting behind it"""
    c = gen_mc_case(rng)
    c['ops'] = [o for o in c['ops'] if o[0] != 'wait' or float(Fraction(o[1])) <= 0.5][:6]
    if c['default_height'] in ('0', '-0.2'):
        c['default_height'] = None
    if rng.random() < 0.6:
        tail = rng.choice([[['start_forward', rng.choice(VELS)]], [['start_left', '0.3'], ['start_back', None]],
                           [['start_up', '0.2'], ['wait', '0.05'], ['stop']], [['start_turn_left', None], ['start_forward', '0.5']]])
        if not any(o[0] == 'raise' for o in c['ops']):
            c['ops'] += tail
    c['stalls'] = gen_stall_spec(rng)
    return c


def fixed_stall_cases():
    return [
        {'kind': 'mc', 'default_height': None, 'sched': [], 'epilogue': '3', 'stalls': {'every': 1, 'd': '0.6'},
         'ops': [['start_forward', None]]},
        {'kind': 'mc', 'default_height': None, 'sched': [0] * 20, 'epilogue': '5', 'stalls': {'every': 1, 'd': '2.0'},
         'ops': [['start_forward', '0.5'], ['start_left', None], ['raise']]},
        {'kind': 'mc', 'default_height': None, 'sched': [], 'epilogue': '3', 'stalls': {'at': [[9, '1.5'], [10, '0.6'], [12, '1.5']]},
         'ops': [['wait', '0.1'], ['land', None], ['take_off', None, None], ['start_forward', None]]},
        {'kind': 'wire', 'version': 10, 'sched': [], 'radio': [], 'stalls': {'every': 1, 'd': '0.6'}, 'flights': [
            {'kind': 'mc', 'default_height': None, 'epilogue': '3', 'ops': [['start_forward', None]]},
            {'kind': 'mc', 'default_height': None, 'epilogue': '3', 'ops': [['up', '0.2', None], ['raise']]}]},
    ]


def gen_float_mc_case(rng):
    """programs with arbitrary (irrational-norm) displacement vectors: float mode only"""
    c = gen_mc_case(rng, quirks=False)
    for op in c['ops']:
        if op[0] == 'move_distance':
            op[1], op[2], op[3] = (str(round(rng.uniform(-1, 1), 3)) for _ in range(3))
            if op[1] == op[2] == op[3] == '0.0':
                op[1] = '0.1'
    return c


# ----------------------------------------------------------------------------------------------- packet level (round 4)
import struct  # noqa: E402


def f32(x):
    return struct.unpack('<f', struct.pack('<f', x))[0]


def decode_packet(port, chan, data, version):
    """independent decoder of the packets the two helpers may cause (CRTP port 7 generic commander, port 8 high-level
    commander), AS A FIRMWARE WITH PROTOCOL VERSION `version` decodes them (type ids it knows, legacy decoders negate the
    yaw rate — the firmware side documented in coq/C08/FwLayout.v); anything else decodes to ('unknown', ...)"""
    try:
        if port == 7 and chan == 0:
            t = data[0]
            if t == 0 and len(data) == 1:
                return ('stop',)
            if t == 10 and len(data) == 17:
                if version < 9:                                 # type 10 exists since protocol version 9: older firmware drops it
                    return ('not_understood', 'generic setpoint type 10 (hover) by firmware with protocol version %d' % version)
                vx, vy, yaw, z = struct.unpack('<ffff', data[1:])
                return ('hover', vx, vy, yaw, z)
            if t == 5 and len(data) == 17:                      # legacy hover: the yaw rate travels negated
                vx, vy, yaw, z = struct.unpack('<ffff', data[1:])
                return ('hover', vx, vy, -yaw, z)
        if port == 7 and chan == 1 and len(data) == 5 and data[0] == 0:
            return ('notify', struct.unpack('<I', data[1:])[0])
        if port == 8 and chan == 0:
            c = data[0]
            if c == 3 and len(data) == 2:
                return ('hl_stop', data[1])
            if c == 7 and len(data) == 15:
                _, g, h, yaw, cur, d = struct.unpack('<BBff?f', data)
                return ('hl_takeoff', h, d)
            if c == 8 and len(data) == 15:
                _, g, h, yaw, cur, d = struct.unpack('<BBff?f', data)
                return ('hl_land', h, d)
            if c == 12 and len(data) == 24:
                if version < 8:                                 # GO_TO_2 exists since protocol version 8
                    return ('not_understood', 'high-level command 12 (go_to_2) by firmware with protocol version %d' % version)
                _, g, rel, lin, x, y, z, yaw, d = struct.unpack('<BBBBfffff', data)
                return ('hl_go_to', x, y, z, yaw, d, rel, lin)
            if c == 4 and len(data) == 23:
                _, g, rel, x, y, z, yaw, d = struct.unpack('<BBBfffff', data)
                return ('hl_go_to', x, y, z, yaw, d, rel, 0)
    except Exception:  # noqa
        pass
    return ('unknown', port, chan, data.hex())


def expected_packet(name, args):
    """what a call must put on the wire (a function of the call only)"""
    if name == 'c.send_stop_setpoint' and not args:
        return ('stop',)
    if name == 'c.send_notify_setpoint_stop' and not args:
        return ('notify', 0)
    if name == 'c.send_hover_setpoint' and len(args) == 4:
        return ('hover',) + tuple(f32(a) for a in args)
    if name == 'h.stop' and not args:
        return ('hl_stop', 0)
    if name == 'h.takeoff' and len(args) == 2:
        return ('hl_takeoff', f32(args[0]), f32(args[1]))
    if name == 'h.land' and len(args) == 2:
        return ('hl_land', f32(args[0]), f32(args[1]))
    if name == 'h.go_to' and len(args) == 5:
        return ('hl_go_to',) + tuple(f32(a) for a in args) + (0, 0)
    return None


def check_wire(case, r, consts):
    """the ending / streaming clauses on the DECODED PACKET STREAM of a multi-flight history on one Crazyflie object,
    and: every commander call puts exactly its own packet on the wire"""
    fails = []
    ver = r['version']
    sent = [(w[0],) + decode_packet(w[1], w[2], w[3], w[4]) for w in r['wire']]     # commanded (snapshot at send time)
    period = float(r['period'])
    # the link keeps packet references and serialises at transmit time: what went on the air must be what was commanded
    air = r['air']
    if len(air) != len(r['wire']):
        fails.append(('wire_transmitted_differs_from_commanded', 'not every sent packet was transmitted', len(r['wire']), len(air)))
        return fails
    for i, (w, a) in enumerate(zip(r['wire'], air)):
        if w[1:4] != a[1:]:
            fails.append(('wire_transmitted_differs_from_commanded',
                          'packet %d was handed to the link at t=%s as %r but when the radio transmitted it (held %s packet(s) behind) '
                          'it read %r: a sent packet must keep its value' % (i, w[0], sent[i][1:], case.get('radio'),
                                                                             decode_packet(a[1], a[2], a[3], w[4])),
                          sent[i][1:], decode_packet(a[1], a[2], a[3], w[4])))
            break
    # everything below is judged on the bytes actually transmitted, time-stamped with the send time
    dec = [(w[0],) + decode_packet(a[1], a[2], a[3], w[4]) for w, a in zip(r['wire'], air)]
    # every packet must be one the firmware connected in THAT session understands (the version may differ from flight to flight)
    for i, d in enumerate(dec):
        if d[1] in ('not_understood', 'unknown'):
            fl_no = [k + 1 for k, f in enumerate(r['flights']) if f['w0'] <= i < f['w1']]
            fails.append(('wire_not_understood_by_session_firmware',
                          'packet %d (flight %s, t=%s): %s; session versions of the flights: %r' % (
                              i, fl_no, d[0], d[2] if d[1] == 'not_understood' else 'unknown packet %r' % (d[2:],),
                              [f.get('version', case.get('version', 10)) for f in case['flights']]),
                          'a packet type known to protocol version %s' % r['wire'][i][4], d[1:]))
            break
    for c in r['calls']:
        name, t, args, b, a = c
        exp = expected_packet(name, args)
        got = [d[1:] for d in sent[b:a]]
        if exp is None:
            fails.append(('wire_unexpected_call', 'a helper called %s%r' % (name, args), 'stop/notify/hover/takeoff/land/go_to', name))
        elif (exp not in got) if case.get('stalls') else (got != [exp]):    # while a send is stalled the other thread may send too
            fails.append(('wire_call_without_its_packet', '%s%r at t=%s must put exactly its own packet on the wire, whatever happened '
                          'before on this Crazyflie object' % (name, args, t), [exp], got))
    for i, fl in enumerate(r['flights']):
        if not fl['entered']:
            continue
        window = [d[1] for d in dec[fl['w0']:fl['w1']]]
        if fl['kind'] == 'mc':
            gen = [n for n in window if n in ('stop', 'notify', 'hover')]
            if gen[-2:] != ['stop', 'notify']:
                fails.append(('wire_mc_exit_without_stop', 'flight %d of %d on this Crazyflie object (exception: %s): the last packets on the '
                              'commander port must be STOP and the setpoint-priority release' % (i + 1, len(r['flights']), fl['exc']),
                              ['stop', 'notify'], gen[-3:]))
            marks = fl['marks']
            for k, op in enumerate(case['flights'][i]['ops']):
                if op[0] == 'land' and k + 1 < len(marks) and marks[k][1]:
                    seg = [d[1] for d in dec[marks[k][0]:marks[k + 1][0]]]
                    if seg[-2:] != ['stop', 'notify']:
                        fails.append(('wire_mc_land_without_stop', 'flight %d: land() returned without STOP, release as its last packets' % (i + 1),
                                      ['stop', 'notify'], seg[-3:]))
            if not case.get('stalls'):
                fails += _air_displacement(case['flights'][i], fl, dec, consts, i)
            prev = None
            for d in ([] if case.get('stalls') else dec[fl['w0']:fl['w1']]):
                if d[1] == 'hover':
                    if prev is not None and d[0] - prev > period + TOL:
                        fails.append(('wire_stream_gap', 'flight %d: hover packets further apart than the update period' % (i + 1), period, d[0] - prev))
                    prev = d[0]
                elif d[1] == 'stop':
                    prev = None
        else:
            hl = [n for n in window if n.startswith('hl_')]
            if not hl or hl[-1] != 'hl_stop':
                fails.append(('wire_hl_exit_without_stop', 'flight %d of %d (exception: %s): the last high-level packet must be STOP'
                              % (i + 1, len(r['flights']), fl['exc']), 'hl_stop', hl[-2:]))
        if fl['alive_after'] or fl['flying_after']:
            fails.append(('wire_mc_exit_without_stop' if fl['kind'] == 'mc' else 'wire_hl_exit_without_stop',
                          'flight %d: still flying / thread alive after the context was left' % (i + 1), 0, [fl['alive_after'], fl['flying_after']]))
    return fails


def _air_displacement(flc, fl, dec, consts, i):
    """blocking primitives of one MotionCommander flight: integrate the hover setpoints that went ON THE AIR over the duration
    of the primitive; the result must be the requested displacement (height: difference of the streamed heights)"""
    fails = []
    marks = fl['marks']
    vdef, rdef = float(Fraction(consts['vel'])), float(Fraction(consts['rate']))
    hov = [d for d in dec[fl['w0']:fl['w1']] if d[1] == 'hover']
    fl_ = lambda s, d=None: d if s is None else float(Fraction(s))  # noqa
    for k, op in enumerate(flc['ops']):
        if k + 1 >= len(marks) or not marks[k][1]:
            continue
        name = op[0]
        t0, t1 = marks[k][2], marks[k + 1][2]
        want = None
        if name in MC_DISP:
            want = {'x': MC_DISP[name][0] * fl_(op[1]), 'y': MC_DISP[name][1] * fl_(op[1]), 'z': MC_DISP[name][2] * fl_(op[1]), 'yaw': 0.0}
        elif name == 'move_distance':
            want = {'x': fl_(op[1]), 'y': fl_(op[2]), 'z': fl_(op[3]), 'yaw': 0.0}
        elif name in ('turn_left', 'turn_right'):
            want = {'x': 0.0, 'y': 0.0, 'z': 0.0, 'yaw': fl_(op[1]) * (1 if name == 'turn_left' else -1)}
        elif name in ('circle_left', 'circle_right'):
            ang = fl_(op[3], 360.0)
            want = {'x': 2 * fl_(op[1]) * math.pi * ang / 360.0, 'y': 0.0, 'z': 0.0, 'yaw': ang * (1 if name == 'circle_left' else -1)}
        if want is None:
            continue
        # value in force at time t = the last hover setpoint sent at a time <= t
        before = [h for h in hov if h[0] <= t0]
        inside = [h for h in hov if t0 < h[0] < t1]
        upto = [h for h in hov if h[0] <= t1]
        if not before or not upto:
            continue
        seq = [before[-1]] + inside
        got = {'x': 0.0, 'y': 0.0, 'yaw': 0.0}
        for j, h in enumerate(seq):
            ta = max(h[0], t0)
            tb = seq[j + 1][0] if j + 1 < len(seq) else t1
            got['x'] += h[2] * (tb - ta)
            got['y'] += h[3] * (tb - ta)
            got['yaw'] += h[4] * (tb - ta)
        got['z'] = upto[-1][5] - before[-1][5]
        bad = [c for c in ('x', 'y', 'z', 'yaw') if abs(got[c] - want[c]) > 3e-5 * max(1.0, abs(want[c]))]
        if bad:
            fails.append(('wire_displacement_on_air', 'flight %d, %s%r: the hover setpoints that went on the air, integrated over the '
                          'primitive, must give the requested displacement (%s differ)' % (i + 1, name, op[1:], ','.join(bad)),
                          want, got))
    return fails


def gen_wire_case(rng):
    flights = []
    for _ in range(rng.choice([2, 2, 3, 3, 4])):
        if rng.random() < 0.65:
            c = gen_mc_case(rng)
            if c['default_height'] in ('0', '-0.2'):
                c['default_height'] = None
            fl = {'kind': 'mc', 'default_height': c['default_height'], 'ops': c['ops'][:5]}
        else:
            c = gen_hl_case(rng)
            fl = {k: v for k, v in c.items() if k not in ('controller', 'wait')}
            fl['ops'] = fl['ops'][:5]
        if rng.random() < 0.3:
            fl['reuse'] = fl['kind']          # the same helper object is entered again
            for k in ('default_height', 'x', 'y', 'z', 'default_velocity', 'default_landing_height'):
                fl.pop(k, None)
            if fl['kind'] == 'mc':
                fl['default_height'] = None
        fl['epilogue'] = rng.choice(['0.5', '0.3', '1'])
        fl['version'] = rng.choice([10, 10, 10, 9, 8, 8, 7, -1])       # the firmware of this session (reconnect between flights)
        flights.append(fl)
    m = rng.random()
    sched = [] if m < 0.4 else ([0] * 120 if m < 0.6 else [rng.randrange(2) for _ in range(120)])
    m = rng.random()
    radio = [] if m < 0.25 else ([1] if m < 0.45 else ([rng.choice([2, 3])] if m < 0.6 else [rng.randrange(4) for _ in range(16)]))
    return {'kind': 'wire', 'version': rng.choice([10, 10, 10, 9, 8, 7]), 'sched': sched, 'radio': radio, 'flights': flights}


def fixed_wire_cases():
    return [
        {'kind': 'wire', 'version': 10, 'sched': [], 'radio': [], 'flights': [
            {'kind': 'mc', 'version': 10, 'default_height': None, 'ops': [['turn_left', '90', None]]},
            {'kind': 'mc', 'version': 8, 'default_height': None, 'ops': [['turn_left', '90', None], ['forward', '0.2', None]]},
            {'kind': 'mc', 'version': -1, 'default_height': None, 'ops': [['turn_right', '45', None]]},
            {'kind': 'mc', 'version': 9, 'default_height': None, 'ops': [['circle_left', '0.5', '1', '90']]},
            {'kind': 'hl', 'version': 7, 'ops': [['go_to', '1', '0', '1', None]]},
            {'kind': 'hl', 'version': 10, 'ops': [['go_to', '1', '0', '1', None]]}]},
        {'kind': 'wire', 'version': 10, 'sched': [], 'radio': [1], 'flights': [
            {'kind': 'mc', 'default_height': None, 'ops': [['forward', '0.02', '0.2'], ['up', '0.2', None], ['turn_left', '90', None]]}]},
        {'kind': 'wire', 'version': 8, 'sched': [0] * 40, 'radio': [2, 0, 1, 3], 'flights': [
            {'kind': 'mc', 'default_height': None, 'ops': [['start_forward', None], ['start_left', '0.3'], ['wait', '0.5'], ['back', '0.2', '0.2']]},
            {'kind': 'hl', 'ops': [['go_to', '1', '0', '1', None], ['down', '0.5', None]]}]},
        {'kind': 'wire', 'version': 10, 'sched': [], 'flights': [
            {'kind': 'mc', 'default_height': None, 'ops': [['forward', '0.2', None]]},
            {'kind': 'mc', 'default_height': None, 'ops': [['up', '0.2', None], ['raise']]},
            {'kind': 'mc', 'default_height': None, 'ops': []}]},
        {'kind': 'wire', 'version': 10, 'sched': [0] * 60, 'flights': [
            {'kind': 'mc', 'default_height': None, 'reuse': 'mc',
             'ops': [['land', None], ['take_off', None, None], ['start_forward', None], ['wait', '0.3'], ['land', None], ['take_off', '0.4', None]]},
            {'kind': 'mc', 'default_height': None, 'reuse': 'mc', 'ops': [['down', '0.3', None], ['forward', '0', None]]}]},
        {'kind': 'wire', 'version': 7, 'sched': [], 'flights': [
            {'kind': 'hl', 'ops': [['go_to', '1', '0', '1', None], ['land', None, None], ['take_off', None, None]]},
            {'kind': 'mc', 'default_height': None, 'ops': [['turn_left', '90', None]]},
            {'kind': 'hl', 'ops': [['down', '2', None]]},
            {'kind': 'mc', 'default_height': None, 'ops': [['raise']]}]},
    ]


def _check(case, r, consts):
    """the property checks on one observation; a crash of the checker itself is reported as a failure of this very
    case (fail-closed, with the input) instead of taking the whole oracle down"""
    try:
        if case['kind'] == 'wire':
            return check_wire(case, r, consts)
        return check_mc(case, r, consts) if case['kind'] == 'mc' else check_hl(case, r, consts)
    except Exception as e:  # noqa
        import traceback
        return [('oracle_check_crashed', 'the oracle could not evaluate this observation: %r' % (e,), 'checkable observation',
                 traceback.format_exc()[-600:])]


def oracle(ctx, deep=False):
    consts = _defaults()
    cases = fixed_cases() + load_corpus()
    k = 4 if deep else 1
    for _ in range(ctx.scale(400, 5000) * k):
        cases.append(gen_mc_case(ctx.rng))
    for _ in range(ctx.scale(200, 2500) * k):
        cases.append(gen_float_mc_case(ctx.rng))
    for _ in range(ctx.scale(400, 5000) * k):
        cases.append(gen_hl_case(ctx.rng))
    cases += fixed_wire_cases()
    for _ in range(ctx.scale(150, 2000) * k):
        cases.append(gen_wire_case(ctx.rng))
    # wave 12: stalling sends (call level and packet level)
    cases += fixed_stall_cases()
    for _ in range(ctx.scale(120, 1500) * k):
        cases.append(gen_stall_case(ctx.rng))
    for _ in range(ctx.scale(40, 500) * k):
        w = gen_wire_case(ctx.rng)
        w['stalls'] = gen_stall_spec(ctx.rng)
        for fl in w['flights']:
            fl['epilogue'] = '3'
        cases.append(w)
    fails = []
    seen = set()
    n = 0
    for case in cases:
        try:
            r = run_case(case, False)
        except S.SimHang as e:
            fs = [('hang_in_virtual_time', repr(e), 'terminates', 'hang')]
            r = None
        except Exception as e:  # noqa  (the driver could not run this case on this tree: report it with the input)
            fs = [('driver_crashed', 'the virtual-time driver could not run this program: %r' % (e,), 'runs', repr(e))]
            r = None
        else:
            fs = _check(case, r, consts)
        n += 1
        for cls, detail, expd, obs in fs:
            if cls in seen:
                continue
            seen.add(cls)
            small = shrink(case, cls, consts)
            try:        # describe the failure of the shrunk input, not of the original one
                for c2, d2, e2, o2 in _check(small, run_case(small, False), consts):
                    if c2 == cls:
                        detail, expd, obs = d2, e2, o2
                        break
            except Exception:  # noqa
                pass
            fails.append({'class': cls, 'case': small, 'expected': expd, 'observed': obs, 'detail': detail})
    return {'evaluations': n, 'failures': fails,
            'rule': 'float mode: final commands, no streaming afterwards, stream period, height recurrence, velocity x '
                    'duration = displacement, reported position = previous + displacement, go_to duration = distance / velocity; packet level: multi-flight '
                    'histories on one Crazyflie-like object with the real Commander/HighLevelCommander over a recording send_packet, '
                    'decoded packet stream ends every flight with STOP + release, one packet per call'}


def _classes(case, consts):
    try:
        r = run_case(case, False)
    except S.SimHang:
        return {'hang_in_virtual_time'}
    except Exception:  # noqa
        return {'driver_crashed'}
    return {f[0] for f in _check(case, r, consts)}


def shrink(case, cls, consts):
    """greedy minimisation: drop primitives, then the schedule, while the same class still fails"""
    cur = json.loads(json.dumps(case))
    if cur['kind'] == 'wire':
        return shrink_wire(cur, cls, consts)
    changed = True
    while changed:
        changed = False
        for i in range(len(cur['ops'])):
            c2 = dict(cur, ops=cur['ops'][:i] + cur['ops'][i + 1:])
            if cls in _classes(c2, consts):
                cur = c2
                changed = True
                break
    if cur.get('sched'):
        c2 = dict(cur, sched=[])
        if cls in _classes(c2, consts):
            cur = c2
    if cur.get('stalls'):
        for sp in (None, {'every': 1, 'd': '0.6'}):
            c2 = dict(cur, stalls=sp)
            if c2['stalls'] != cur['stalls'] and cls in _classes(c2, consts):
                cur = c2
                break
    for key in ('default_height', 'x', 'y', 'z', 'default_velocity', 'controller', 'wait', 'default_landing_height'):
        if cur.get(key) is not None:
            c2 = dict(cur)
            c2[key] = None
            if cls in _classes(c2, consts):
                cur = c2
    return cur


def shrink_wire(cur, cls, consts):
    """drop whole flights, then primitives inside the flights, then the schedule, while the same class still fails"""
    changed = True
    while changed:
        changed = False
        for i in range(len(cur['flights'])):
            if len(cur['flights']) > 1:
                c2 = dict(cur, flights=cur['flights'][:i] + cur['flights'][i + 1:])
                if cls in _classes(c2, consts):
                    cur, changed = c2, True
                    break
        if changed:
            continue
        for i, fl in enumerate(cur['flights']):
            for j in range(len(fl['ops'])):
                f2 = dict(fl, ops=fl['ops'][:j] + fl['ops'][j + 1:])
                c2 = dict(cur, flights=cur['flights'][:i] + [f2] + cur['flights'][i + 1:])
                if cls in _classes(c2, consts):
                    cur, changed = c2, True
                    break
            if changed:
                break
    if cur.get('sched'):
        c2 = dict(cur, sched=[])
        if cls in _classes(c2, consts):
            cur = c2
    if cur.get('stalls'):
        for sp in (None, {'every': 1, 'd': '0.6'}):
            c2 = dict(cur, stalls=sp)
            if c2['stalls'] != cur['stalls'] and cls in _classes(c2, consts):
                cur = c2
                break
    for rd in ([], [1]):
        if cur.get('radio') not in (None, [], rd):
            c2 = dict(cur, radio=rd)
            if cls in _classes(c2, consts):
                cur = c2
                break
    return cur


def replay(payload, ctx):
    consts = _defaults()
    case = payload['case']
    try:
        r = run_case(case, False)
    except S.SimHang as e:
        return {'class': 'hang_in_virtual_time', 'observed': repr(e)}
    fs = _check(case, r, consts)
    want = payload.get('class')
    for cls, detail, expd, obs in fs:
        if want is None or cls == want:
            return {'class': cls, 'detail': detail, 'expected': expd, 'observed': obs, 'case': case}
    if fs:
        cls, detail, expd, obs = fs[0]
        return {'class': cls, 'detail': detail, 'expected': expd, 'observed': obs, 'case': case}
    return None
