"""C14 — stored configuration images round-trip; validity follows the checksum.

Tie (V): the real cflib classes are driven through a byte-array memory handler (fakes/c14_memfake.py) and
temp files; every observable (image bytes, parsed fields, valid flag, callback, exception kind) is compared
with what the Gallina model (coq/C14/Model*.v) computes for the same input (vm_compute, digest compare).
Oracle: the property text checked directly on the real code, independent of the model."""
import binascii
import hashlib
import json
import logging
import os
import struct
import warnings

from core import coqrun
from fakes.c14_memfake import MemFake

ID = 'C14'
logging.getLogger('cflib.crazyflie.mem.deck_memory').setLevel(logging.ERROR)   # 'Error while decoding deck mem' is expected
warnings.filterwarnings('ignore', message='pkg_resources is deprecated')
PROPERTY_FILE = 'C14/Property.v'
LEVEL = 'other'
ALLOWED_AXIOMS = ()
VERIF = coqrun.VERIF

TRUSTED_BASE = [
    'C14/Model.v, Model_lh.v, Model_misc.v, Model_hist.v, Model_seq.v are hand-written from i2c_element.py, ow_element.py, lighthouse_memory.py, '
    'deck_memory.py, loco_memory.py, loco_memory_2.py, trajectory_memory.py, led_timings_driver_memory.py, '
    'lighthouse_config_manager.py and param_io.py; tied on every run by differential evaluation on generated images '
    '(real classes driven through a byte-array memory handler; temp files for the YAML managers)',
    'binascii.crc32 is the reference for the modelled CRC-32 (compared on all 1- and 2-byte inputs and random longer ones every run)',
    'struct "f" packing is a bit cast for every float32 pattern except signalling NaNs (CPython/x86 quiets them); the models '
    'carry floats as opaque 32-bit patterns',
    'the firmware-side layouts (field order and offsets) are written down from the protocol documentation in the oracle '
    '(_fw_* tables in harness/props/c14.py); the firmware source is not available offline',
]
ASSUMPTIONS = [
    'PyYAML: safe_load(dump(x)) == x for PLAIN data only (None/bool/int/str, non-NaN float, list, dict with str/int keys: yv_plain); '
    'hypothesis of the YAML theorems; every run the oracle checks on real files with the real yaml (no recorder on that path) that the '
    'round trip holds and, with a recorder, that everything the library hands to yaml.dump is inside that domain (a tuple is not)',
    'a read request that does not fit into the memory fails (error status) and the element is not called back',
    'float fields are float32-representable and not signalling NaNs',
]
PROVED = ('Sequencing layer: for every choice of geometries/calibrations (any ids), system type, failing writes and persist result LighthouseConfigWriter holds exactly the stated conversation with the device (the device receives exactly the accepted images of the prepared dictionaries), completes exactly once with success = no write failed, leaves nothing armed; read_all returns exactly the stations that answered. Write histories: trajectory pieces, timing list and LED objects are their fields only, so the k-th write of any history is the image of the current fields (C14_layout_write_history_stateless), a compressed trajectory body is read back segment by segment. Histories on one I2CElement/OWElement object (any sequence of update/write_data/disconnect, device image changing in between): the verdict of an update() is the verdict of that read alone, never a value left from an earlier read; pending implies not valid. For all representable contents: EEPROM (v0/v1) and 1-wire images written by the library parse back to '
          'equal content, valid and complete; valid is True exactly when token/version/checksum resp. both CRCs '
          'match; any single corrupted EEPROM byte other than the version byte is detected; the exact condition under '
          'which a version byte 1->0 escapes (F14b); lighthouse geometry/calibration memory layouts and file objects, '
          'deck-info bit fields, anchor lists, trajectory pieces and LED timing sequences have the stated layout and '
          'round-trip; YAML files round-trip under the YAML round-trip hypothesis.')
NOT_PROVED = ('A failed read request (device error) still leaves an update pending (the elements have no read-failed handler): hence the not-pending factor in the valid_reflects_last_read theorems. The clause "any single corrupted EEPROM byte is detected" is refuted for the version byte (F14b, known '
              'finding). PyYAML itself is a hypothesis (validated per generated file). Float fields are opaque bit '
              'patterns: rounding of Python doubles to float32 is outside the model.')

# ---------------------------------------------------------------------------------------------- helpers

Z = coqrun.z
ZL = coqrun.zlist


def f32(bits):
    return struct.unpack('<f', struct.pack('<I', bits & 0xFFFFFFFF))[0]


def bits32(x):
    return struct.unpack('<I', struct.pack('<f', x))[0]


F32_SPECIAL = [0x00000000, 0x80000000, 0x3F800000, 0xBF800000, 0x7F7FFFFF, 0xFF7FFFFF, 0x00000001, 0x807FFFFF,
               0x00800000, 0x7F800000, 0xFF800000, 0x7FC00000, 0xFFC12345, 0x3DCCCCCD, 0x40490FDB, 0x4B800000]


def rnd_f32(rng):
    """a float32 bit pattern: specials, or uniform over all patterns that are not signalling NaNs"""
    if rng.random() < 0.25:
        return rng.choice(F32_SPECIAL)
    while True:
        b = rng.getrandbits(32)
        if (b >> 23) & 0xFF == 0xFF and (b & 0x7FFFFF) and not (b & 0x400000):
            continue
        return b


def exc_kind(e):
    if isinstance(e, struct.error):
        return 'struct'
    if isinstance(e, KeyError):
        return 'key'
    if isinstance(e, IndexError):
        return 'index'
    if isinstance(e, OverflowError):
        return 'overflow'
    return type(e).__name__


def sha(obj):
    return hashlib.sha1(json.dumps(obj, sort_keys=True, default=repr).encode()).hexdigest()[:12]


HEADER = '''From CF Require Import Common.Bytes C14.Model C14.Model_lh C14.Model_misc C14.Model_hist C14.Model_seq C14.Model_loco.
From Coq Require Import Ascii.
Open Scope Z_scope.
Definition enc_img (o : option (list Z)) : list Z := match o with None => [-1] | Some l => 1 :: l end.
Definition enc_i2c (r : i2c_res) : list Z :=
  match r with
  | I2C_Short => [-2]
  | I2C_Res v cb e => [b2z v; b2z cb] ++
      match e with
      | None => [0]
      | Some f => [1; i_version f; i_channel f; i_speed f; i_pitch f; i_roll f] ++
                  match i_addr f with None => [-1] | Some a => [a] end
      end
  end.
Definition enc_exc (e : option pyexc) : Z :=
  match e with None => 0 | Some ExcStruct => 1 | Some ExcKey => 2 | Some ExcIndex => 3 end.
Definition enc_dict (d : dict) : list Z :=
  Z.of_nat (length d) :: concat (map (fun kv => fst kv :: Z.of_nat (length (snd kv)) :: snd kv) d).
Definition enc_ow (r : ow_res) : list Z :=
  match r with
  | OW_Short => [-2]
  | OW_Res o => [b2z (ow_valid o); b2z (ow_cb o); ow_pins o; ow_vid o; ow_pid o; enc_exc (ow_exc o)]
                ++ enc_dict (ow_elements o)
  end.
Definition enc_ifields (e : option i2c_fields) : list Z :=
  match e with
  | None => [0]
  | Some f => [1; i_version f; i_channel f; i_speed f; i_pitch f; i_roll f] ++ match i_addr f with None => [-1] | Some a => [a] end
  end.
Definition enc_itrace (l : list (ist * Z)) : list Z :=
  concat (map (fun r => [b2z (is_valid (fst r)); is_cbs (fst r); snd r] ++ enc_ifields (is_elems (fst r))) l).
Definition enc_otrace (l : list (ost * Z * option pyexc)) : list Z :=
  concat (map (fun r => let st := fst (fst r) in
    [b2z (os_valid st); os_cbs st; snd (fst r); enc_exc (snd r)]
    ++ match os_hdr st with None => [-1; -1; -1] | Some (a, b, c) => [a; b; c] end ++ enc_dict (os_elems st)) l).
Definition enc_ogeo (o : option lh_geo) : list Z := match o with None => [-1] | Some g => enc_img (geo_pack g) end.
Definition enc_ocalib (o : option lh_calib) : list Z := match o with None => [-1] | Some c => enc_img (calib_pack c) end.
Definition enc_geo (o : option lh_geo) : list Z :=
  match o with None => [-1] | Some g => 1 :: b2z (g_valid g) :: g_floats g end.
Definition enc_calib (o : option lh_calib) : list Z :=
  match o with None => [-1] | Some c => 1 :: b2z (c_valid c) :: c_uid c :: c_floats c end.
Definition enc_wr (o : option (Z * list Z)) : list Z :=
  match o with None => [-1] | Some (a, d) => 1 :: a :: d end.
Definition enc_lhobj (o : lh_obj) : list Z :=
  match o with LGeo g => 1 :: enc_geo (Some g) | LCalib c => 2 :: enc_calib (Some c) | LStructError => [-1] end.
Definition enc_act (a : act) : list Z :=
  match a with
  | AWrite k id img => 1 :: page_addr k id :: Z.of_nat (length img) :: img
  | ASetParam v => [2; v]
  | APersist gl cl => 3 :: Z.of_nat (length gl) :: gl ++ Z.of_nat (length cl) :: cl
  | ACallback b => [4; b2z b]
  | ARaise c => [5; c]
  end.
Definition enc_acts (l : list (list act)) : list Z :=
  concat (map (fun a => Z.of_nat (length a) :: concat (map enc_act a)) l).
Definition enc_ract (a : ract) : list Z :=
  match a with
  | RRead k id => [1; page_addr k id; match k with KGeo => 49 | KCalib => 61 end]
  | RCallback res => 2 :: Z.of_nat (length res) :: concat (map (fun io => fst io :: enc_lhobj (snd io)) res)
  | RRaise c => [5; c]
  end.
Definition enc_racts (l : list (list ract)) : list Z :=
  concat (map (fun a => Z.of_nat (length a) :: concat (map enc_ract a)) l).
Fixpoint enc_yv (v : yv) : list Z :=
  match v with
  | YNone => [0]
  | YBool b => [1; b2z b]
  | YInt z => [2; z]
  | YFloat b => [3; b]
  | YStr s => 4 :: Z.of_nat (String.length s) :: map (fun c => Z.of_nat (nat_of_ascii c)) (list_ascii_of_string s)
  | YList l => 5 :: Z.of_nat (length l) :: concat (map enc_yv l)
  | YDict d => 6 :: Z.of_nat (length d) :: concat (map (fun kv => match kv with (k, x) => enc_yv k ++ enc_yv x end) d)
  end.
Definition enc_ferr (e : file_err) : Z :=
  match e with ErrTypeMissing => 1 | ErrType => 2 | ErrVersionMissing => 3 | ErrVersion => 4 | ErrShape => 5 end.
Definition enc_fgeo (g : fgeo) : list Z := b2z (fg_valid g) :: enc_yv (fg_origin g) ++ enc_yv (fg_rot g).
Definition enc_fcalib (c : fcalib) : list Z :=
  b2z (fc_valid c) :: enc_yv (fc_uid c) ++ concat (map enc_yv (fc_s0 c)) ++ concat (map enc_yv (fc_s1 c)).
Definition enc_lhfile (r : lh_file_res) : list Z :=
  match r with
  | LF_Err e => [-1; enc_ferr e]
  | LF_Ok g c st => 1 :: enc_yv st ++ Z.of_nat (length g) :: concat (map (fun kg => enc_yv (fst kg) ++ enc_fgeo (snd kg)) g)
                    ++ Z.of_nat (length c) :: concat (map (fun kc => enc_yv (fst kc) ++ enc_fcalib (snd kc)) c)
  end.
Definition enc_pfile (r : param_file_res) : list Z :=
  match r with
  | PF_Err e => [-1; enc_ferr e]
  | PF_Ok l => 1 :: Z.of_nat (length l) :: concat (map (fun kp => enc_yv (fst kp) ++ enc_yv (p_is_stored (snd kp))
                       ++ enc_yv (p_default (snd kp)) ++ enc_yv (p_stored (snd kp))) l)
  end.
Definition enc_deck (r : deck_res) : list Z :=
  match r with
  | DK_Len => [-2]
  | DK_Version v => [-1; v]
  | DK_Ok l => Z.of_nat (length l) :: concat (map (fun id => match id with (i, d) =>
      [i; d_bf1 d; d_bf2 d; d_hash d; d_len d; d_base d; d_cmd_base d;
       b2z (dk_is_valid d); b2z (dk_is_started d); b2z (dk_supports_read d); b2z (dk_supports_write d);
       b2z (dk_supports_fw_upgrade d); b2z (dk_is_fw_upgrade_required d); b2z (dk_is_bootloader_active d);
       b2z (dk_supports_reset_to_fw d); b2z (dk_supports_reset_to_bootloader d);
       Z.of_nat (length (d_name d))] ++ d_name d end) l)
  end.
Definition enc_anchor (a : anchor) : list Z := [a_x a; a_y a; a_z a; b2z (a_valid a)].
Definition enc_reqs (l : list (Z * Z)) : list Z := Z.of_nat (length l) :: concat (map (fun r => [fst r; snd r]) l).
Definition enc_loco (o : option (list (Z * Z) * list anchor * bool)) : list Z :=
  match o with None => [-1] | Some (rq, an, v) => b2z v :: enc_reqs rq ++ concat (map enc_anchor an) end.
Definition enc_l2 (o : option (l2s * list (Z * Z))) : list Z :=
  match o with
  | None => [-1]
  | Some (s, rq) =>
    [l2_nr s; b2z (l2_idsv s); b2z (l2_actv s); b2z (l2_datav s); l2_cbs s] ++
    Z.of_nat (length (l2_ids s)) :: l2_ids s ++ Z.of_nat (length (l2_act s)) :: l2_act s ++
    Z.of_nat (length (l2_data s)) :: concat (map (fun ka => fst ka :: enc_anchor (snd ka)) (l2_data s)) ++ enc_reqs rq
  end.
Definition enc_l2trace (l : list (option (l2s * list (Z * Z)))) : list Z := concat (map (fun o => let e := enc_l2 o in Z.of_nat (length e) :: e) l).
Definition enc_ids (r : idlist_res) : list Z :=
  match r with IL_Ok l => 1 :: l | IL_Len => [-2] end.
Definition enc_loco2 (o : option (list (Z * Z) * list (Z * anchor))) : list Z :=
  match o with None => [-1] | Some (rq, d) => enc_reqs rq ++ concat (map (fun ka => fst ka :: enc_anchor (snd ka)) d) end.
'''

EXC_CODE = {None: 0, 'struct': 1, 'key': 2, 'index': 3}


class Cases:
    """Collects (kind, coq term : list Z, implementation's list, description, nontrivial)."""

    def __init__(self):
        self.items = []

    def add(self, kind, term, impl, desc, nontrivial=True):
        self.items.append((kind, term, [int(x) for x in impl], desc, bool(nontrivial)))


def run_cases(cases, tag, per_block=40, shard=8, kinds=None):
    """Compare all cases; returns list of disagreement dicts."""
    items = [it for it in cases.items if kinds is None or it[0] in kinds]
    blocks = [items[i:i + per_block] for i in range(0, len(items), per_block)]
    terms = ['flat [' + '; '.join(it[1] for it in blk) + ']' for blk in blocks]
    exp = [coqrun.flat([it[2] for it in blk]) for blk in blocks]
    dis = []
    for bi, mv in coqrun.compare_blocks(HEADER, terms, exp, tag=tag, shard=shard):
        blk = blocks[bi]
        if mv is None:
            dis.append({'what': 'model and implementation differ (block %d, not expanded)' % bi,
                        'kind': blk[0][0], 'case': blk[0][3]})
            continue
        # split the length-prefixed flattening
        pos, k = 0, 0
        while pos < len(mv) and k < len(blk):
            n = mv[pos]
            got = mv[pos + 1:pos + 1 + n]
            pos += 1 + n
            if got != blk[k][2]:
                dis.append({'what': '%s: model and implementation differ' % blk[k][0], 'case': blk[k][3],
                            'model': got[:80], 'impl': blk[k][2][:80]})
                if len(dis) > 12:
                    return dis
            k += 1
    return dis


# ---------------------------------------------------------------------------------------------- I2C EEPROM

TOKEN = b'0xBC'


def i2c_fields_term(f):
    a = 'None' if f.get('addr') is None else '(Some %s)' % Z(f['addr'])
    return '(mk_i2c %s %s %s %s %s %s)' % (Z(f['version']), Z(f['channel']), Z(f['speed']), Z(f['pitch']), Z(f['roll']), a)


def i2c_impl_write(f):
    """real I2CElement.write_data -> bytes or ('raise', kind)"""
    from cflib.crazyflie.mem.i2c_element import I2CElement
    fake = MemFake()
    el = I2CElement(id=0, type=0, size=8192, mem_handler=fake)
    el.elements = {'version': f['version'], 'radio_channel': f['channel'], 'radio_speed': f['speed'],
                   'pitch_trim': f32(f['pitch']), 'roll_trim': f32(f['roll'])}
    if f.get('addr') is not None:
        el.elements['radio_address'] = f['addr']
    done = []
    try:
        el.write_data(lambda *a: done.append(a))
        fake.run()
    except Exception as e:  # noqa
        return ('raise', exc_kind(e))
    (addr, data, fl), = fake.writes
    assert addr == 0 and len(done) == 1
    return data


def i2c_impl_parse(mem):
    """real I2CElement.update() on a memory -> observable dict"""
    from cflib.crazyflie.mem.i2c_element import I2CElement
    fake = MemFake(mem)
    el = I2CElement(id=0, type=0, size=len(mem), mem_handler=fake)
    called = []
    try:
        el.update(lambda m: called.append(m.valid))
        fake.run()
    except Exception as e:  # noqa
        return {'raise': exc_kind(e)}
    if fake.short_reads:
        return {'short': True}
    e = el.elements
    flds = None
    if e:
        flds = {'version': e['version'], 'channel': e['radio_channel'], 'speed': e['radio_speed'],
                'pitch': bits32(e['pitch_trim']), 'roll': bits32(e['roll_trim']), 'addr': e.get('radio_address')}
    return {'valid': bool(el.valid), 'cb': len(called), 'fields': flds}


def i2c_enc_parse(o):
    if o.get('short'):
        return [-2]
    if 'raise' in o:
        return [-3, EXC_CODE.get(o['raise'], 9)]
    out = [int(o['valid']), o['cb']]
    f = o['fields']
    if f is None:
        return out + [0]
    return out + [1, f['version'], f['channel'], f['speed'], f['pitch'], f['roll'], -1 if f['addr'] is None else f['addr']]


def i2c_enc_write(r):
    return [-1] if isinstance(r, tuple) else [1] + list(r)


def i2c_rnd_fields(rng, wf=True):
    v = rng.choice([0, 1])
    f = {'version': v, 'channel': rng.choice([0, 80, 125, 255, rng.randrange(256)]), 'speed': rng.choice([0, 1, 2, rng.randrange(256)]),
         'pitch': rnd_f32(rng), 'roll': rnd_f32(rng), 'addr': None}
    if v == 1:
        f['addr'] = rng.choice([0xE7E7E7E7E7, 0, (1 << 40) - 1, rng.getrandbits(40), rng.getrandbits(33)])
    if not wf:
        k = rng.randrange(5)
        if k == 0:
            f['version'] = rng.choice([2, 3, 255, 7])
        elif k == 1:
            f['channel'] = rng.choice([256, -1, 1000])
        elif k == 2:
            f['speed'] = rng.choice([256, -1])
        elif k == 3:
            f['version'], f['addr'] = 1, rng.choice([1 << 40, (1 << 48) + 5, -1])
        else:
            f['version'], f['addr'] = 0, rng.getrandbits(40)      # ignored by the version-0 writer
    return f


def _quiet(m, offsets):
    """set the quiet bit of float32 fields that hold a signalling NaN (CPython's struct would quiet them)"""
    for o in offsets:
        if o + 4 <= len(m):
            b = int.from_bytes(m[o:o + 4], 'little')
            if (b >> 23) & 0xFF == 0xFF and (b & 0x7FFFFF) and not (b & 0x400000):
                m[o + 2] |= 0x40
    return m


def i2c_rnd_mem(rng):
    """memories for the parser: written images with tails, corruptions, re-checksummed garbage, short ones"""
    k = rng.randrange(10)
    f = i2c_rnd_fields(rng)
    img = bytearray(i2c_ref_image(f))
    tail = bytes(rng.getrandbits(8) for _ in range(rng.choice([0, 0, 5, 8, 16])))
    if k <= 1:
        return bytes(img) + tail, 'written'
    if k <= 4:
        p = rng.randrange(len(img))
        img[p] = rng.choice([x for x in (rng.getrandbits(8), img[p] ^ 1, img[p] ^ 0x80, 0, 1, 255) if x != img[p]])
        return bytes(_quiet(img, (7, 11))) + tail + bytes(5), 'corrupt@%d' % p
    if k == 5:
        n = rng.choice([0, 3, 15, 16, 20])
        return (bytes(img) + tail)[:n], 'short'
    if k == 6:
        m = bytearray(rng.getrandbits(8) for _ in range(24))
        return bytes(_quiet(m, (7, 11))), 'garbage'
    # token + arbitrary version + arbitrary bytes, checksum fixed up for v0 or v1 position
    m = bytearray(rng.getrandbits(8) for _ in range(26))
    m[0:4] = TOKEN
    if rng.random() < 0.15:                                   # wrong token, checksum still fixed up below
        m[rng.randrange(4)] ^= rng.choice([1, 0x20, 0xFF])
    m[4] = rng.choice([0, 1, 1, 0, 2, 255])
    _quiet(m, (7, 11))
    pos = rng.choice([15, 20])
    m[pos] = sum(m[:pos]) % 256
    if k == 9:
        m[pos] = (m[pos] + rng.choice([1, 255, 128])) % 256
    return bytes(m), 'fixedup'


def i2c_ref_image(f):
    """independent statement of the EEPROM layout the firmware reads (configblock):
    magic '0xBC' | version u8 | radio channel u8 | radio speed u8 | pitch trim f32 | roll trim f32 |
    [v1: radio address, top byte then low 32 bits LE] | checksum u8 = sum of all previous bytes mod 256"""
    b = bytearray(b'0xBC')
    b.append(f['version'])
    b.append(f['channel'])
    b.append(f['speed'])
    b += (f['pitch']).to_bytes(4, 'little')
    b += (f['roll']).to_bytes(4, 'little')
    if f['version'] == 1:
        b.append(f['addr'] >> 32)
        b += (f['addr'] & 0xFFFFFFFF).to_bytes(4, 'little')
    b.append(sum(b) & 0xFF)
    return bytes(b)


def i2c_tie(ctx, cases):
    rng = ctx.rng
    dist = {'i2c_write': 0, 'i2c_write_error': 0, 'i2c_parse': {}}
    for i in range(ctx.scale(150, 1500)):
        f = i2c_rnd_fields(rng, wf=(i % 4 != 0))
        r = i2c_impl_write(f)
        dist['i2c_write_error' if isinstance(r, tuple) else 'i2c_write'] += 1
        cases.add('i2c_write', 'enc_img (i2c_write %s)' % i2c_fields_term(f), i2c_enc_write(r), {'i2c_write': f},
                  nontrivial=not isinstance(r, tuple))
    for i in range(ctx.scale(280, 6000)):
        mem, kind = i2c_rnd_mem(rng)
        o = i2c_impl_parse(mem)
        k = kind.split('@')[0]
        dist['i2c_parse'][k] = dist['i2c_parse'].get(k, 0) + 1
        cases.add('i2c_parse', 'enc_i2c (i2c_parse %s)' % ZL(mem), i2c_enc_parse(o), {'i2c_parse': list(mem), 'kind': kind},
                  nontrivial=(k != 'short'))
    return dist


def i2c_expected_valid(mem):
    """the property text: valid iff token, known version and stored checksum == recomputed one"""
    if mem[0:4] != TOKEN:
        return False
    if mem[4] == 0:
        return sum(mem[:15]) % 256 == mem[15]
    if mem[4] == 1:
        return sum(mem[:20]) % 256 == mem[20]
    return False


def i2c_check_roundtrip(f, tail=b''):
    """returns failure dict or None"""
    img = i2c_impl_write(f)
    if isinstance(img, tuple):
        return {'class': 'i2c_write_raises', 'case': {'codec': 'i2c', 'op': 'roundtrip', 'fields': f},
                'expected': 'image', 'observed': list(img)}
    ref = i2c_ref_image(f)
    if bytes(img) != ref:
        return {'class': 'i2c_layout_differs', 'case': {'codec': 'i2c', 'op': 'roundtrip', 'fields': f},
                'expected': list(ref), 'observed': list(img), 'detail': 'image is not the layout the firmware reads'}
    o = i2c_impl_parse(bytes(img) + tail)
    want = dict(f)
    if f['version'] == 0:
        want['addr'] = None
    if o.get('fields') != want or not o.get('valid') or o.get('cb') != 1:
        return {'class': 'i2c_roundtrip_differs', 'case': {'codec': 'i2c', 'op': 'roundtrip', 'fields': f, 'tail': list(tail)},
                'expected': {'valid': True, 'cb': 1, 'fields': want}, 'observed': o}
    return None


def i2c_check_corruption(f, p, v, tail=b''):
    img = bytearray(i2c_ref_image(f))
    if img[p] == v:
        return None
    orig = img[p]
    img[p] = v
    o = i2c_impl_parse(bytes(img) + tail + bytes(8))
    if o.get('valid'):
        cls = 'i2c_corruption_undetected'
        if p == 4 and {orig, v} == {0, 1}:
            cls = 'i2c_version_byte_flip_moves_checksum'
        return {'class': cls, 'case': {'codec': 'i2c', 'op': 'corrupt', 'fields': f, 'pos': p, 'value': v, 'tail': list(tail)},
                'expected': {'valid': False}, 'observed': o,
                'detail': 'byte %d of a correctly written image changed from %d to %d and the image is still reported valid' % (p, orig, v)}
    return None


def i2c_oracle(ctx, deep):
    rng = ctx.rng
    fails, n = [], 0
    fs = [i2c_rnd_fields(rng) for _ in range(ctx.scale(60, 600) * (3 if deep else 1))]
    fs += [{'version': 1, 'channel': 184, 'speed': 2, 'pitch': 0, 'roll': 0, 'addr': 0xE7E7E7E7E7},
           {'version': 0, 'channel': 80, 'speed': 0, 'pitch': 0, 'roll': 0, 'addr': None},
           {'version': 1, 'channel': 255, 'speed': 255, 'pitch': 0xFFFFFFFF & 0xFFC12345, 'roll': 0x7F7FFFFF, 'addr': (1 << 40) - 1}]
    for f in fs:
        tail = bytes(rng.getrandbits(8) for _ in range(rng.choice([0, 5, 9])))
        r = i2c_check_roundtrip(f, tail)
        n += 1
        if r:
            fails.append(r)
        L = 16 if f['version'] == 0 else 21
        for p in range(L):
            vals = set([0, 1, 255, rng.getrandbits(8), rng.getrandbits(8)])
            if deep or ctx.thorough:
                vals |= set(rng.getrandbits(8) for _ in range(24))
            for v in vals:
                r = i2c_check_corruption(f, p, v, tail=b'')
                n += 1
                if r:
                    fails.append(r)
    # valid iff checksum on arbitrary memories
    for _ in range(ctx.scale(400, 4000)):
        mem, kind = i2c_rnd_mem(rng)
        if len(mem) < 21:
            continue
        o = i2c_impl_parse(mem)
        n += 1
        want = i2c_expected_valid(mem)
        if o.get('valid') != want:
            fails.append({'class': 'i2c_valid_not_checksum', 'case': {'codec': 'i2c', 'op': 'valid', 'mem': list(mem)},
                          'expected': {'valid': want}, 'observed': o})
    return n, fails


# ---------------------------------------------------------------------------------------------- 1-wire

OW_NAMES = {1: 'Board name', 2: 'Board revision', 3: 'Custom'}
OW_IDS = {v: k for k, v in OW_NAMES.items()}


def ow_impl_write(pins, vid, pid, els):
    """els: list of (id, bytes) in dict insertion order"""
    from cflib.crazyflie.mem.ow_element import OWElement
    fake = MemFake()
    el = OWElement(id=1, type=1, size=112, addr=0x1234, mem_handler=fake)
    el.pins, el.vid, el.pid = pins, vid, pid
    for k, s in els:
        el.elements[OW_NAMES[k]] = bytes(s).decode('ISO-8859-1')
    done = []
    try:
        el.write_data(lambda *a: done.append(a))
        fake.run()
    except Exception as e:  # noqa
        return ('raise', exc_kind(e))
    (addr, data, fl), = fake.writes
    assert addr == 0 and len(done) == 1
    return data


def ow_impl_parse(mem):
    from cflib.crazyflie.mem.ow_element import OWElement
    fake = MemFake(mem)
    el = OWElement(id=1, type=1, size=len(mem), addr=0x1234, mem_handler=fake)
    called = []
    exc = None
    try:
        el.update(lambda m: called.append(m.valid))
        fake.run()
    except Exception as e:  # noqa
        exc = exc_kind(e)
    if fake.short_reads:
        return {'short': True, 'reads': fake.reads}
    els = [[OW_IDS[k], list(v.encode('ISO-8859-1'))] for k, v in el.elements.items()]
    return {'valid': bool(el.valid), 'cb': len(called), 'pins': el.pins, 'vid': el.vid, 'pid': el.pid, 'elements': els,
            'exc': exc, 'reads': fake.reads}


def ow_enc_parse(o):
    if o.get('short'):
        return [-2]
    out = [int(o['valid']), o['cb'], o['pins'], o['vid'], o['pid'], EXC_CODE.get(o['exc'], 9), len(o['elements'])]
    for k, s in o['elements']:
        out += [k, len(s)] + list(s)
    return out


def ow_dict_term(els):
    return '[' + '; '.join('(%d, %s)' % (k, ZL(s)) for k, s in els) + ']'


def ow_ref_image(pins, vid, pid, els):
    """independent statement of the layout: 0xEB | pins u32 LE | vid | pid | crc32(first 7)&0xFF |
    0x00 | len | TLVs (id, len, bytes) | crc32(ver, len, TLVs)&0xFF; els in the order they appear"""
    h = bytes([0xEB]) + pins.to_bytes(4, 'little') + bytes([vid, pid])
    h += bytes([binascii.crc32(h) & 0xFF])
    area = b''.join(bytes([k, len(s)]) + bytes(s) for k, s in els)
    e = bytes([0, len(area)]) + area
    e += bytes([binascii.crc32(e) & 0xFF])
    return h + e


def ow_rnd_content(rng, wf=True):
    pins = rng.choice([0, 0xFFFFFFFF, rng.getrandbits(32), rng.getrandbits(8)])
    vid, pid = rng.choice([0xBC, rng.randrange(256)]), rng.randrange(256)
    ids = [1, 2, 3]
    rng.shuffle(ids)
    ids = ids[:rng.choice([0, 1, 1, 2, 2, 3])]
    els = []
    budget = 255
    for k in ids:
        n = rng.choice([0, 1, 3, 4, 8, rng.randrange(0, 40), rng.randrange(0, 120)])
        n = min(n, budget - 2)
        if n < 0:
            break
        budget -= n + 2
        s = [rng.choice([rng.randrange(32, 127), rng.randrange(256)]) for _ in range(n)]
        els.append((k, s))
    if not wf:
        k = rng.randrange(4)
        if k == 0:
            pins = rng.choice([1 << 32, -1])
        elif k == 1:
            vid = rng.choice([256, -3])
        elif k == 2:
            els = [(rng.choice([1, 2, 3]), [65] * rng.choice([256, 300]))]
        else:
            els = [(1, [66] * 130), (2, [67] * 130)]
    return pins, vid, pid, els


def ow_special_contents():
    """contents whose element area length collides with the CRC shortcut of the unrepaired code (F14a)"""
    out = [(0, 0xBC, 0x12, [(2, [49, 46, 48])]),                       # area length 5, first id 2
           (0x0C, 0xBC, 0x08, [(2, [65]), (1, [66])]),                # written reversed: id 1 first? length 6
           (0, 0xBC, 0x01, [(3, list(range(60, 132)))])]              # area length 74, first id 3
    # all (length, first id) collisions below 256
    for n in range(2, 256):
        c = binascii.crc32(bytes([n])) & 0xFF
        if c in (1, 2, 3):
            out.append((0x11, 0xBC, n & 0xFF, [(c, [88] * (n - 2))]))
    return out


def ow_rnd_mem(rng, size=112):
    k = rng.randrange(12)
    pins, vid, pid, els = ow_rnd_content(rng)
    while 11 + sum(len(s) + 2 for _, s in els) > size:
        els = els[:-1]
    img = bytearray(ow_ref_image(pins, vid, pid, list(reversed(els))))
    pad = bytes([0xFF]) * (size - len(img))
    if k <= 1:
        return bytes(img) + pad, 'written'
    if k <= 4:
        p = rng.randrange(len(img))
        img[p] = rng.choice([x for x in (rng.getrandbits(8), img[p] ^ 1, img[p] ^ 0x10, 0, 255) if x != img[p]])
        return bytes(img) + pad, 'corrupt@%d' % p
    if k == 5:
        return (bytes(img) + pad)[:rng.choice([0, 7, 10, 11, 12, len(img) - 1, len(img)])], 'short'
    if k == 6:
        return bytes(rng.getrandbits(8) for _ in range(size)), 'garbage'
    # hand-made element areas (duplicates, unknown ids, truncated TLVs, length running over the area), CRCs fixed up
    start = rng.choice([0xEB, 0xEB, 0xEB, 0xEB, 0xEA, 0x00, 0xFF, 0xBE])     # wrong start byte with a matching header CRC
    h = bytes([start]) + pins.to_bytes(4, 'little') + bytes([vid, pid])
    h += bytes([binascii.crc32(h) & 0xFF])
    area = bytearray()
    for _ in range(rng.choice([1, 2, 3, 4])):
        eid = rng.choice([1, 2, 3, 1, 2, 3, 0, 4, 200])
        n = rng.choice([0, 1, 2, 5, 9])
        area += bytes([eid, n]) + bytes(rng.randrange(32, 127) for _ in range(n))
    if k == 8:
        area = area[:-1] if area else area
    if k == 9 and len(area) >= 2:
        area[1] = min(255, area[1] + rng.choice([1, 3, 50]))
    if k == 10:
        area += bytes([rng.choice([1, 2, 3])])
    ver = rng.choice([0, 0, 0, 1, 255])
    e = bytes([ver, len(area)]) + bytes(area)
    crc = binascii.crc32(e) & 0xFF
    if k == 11:
        crc ^= rng.choice([1, 0x80, 0xFF])
    m = h + e + bytes([crc])
    return (m + bytes([0xFF]) * max(0, size - len(m))), 'handmade'


def ow_tie(ctx, cases):
    rng = ctx.rng
    dist = {'ow_write': 0, 'ow_write_error': 0, 'ow_parse': {}}
    contents = ow_special_contents()[:8]
    for i in range(ctx.scale(150, 1500)):
        contents.append(ow_rnd_content(rng, wf=(i % 5 != 0)))
    for (pins, vid, pid, els) in contents:
        r = ow_impl_write(pins, vid, pid, els)
        dist['ow_write_error' if isinstance(r, tuple) else 'ow_write'] += 1
        cases.add('ow_write', 'enc_img (ow_write %s %s %s %s)' % (Z(pins), Z(vid), Z(pid), ow_dict_term(els)),
                  i2c_enc_write(r), {'ow_write': [pins, vid, pid, els]}, nontrivial=bool(els) and not isinstance(r, tuple))
    mems = []
    for (pins, vid, pid, els) in ow_special_contents():
        mems.append((ow_ref_image(pins, vid, pid, list(reversed(els))) + bytes([0xFF] * 3), 'collision'))
    for i in range(ctx.scale(280, 6000)):
        mems.append(ow_rnd_mem(rng, size=rng.choice([112, 112, 64, 300])))
    for mem, kind in mems:
        o = ow_impl_parse(mem)
        k = kind.split('@')[0]
        dist['ow_parse'][k] = dist['ow_parse'].get(k, 0) + 1
        cases.add('ow_parse', 'enc_ow (ow_parse %s)' % ZL(mem), ow_enc_parse(o), {'ow_parse': list(mem), 'kind': kind},
                  nontrivial=(k != 'short' and len(mem) > 11))
    return dist


def ow_status(mem):
    """'short' (a read request fails), 'raises' (CRCs match but the TLV walk raises) or 'ok'"""
    if len(mem) < 11:
        return 'short'
    if mem[0] != 0xEB or binascii.crc32(mem[:7]) & 0xFF != mem[7]:
        return 'ok'
    n = mem[9]
    if 11 + n > len(mem):
        return 'short'
    if binascii.crc32(mem[8:10 + n]) & 0xFF != mem[10 + n]:
        return 'ok'
    area = mem[10:10 + n]
    while area:
        if len(area) < 2 or area[0] not in OW_NAMES:
            return 'raises'
        area = area[2 + area[1]:]
    return 'ok'


def ow_expected(mem):
    """the property text on a memory: (valid, elements or None when the walk raises)"""
    if len(mem) < 11:
        return None, None                      # read fails
    if mem[0] != 0xEB or binascii.crc32(mem[:7]) & 0xFF != mem[7]:
        return False, None
    n = mem[9]
    if 11 + n > len(mem):
        return None, None                      # read fails
    if binascii.crc32(mem[8:10 + n]) & 0xFF != mem[10 + n]:
        return False, None
    area = mem[10:10 + n]
    d = {}
    while area:
        if len(area) < 2 or area[0] not in OW_NAMES:
            return False, None                 # the implementation raises; valid must not be set
        d[area[0]] = list(area[2:2 + area[1]])
        area = area[2 + area[1]:]
    return True, d


def ow_classify_roundtrip(content, o):
    pins, vid, pid, els = content
    area_len = sum(len(s) + 2 for _, s in els)
    first = els[-1][0] if els else None           # written in reversed order
    if els and o.get('valid') and not o.get('elements') and binascii.crc32(bytes([area_len])) & 0xFF == first:
        return 'ow_two_byte_shortcut_collision'
    return 'ow_roundtrip_differs'


def ow_check_roundtrip(content, pad=3):
    pins, vid, pid, els = content
    img = ow_impl_write(pins, vid, pid, els)
    case = {'codec': 'ow', 'op': 'roundtrip', 'content': [pins, vid, pid, [[k, list(s)] for k, s in els]]}
    if isinstance(img, tuple):
        return {'class': 'ow_write_raises', 'case': case, 'expected': 'image', 'observed': list(img)}
    # layout, independent of the element order (the firmware walks the TLVs by id): header bytes, total length,
    # both CRCs and the TLV content as an independent reader sees them
    ref = ow_ref_image(pins, vid, pid, list(reversed(els)))
    ok, d = ow_expected(bytes(img))
    if bytes(img[:8]) != ref[:8] or len(img) != len(ref) or ok is not True or d != {k: list(s) for k, s in els} \
            or img[8] != 0 or img[9] != len(ref) - 11:
        return {'class': 'ow_layout_differs', 'case': case, 'expected': list(ref), 'observed': list(img),
                'detail': 'image is not 0xEB|pins|vid|pid|crc|0|len|TLVs|crc with the written elements'}
    o = ow_impl_parse(bytes(img) + bytes([0xFF] * pad))
    got = None if o.get('short') else {k: s for k, s in o['elements']}
    want = {k: list(s) for k, s in els}
    if o.get('short') or got != want or not o['valid'] or o['cb'] != 1 or o['exc'] or \
            (o['pins'], o['vid'], o['pid']) != (pins, vid, pid):
        return {'class': ow_classify_roundtrip(content, o), 'case': case,
                'expected': {'valid': True, 'cb': 1, 'elements': want, 'pins': pins, 'vid': vid, 'pid': pid}, 'observed': o,
                'detail': 'a correctly written 1-wire image must parse back to the written elements'}
    return None


def ow_oracle(ctx, deep):
    rng = ctx.rng
    fails, n = [], 0
    contents = ow_special_contents() + [ow_rnd_content(rng) for _ in range(ctx.scale(300, 3000) * (3 if deep else 1))]
    for c in contents:
        if 11 + sum(len(s) + 2 for _, s in c[3]) > 266:
            continue
        r = ow_check_roundtrip(c)
        n += 1
        if r:
            fails.append(r)
    for _ in range(ctx.scale(500, 5000)):
        mem, kind = ow_rnd_mem(rng)
        want, d = ow_expected(mem)
        if want is None:
            continue
        o = ow_impl_parse(mem)
        n += 1
        if o.get('short') or o['valid'] != want or (want and {k: s for k, s in o['elements']} != d):
            cls = 'ow_valid_not_crcs'
            if not o.get('short') and o['valid'] and len(o.get('reads', [])) == 1:   # accepted without reading the area
                cls = 'ow_two_byte_shortcut_collision'
            fails.append({'class': cls, 'case': {'codec': 'ow', 'op': 'valid', 'mem': list(mem)},
                          'expected': {'valid': want, 'elements': d}, 'observed': o,
                          'detail': 'valid must be exactly: start byte, header CRC and element-area CRC match'})
    return n, fails


# ---------------------------------------------------------------------------------------------- CRC-32

def crc_tie(ctx, cases):
    rng = ctx.rng
    # all one-byte inputs and all two-byte inputs, in blocks; plus random longer inputs
    cases.add('crc32', 'map (fun b => crc32 [b]) (map Z.of_nat (seq 0 256))', [binascii.crc32(bytes([b])) for b in range(256)],
              {'crc32': 'all 1-byte inputs'})
    firsts = list(range(256)) if ctx.thorough else sorted(rng.sample(range(256), 8))
    for a in firsts:
        cases.add('crc32', 'map (fun b => crc32 [%d; b]) (map Z.of_nat (seq 0 256))' % a,
                  [binascii.crc32(bytes([a, b])) for b in range(256)], {'crc32': 'all 2-byte inputs starting with %d' % a})
    for _ in range(ctx.scale(100, 1000)):
        s = bytes(rng.getrandbits(8) for _ in range(rng.randrange(0, 300)))
        cases.add('crc32', '[crc32 %s]' % ZL(s), [binascii.crc32(s)], {'crc32': list(s)})
    return {'crc32_inputs': 256 + 256 * len(firsts) + ctx.scale(100, 1000)}



# ---------------------------------------------------------------------------------------------- lighthouse memory

def f64bits(x):
    return struct.unpack('<Q', struct.pack('<d', x))[0]


def f64(bits):
    return struct.unpack('<d', struct.pack('<Q', bits))[0]


def lh_mk_geo(floats, valid):
    from cflib.crazyflie.mem.lighthouse_memory import LighthouseBsGeometry
    g = LighthouseBsGeometry()
    v = [f32(b) for b in floats]
    g.origin = v[0:3]
    g.rotation_matrix = [v[3:6], v[6:9], v[9:12]]
    g.valid = valid
    return g


def lh_mk_calib(floats, uid, valid):
    from cflib.crazyflie.mem.lighthouse_memory import LighthouseBsCalibration
    c = LighthouseBsCalibration()
    v = [f32(b) for b in floats]
    for k in range(2):
        sw = c.sweeps[k]
        (sw.phase, sw.tilt, sw.curve, sw.gibmag, sw.gibphase, sw.ogeemag, sw.ogeephase) = v[7 * k:7 * k + 7]
    c.uid = uid
    c.valid = valid
    return c


def lh_geo_obs(g):
    fl = list(g.origin) + [x for row in g.rotation_matrix for x in row]
    return [1, int(bool(g.valid))] + [bits32(x) for x in fl]


def lh_calib_obs(c):
    fl = []
    for sw in c.sweeps:
        fl += [sw.phase, sw.tilt, sw.curve, sw.gibmag, sw.gibphase, sw.ogeemag, sw.ogeephase]
    return [1, int(bool(c.valid)), c.uid] + [bits32(x) for x in fl]


def _lh_mem(fake):
    from cflib.crazyflie.mem.lighthouse_memory import LighthouseMemory
    return LighthouseMemory(id=5, type=0x14, size=0x3000, mem_handler=fake)


def lh_impl_write(kind, bs, obj):
    fake = MemFake()
    m = _lh_mem(fake)
    try:
        (m.write_geo_data if kind == 'geo' else m.write_calib_data)(bs, obj, lambda *a: None)
    except Exception as e:  # noqa
        return ('raise', exc_kind(e))
    (addr, data, fl), = fake.writes
    return addr, data, fl


def lh_impl_read(kind, bs, memdata, addr_override=None):
    """read one object for base station bs from a device that holds `memdata` at the requested address"""
    got = []

    class Dev(MemFake):
        def run(self_inner):
            kind_, memory, addr, n = self_inner.queue.pop(0)
            a = addr if addr_override is None else addr_override
            memory.new_data(memory, a, bytearray(memdata))

    fake = Dev()
    m = _lh_mem(fake)
    try:
        (m.read_geo_data if kind == 'geo' else m.read_calib_data)(bs, lambda mem, o: got.append(o))
        fake.run()
    except Exception as e:  # noqa
        return fake.reads, ('raise', exc_kind(e))
    return fake.reads, got[0]


def lh_obj_enc(o):
    if isinstance(o, tuple):
        return [-1]
    if type(o).__name__ == 'LighthouseBsGeometry':
        return [1] + lh_geo_obs(o)
    return [2] + lh_calib_obs(o)


def lh_geo_term(floats, valid):
    return '(mk_geo %s %s)' % (ZL(floats), coqrun.coq_bool(valid))


def lh_calib_term(floats, uid, valid):
    return '(mk_calib %s %s %s)' % (ZL(floats), Z(uid), coqrun.coq_bool(valid))


def _fw_geo_layout(floats, valid):
    """firmware: struct { float origin[3]; float mat[3][3]; bool valid; } packed, little endian (49 bytes)"""
    import numpy as np
    return np.array(floats, dtype='<u4').tobytes() + bytes([1 if valid else 0])


def _fw_calib_layout(floats, uid, valid):
    """firmware: struct { struct { float phase, tilt, curve, gibmag, gibphase, ogeemag, ogeephase; } sweep[2];
    uint32_t uid; bool valid; } packed (61 bytes)"""
    import numpy as np
    return np.array(floats, dtype='<u4').tobytes() + int(uid).to_bytes(4, 'little') + bytes([1 if valid else 0])


def lh_tie(ctx, cases):
    rng = ctx.rng
    n = ctx.scale(120, 1200)
    for i in range(n):
        bs = rng.choice([0, 1, 2, 15, rng.randrange(16)])
        valid = rng.random() < 0.6
        if i % 2 == 0:
            fl = [rnd_f32(rng) for _ in range(12)]
            r = lh_impl_write('geo', bs, lh_mk_geo(fl, valid))
            cases.add('lh_write_geo', 'enc_wr (lh_write_geo %d %s)' % (bs, lh_geo_term(fl, valid)),
                      [-1] if r[0] == 'raise' else [1, r[0]] + list(r[1]), {'lh_write_geo': [bs, fl, valid]})
        else:
            fl = [rnd_f32(rng) for _ in range(14)]
            uid = rng.choice([0, 0xFFFFFFFF, rng.getrandbits(32), 1 << 32 if i % 9 == 1 else 7])
            r = lh_impl_write('calib', bs, lh_mk_calib(fl, uid, valid))
            cases.add('lh_write_calib', 'enc_wr (lh_write_calib %d %s)' % (bs, lh_calib_term(fl, uid, valid)),
                      [-1] if r[0] == 'raise' else [1, r[0]] + list(r[1]), {'lh_write_calib': [bs, fl, uid, valid]},
                      nontrivial=r[0] != 'raise')
    for i in range(n):
        kind = 'geo' if i % 2 == 0 else 'calib'
        size = 49 if kind == 'geo' else 61
        if i % 10 == 9:
            size = rng.choice([0, 48, 50, 60, 62, 61, 49])
        data = bytearray(rng.getrandbits(8) for _ in range(size))
        if size:
            data[-1] = rng.choice([0, 1, 1, 2, 255])
        _quiet(data, range(0, size - 4, 4) if kind == 'geo' else range(0, min(size - 4, 56), 4))
        bs = rng.randrange(16)
        reads, o = lh_impl_read(kind, bs, bytes(data))
        term_req = 'lh_read_%s %d' % (kind, bs)
        cases.add('lh_read', 'let rq := %s in fst rq :: snd rq :: enc_lhobj (lh_new_data (fst rq) %s)' % (term_req, ZL(data)),
                  [reads[0][0], reads[0][1]] + lh_obj_enc(o), {'lh_read': kind, 'bs': bs, 'data': list(data)},
                  nontrivial=size in (49, 61))
    return {'lh_write': n, 'lh_read': n}


def lh_oracle(ctx, deep):
    rng = ctx.rng
    fails, n = [], 0
    for i in range(ctx.scale(150, 1500) * (3 if deep else 1)):
        bs = rng.randrange(16)
        valid = rng.random() < 0.7
        if i % 2 == 0:
            fl = [rnd_f32(rng) for _ in range(12)]
            case = {'codec': 'lh', 'op': 'geo', 'bs': bs, 'floats': fl, 'valid': valid}
        else:
            fl = [rnd_f32(rng) for _ in range(14)]
            case = {'codec': 'lh', 'op': 'calib', 'bs': bs, 'floats': fl, 'valid': valid, 'uid': rng.getrandbits(32)}
        r = lh_check(case)
        n += 1
        if r:
            fails.append(r)
    return n, fails


def lh_check(c):
    kind = c['op']
    if kind == 'geo':
        obj = lh_mk_geo(c['floats'], c['valid'])
        want_bytes = _fw_geo_layout(c['floats'], c['valid'])
        want_addr = 0x0000 + 0x100 * c['bs']
        want_obs = [1, int(c['valid'])] + list(c['floats'])
    else:
        obj = lh_mk_calib(c['floats'], c['uid'], c['valid'])
        want_bytes = _fw_calib_layout(c['floats'], c['uid'], c['valid'])
        want_addr = 0x1000 + 0x100 * c['bs']
        want_obs = [1, int(c['valid']), c['uid']] + list(c['floats'])
    r = lh_impl_write(kind, c['bs'], obj)
    if r[0] == 'raise':
        return {'class': 'lh_write_raises', 'case': c, 'observed': list(r)}
    if (r[0], r[1]) != (want_addr, want_bytes):
        return {'class': 'lh_layout_differs', 'case': c, 'expected': [want_addr, list(want_bytes)], 'observed': [r[0], list(r[1])],
                'detail': 'bytes written are not the layout the firmware reads'}
    reads, o = lh_impl_read(kind, c['bs'], r[1])
    if reads != [(want_addr, len(want_bytes))]:
        return {'class': 'lh_read_request_differs', 'case': c, 'expected': [want_addr, len(want_bytes)], 'observed': reads}
    got = None if isinstance(o, tuple) else (lh_geo_obs(o) if kind == 'geo' else lh_calib_obs(o))
    if got != want_obs:
        return {'class': 'lh_roundtrip_differs', 'case': c, 'expected': want_obs, 'observed': got if got else list(o)}
    return None


# ---------------------------------------------------------------------------------------------- YAML files

def py2yv(x):
    """Python plain data -> Coq term of type yv"""
    if x is None:
        return 'YNone'
    if isinstance(x, bool):
        return '(YBool %s)' % coqrun.coq_bool(x)
    if isinstance(x, int):
        return '(YInt %s)' % Z(x)
    if isinstance(x, float):
        return '(YFloat %d)' % f64bits(x)
    if isinstance(x, str):
        return '(YStr %s%%string)' % coqrun.coq_string(x)
    if type(x) is list:
        return '(YList [%s])' % '; '.join(py2yv(v) for v in x)
    if type(x) is dict:
        return '(YDict [%s])' % '; '.join('(%s, %s)' % (py2yv(k), py2yv(v)) for k, v in x.items())
    raise TypeError('not plain data: %r' % (x,))


def yv_enc(x):
    """Python plain data -> the integer list enc_yv produces"""
    if x is None:
        return [0]
    if isinstance(x, bool):
        return [1, int(x)]
    if isinstance(x, int):
        return [2, x]
    if isinstance(x, float):
        return [3, f64bits(x)]
    if isinstance(x, str):
        return [4, len(x)] + [ord(c) for c in x]
    if type(x) is list:
        out = [5, len(x)]
        for v in x:
            out += yv_enc(v)
        return out
    if type(x) is dict:
        out = [6, len(x)]
        for k, v in x.items():
            out += yv_enc(k) + yv_enc(v)
        return out
    raise TypeError('not plain data: %r' % (x,))


def plain_eq(a, b):
    """equality of plain data with floats compared by bit pattern and bool/int kept apart"""
    if type(a) != type(b):
        return False
    if isinstance(a, float):
        return f64bits(a) == f64bits(b)
    if isinstance(a, (list, tuple)):
        return len(a) == len(b) and all(plain_eq(x, y) for x, y in zip(a, b))
    if isinstance(a, dict):
        return len(a) == len(b) and all(k in b and plain_eq(v, b[k]) for k, v in a.items())
    return a == b


def rnd_double(rng, from32=True):
    if from32:
        b = rnd_f32(rng)
        while (b >> 23) & 0xFF == 0xFF and (b & 0x7FFFFF):
            b = rnd_f32(rng)
        return f32(b)
    r = rng.random()
    if r < 0.2:
        return rng.choice([0.0, -0.0, 1.0, -1.5, 1e-300, 1.7976931348623157e308, 5e-324, float('inf'), float('-inf'), 0.1, 1e16, 123456789.125])
    x = f64(rng.getrandbits(64))
    return 0.25 if x != x else x


class _YamlSpy:
    """stands in for the `yaml` module inside the two file managers: records what is dumped / loaded"""

    def __init__(self):
        import yaml
        self._yaml = yaml
        self.dumped = []
        self.loaded = []
        self.YAMLError = yaml.YAMLError

    def dump(self, data, stream=None, **kw):
        self.dumped.append(data)
        return self._yaml.dump(data, stream, **kw)

    def safe_load(self, stream):
        d = self._yaml.safe_load(stream)
        self.loaded.append(d)
        return d


def _tmpdir():
    d = os.path.join(VERIF, '.build', 'c14tmp_%d' % os.getpid())
    os.makedirs(d, exist_ok=True)
    return d


def _with_spy(modname):
    import importlib
    mod = importlib.import_module(modname)
    spy = _YamlSpy()
    return mod, spy


def lhfile_objects(spec):
    """spec: {'geos': {id: (origin, rot, valid)}, 'calibs': {id: (s0, s1, uid, valid)}, 'st': x} -> real objects"""
    from cflib.crazyflie.mem.lighthouse_memory import LighthouseBsGeometry, LighthouseBsCalibration
    geos, calibs = {}, {}
    for k, (o, r, v) in spec['geos'].items():
        g = LighthouseBsGeometry()
        g.origin, g.rotation_matrix, g.valid = o, r, v
        geos[k] = g
    for k, (s0, s1, uid, v) in spec['calibs'].items():
        c = LighthouseBsCalibration()
        for sw, vals in zip(c.sweeps, (s0, s1)):
            (sw.phase, sw.tilt, sw.curve, sw.gibmag, sw.gibphase, sw.ogeemag, sw.ogeephase) = vals
        c.uid, c.valid = uid, v
        calibs[k] = c
    return geos, calibs


def lhfile_impl_write(spec, fn):
    mod, spy = _with_spy('cflib.localization.lighthouse_config_manager')
    geos, calibs = lhfile_objects(spec)
    old = mod.yaml
    mod.yaml = spy
    try:
        mod.LighthouseConfigFileManager.write(fn, geos=geos, calibs=calibs, system_type=spec['st'])
    finally:
        mod.yaml = old
    return spy.dumped[0]


SWEEP_ATTRS = ['phase', 'tilt', 'curve', 'gibmag', 'gibphase', 'ogeemag', 'ogeephase']


def lhfile_impl_read(fn):
    """-> ('ok', geos, calibs, st) with geos as ordered lists, or ('err', code)"""
    mod, spy = _with_spy('cflib.localization.lighthouse_config_manager')
    old = mod.yaml
    mod.yaml = spy
    try:
        g, c, st = mod.LighthouseConfigFileManager.read(fn)
    except Exception as e:  # noqa
        msg = str(e)
        code = {'Type field missing': 1, 'Unsupported file type': 2, 'Version field missing': 3,
                'Unsupported file version': 4}.get(msg, 5)
        return ('err', code), (spy.loaded[0] if spy.loaded else None)
    finally:
        mod.yaml = old
    geos = [(k, (x.origin, x.rotation_matrix, x.valid)) for k, x in g.items()]
    calibs = [(k, ([getattr(x.sweeps[0], a) for a in SWEEP_ATTRS], [getattr(x.sweeps[1], a) for a in SWEEP_ATTRS], x.uid, x.valid))
              for k, x in c.items()]
    return ('ok', geos, calibs, st), spy.loaded[0]


def lhfile_enc_read(r):
    if r[0] == 'err':
        return [-1, r[1]]
    _, geos, calibs, st = r
    out = [1] + yv_enc(st) + [len(geos)]
    for k, (o, rot, v) in geos:
        out += yv_enc(k) + [int(v)] + yv_enc(o) + yv_enc(rot)
    out += [len(calibs)]
    for k, (s0, s1, uid, v) in calibs:
        out += yv_enc(k) + [int(v)] + yv_enc(uid)
        for x in s0 + s1:
            out += yv_enc(x)
    return out


def lhfile_rnd_spec(rng):
    ids = sorted(rng.sample(range(16), rng.choice([0, 1, 2, 2, 3, 5, 16])))
    geos, calibs = {}, {}
    for k in ids:
        if rng.random() < 0.8:
            geos[k] = ([rnd_double(rng) for _ in range(3)], [[rnd_double(rng) for _ in range(3)] for _ in range(3)],
                       rng.random() < 0.7)
        if rng.random() < 0.8:
            calibs[k] = ([rnd_double(rng) for _ in range(7)], [rnd_double(rng) for _ in range(7)],
                         rng.choice([0, rng.getrandbits(32), 0xFFFFFFFF]), rng.random() < 0.7)
    return {'geos': geos, 'calibs': calibs, 'st': rng.choice([1, 2, 2])}


def lhfile_spec_terms(spec):
    g = '[' + '; '.join('(%s, mk_fgeo %s %s %s)' % (py2yv(k), py2yv(o), py2yv(r), coqrun.coq_bool(v))
                        for k, (o, r, v) in spec['geos'].items()) + ']'
    c = '[' + '; '.join('(%s, mk_fcalib [%s] [%s] %s %s)' % (py2yv(k), '; '.join(py2yv(x) for x in s0),
                                                             '; '.join(py2yv(x) for x in s1), py2yv(uid), coqrun.coq_bool(v))
                        for k, (s0, s1, uid, v) in spec['calibs'].items()) + ']'
    return g, c, py2yv(spec['st'])


def lhfile_mutate_loaded(rng, data):
    """a loaded document with one thing changed (missing/other type or version, missing sections, missing keys)"""
    import copy
    d = copy.deepcopy(data)
    k = rng.randrange(9)
    if k == 0:
        d.pop('type')
    elif k == 1:
        d['type'] = rng.choice(['persistent_param_state', 'x', 1])
    elif k == 2:
        d.pop('version')
    elif k == 3:
        d['version'] = rng.choice([1, '2', 1.0])
    elif k == 4:
        d.pop('systemType')
    elif k == 5:
        d.pop(rng.choice(['geos', 'calibs']))
    elif k == 6 and d.get('geos'):
        g = d['geos'][next(iter(d['geos']))]
        g.pop(rng.choice(['origin', 'rotation']))
    elif k == 7 and d.get('calibs'):
        c = d['calibs'][next(iter(d['calibs']))]
        if rng.random() < 0.5:
            c['sweeps'][rng.randrange(2)].pop(rng.choice(SWEEP_ATTRS))
        else:
            c.pop(rng.choice(['uid', 'sweeps']))
    else:
        d['extra'] = [1, 'two', 3.5]
    return d


def yaml_tie(ctx, cases):
    import yaml
    rng = ctx.rng
    tmp = _tmpdir()
    fn = os.path.join(tmp, 'lh.yaml')
    n = ctx.scale(16, 300)
    for i in range(n):
        spec = lhfile_rnd_spec(rng)
        dumped = lhfile_impl_write(spec, fn)
        g, c, st = lhfile_spec_terms(spec)
        cases.add('lhfile_write', 'enc_yv (lh_file_data %s %s %s)' % (g, c, st), yv_enc(dumped), {'lhfile_write': repr(spec)[:400]},
                  nontrivial=bool(spec['geos'] or spec['calibs']))
        r, loaded = lhfile_impl_read(fn)
        cases.add('lhfile_read', 'enc_lhfile (lh_file_read %s)' % py2yv(loaded), lhfile_enc_read(r), {'lhfile_read': repr(loaded)[:400]},
                  nontrivial=bool(spec['geos'] or spec['calibs']))
        # a changed document
        mut = lhfile_mutate_loaded(rng, loaded)
        with open(fn, 'w') as f:
            yaml.dump(mut, f)
        r2, loaded2 = lhfile_impl_read(fn)
        cases.add('lhfile_read', 'enc_lhfile (lh_file_read %s)' % py2yv(loaded2), lhfile_enc_read(r2),
                  {'lhfile_read_mutated': repr(loaded2)[:400]})
    # parameter files
    fn = os.path.join(tmp, 'params.yaml')
    for i in range(n):
        spec = paramfile_rnd_spec(rng)
        dumped = paramfile_impl_write(spec, fn)
        pt = '[' + '; '.join('(%s, mk_pstate %s %s %s)' % (py2yv(k), py2yv(a), py2yv(b), py2yv(c)) for k, (a, b, c) in spec.items()) + ']'
        cases.add('paramfile_write', 'enc_yv (param_file_data %s)' % pt, yv_enc(dumped), {'paramfile_write': repr(spec)[:300]},
                  nontrivial=bool(spec))
        r, loaded = paramfile_impl_read(fn)
        cases.add('paramfile_read', 'enc_pfile (param_file_read %s)' % py2yv(loaded), paramfile_enc_read(r),
                  {'paramfile_read': repr(loaded)[:300]}, nontrivial=bool(spec))
        mut = dict(loaded)
        k = rng.randrange(6)
        if k == 0:
            mut.pop('type')
        elif k == 1:
            mut['type'] = 'lighthouse_system_configuration'
        elif k == 2:
            mut.pop('version')
        elif k == 3:
            mut['version'] = 1
        elif k == 4:
            mut.pop('params')
        elif mut.get('params'):
            first = next(iter(mut['params']))
            mut['params'] = dict(mut['params'])
            mut['params'][first] = {kk: vv for kk, vv in mut['params'][first].items() if kk != 'default_value'}
        with open(fn, 'w') as f:
            yaml.dump(mut, f)
        r2, loaded2 = paramfile_impl_read(fn)
        cases.add('paramfile_read', 'enc_pfile (param_file_read %s)' % py2yv(loaded2), paramfile_enc_read(r2),
                  {'paramfile_read_mutated': repr(loaded2)[:300]})
    _cleanup_tmp()
    return {'lhfile': 3 * n, 'paramfile': 3 * n}


def _cleanup_tmp():
    import shutil
    shutil.rmtree(_tmpdir(), ignore_errors=True)


def paramfile_rnd_spec(rng):
    names = ['ring.effect', 'sound.freq', 'activeMarker.mode', 'lighthouse.method', 'cppm.angPitch', 'a.b', 'kalman.x0']
    rng.shuffle(names)
    spec = {}
    for nm in names[:rng.choice([0, 1, 2, 3, 7])]:
        isf = rng.random() < 0.4
        dv = rnd_double(rng, False) if isf else rng.choice([0, 1, 255, 65535, -3, rng.getrandbits(32)])
        stored = rng.random() < 0.6
        sv = (rnd_double(rng, False) if isf else rng.getrandbits(16)) if stored else None
        spec[nm] = (stored, dv, sv)
    return spec


def paramfile_impl_write(spec, fn):
    from cflib.crazyflie.param import PersistentParamState
    mod, spy = _with_spy('cflib.localization.param_io')
    old = mod.yaml
    mod.yaml = spy
    try:
        mod.ParamFileManager.write(fn, params={k: PersistentParamState(*v) for k, v in spec.items()})
    finally:
        mod.yaml = old
    return spy.dumped[0]


def paramfile_impl_read(fn):
    mod, spy = _with_spy('cflib.localization.param_io')
    old = mod.yaml
    mod.yaml = spy
    try:
        r = mod.ParamFileManager.read(fn)
    except Exception as e:  # noqa
        code = {'Type field missing': 1, 'Unsupported file type': 2, 'Version field missing': 3,
                'Unsupported file version': 4}.get(str(e), 5)
        return ('err', code), (spy.loaded[0] if spy.loaded else None)
    finally:
        mod.yaml = old
    return ('ok', [(k, tuple(v)) for k, v in r.items()]), spy.loaded[0]


def paramfile_enc_read(r):
    if r[0] == 'err':
        return [-1, r[1]]
    out = [1, len(r[1])]
    for k, (a, b, c) in r[1]:
        out += yv_enc(k) + yv_enc(a) + yv_enc(b) + yv_enc(c)
    return out


def yaml_check(c):
    """file round trip on the real code + the YAML hypothesis on the file that was written"""
    import yaml
    tmp = _tmpdir()
    try:
        if c['op'] == 'lhfile':
            spec = {'geos': {int(k): (v[0], v[1], v[2]) for k, v in c['geos'].items()},
                    'calibs': {int(k): (v[0], v[1], v[2], v[3]) for k, v in c['calibs'].items()}, 'st': c['st']}
            fn = os.path.join(tmp, 'o_lh.yaml')
            dumped = lhfile_impl_write(spec, fn)
            with open(fn) as f:
                back = yaml.safe_load(f)
            v = plain_domain_violation(dumped)
            if v:
                return {'class': 'yaml_data_outside_plain_domain', 'case': c, 'expected': 'plain data handed to yaml.dump', 'observed': v}
            if not plain_eq(back, dumped):
                return {'class': 'yaml_roundtrip_hypothesis_fails', 'case': c, 'expected': repr(dumped)[:500], 'observed': repr(back)[:500],
                        'detail': 'yaml.safe_load(yaml.dump(x)) != x for a document the library wrote'}
            r, _ = lhfile_impl_read(fn)
            want_g = [(k, (o, rot, True)) for k, (o, rot, v) in sorted(spec['geos'].items()) if v]
            want_c = [(k, (s0, s1, uid, True)) for k, (s0, s1, uid, v) in sorted(spec['calibs'].items()) if v]
            if r[0] != 'ok' or not plain_eq(sorted(r[1]), want_g) or not plain_eq(sorted(r[2]), want_c) or r[3] != spec['st']:
                return {'class': 'lhfile_roundtrip_differs', 'case': c, 'expected': repr((want_g, want_c, spec['st']))[:600],
                        'observed': repr(r)[:600], 'detail': 'read(write(x)) must return exactly the valid objects of x, marked valid'}
        else:
            spec = {k: tuple(v) for k, v in c['params'].items()}
            fn = os.path.join(tmp, 'o_p.yaml')
            dumped = paramfile_impl_write(spec, fn)
            with open(fn) as f:
                back = yaml.safe_load(f)
            if not plain_eq(back, dumped):
                return {'class': 'yaml_roundtrip_hypothesis_fails', 'case': c, 'expected': repr(dumped)[:500], 'observed': repr(back)[:500]}
            r, _ = paramfile_impl_read(fn)
            if r[0] != 'ok' or not plain_eq(dict(r[1]), spec):
                return {'class': 'paramfile_roundtrip_differs', 'case': c, 'expected': repr(spec)[:600], 'observed': repr(r)[:600]}
    finally:
        _cleanup_tmp()
    return None


def yaml_oracle(ctx, deep):
    rng = ctx.rng
    fails, n = [], 0
    for i in range(ctx.scale(60, 600) * (2 if deep else 1)):
        if i % 2 == 0:
            spec = lhfile_rnd_spec(rng)
            c = {'codec': 'yaml', 'op': 'lhfile', 'geos': {str(k): list(v) for k, v in spec['geos'].items()},
                 'calibs': {str(k): list(v) for k, v in spec['calibs'].items()}, 'st': spec['st']}
        else:
            c = {'codec': 'yaml', 'op': 'paramfile', 'params': {k: list(v) for k, v in paramfile_rnd_spec(rng).items()}}
        r = yaml_check(c)
        n += 1
        if r:
            fails.append(r)
    return n, fails



# ---------------------------------------------------------------------------------------------- deck memory info

DECK_BITS = ['is_valid', 'is_started', 'supports_read', 'supports_write', 'supports_fw_upgrade', 'is_fw_upgrade_required',
             'is_bootloader_active', 'supports_reset_to_fw', 'supports_reset_to_bootloader']


def deck_impl_parse(data, warm=None):
    """warm = another info section queried first through the SAME manager object (history)"""
    from cflib.crazyflie.mem.deck_memory import DeckMemoryManager
    fake = MemFake(warm if warm is not None else data, new_data='_new_data', new_data_failed='_new_data_failed',
                   write_done='_write_done')
    m = DeckMemoryManager(id=6, type=0x1A, size=0x2000, mem_handler=fake)
    ok, failed = [], []
    if warm is not None:
        m.query_decks(lambda d: None, lambda msg: None)
        fake.run()
        fake.mem[:] = data
        fake.reads[:] = []
    try:
        m.query_decks(lambda d: ok.append(d), lambda msg: failed.append(msg))
        fake.run()
    except Exception as e:  # noqa
        return ('raise', exc_kind(e))
    if fake.short_reads or fake.reads != [(0, 257)]:
        return ('short', fake.reads)
    if failed:
        return ('version', failed[0])
    return ('ok', ok[0])


def deck_enc(r, data):
    if r[0] == 'short':
        return [-2]
    if r[0] == 'version':
        assert r[1] == 'Deck memory version %d not supported' % data[0], r
        return [-1, data[0]]
    if r[0] == 'raise':
        return [-3]
    out = [len(r[1])]
    for i, d in r[1].items():
        nm = d.name.encode('utf-8')
        out += [i, d._bit_field1, d._bit_field2, d.required_hash, d.required_length, d._base_address, d._command_base_address]
        out += [int(getattr(d, b)) for b in DECK_BITS]
        out += [len(nm)] + list(nm)
    return out


def _fw_deck_record(bf1, bf2, h, ln, base, name):
    """firmware: struct { uint8_t bitfield1, bitfield2; uint32_t requiredHash, requiredLength, baseAddress;
    char name[18]; } packed = 32 bytes; info section = version byte 3 followed by 8 records"""
    return bytes([bf1, bf2]) + h.to_bytes(4, 'little') + ln.to_bytes(4, 'little') + base.to_bytes(4, 'little') + \
        bytes(name) + bytes(18 - len(name))


def deck_rnd_infos(rng, names_ascii=True):
    infos = []
    for i in range(8):
        bf1 = rng.choice([0, 1, 3, 0x7F, 0xFF, rng.randrange(256), rng.randrange(256) | 1])
        bf2 = rng.choice([0, 1, 2, 3, rng.randrange(256)])
        n = rng.choice([0, 1, 4, 8, 17, 18])
        if names_ascii:
            name = [rng.randrange(33, 127) for _ in range(n)]
        else:
            name = list(rng.choice(['bcAI', 'bcLighthouse4', 'é', '€uro', '😀', 'x' * 18, 'ß' * 9]).encode('utf-8'))[:18]
            if rng.random() < 0.4:
                name = [rng.choice([0x80, 0xC0, 0xE0, 0xED, 0xF4, 0xF5, 0xFF, 0xA0, 0x41, 0xBF, 0x90, 0xC2]) for _ in range(rng.randrange(1, 6))]
        infos.append((bf1, bf2, rng.getrandbits(32), rng.getrandbits(32), rng.choice([0, 0x10000000, rng.getrandbits(32)]), name))
    return infos


def deck_tie(ctx, cases):
    rng = ctx.rng
    n = ctx.scale(50, 800)
    for i in range(n):
        infos = deck_rnd_infos(rng, names_ascii=(i % 3 != 0))
        data = bytearray([3]) + b''.join(_fw_deck_record(*x) for x in infos)
        k = rng.randrange(12)
        if k == 0:
            data[0] = rng.choice([0, 1, 2, 4, 255])
        elif k == 1:
            data = bytearray(rng.getrandbits(8) for _ in range(257))
            data[0] = 3
        warm = None
        if i % 2 == 1:                                   # history: another section was queried before through the same object
            warm = bytes([rng.choice([3, 3, 3, 9])]) + b''.join(_fw_deck_record(*x) for x in deck_rnd_infos(rng)) + bytes(16)
        r = deck_impl_parse(bytes(data) + bytes(16), warm=warm)
        cases.add('deck_info', 'enc_deck (deck_parse %s)' % ZL(data), deck_enc(r, data), {'deck_info': list(data)})
    return {'deck_info': n}


def deck_check(c):
    infos = [tuple(x) for x in c['infos']]
    data = bytes([3]) + b''.join(_fw_deck_record(*x) for x in infos)
    r = deck_impl_parse(data)
    want = {}
    for i, (bf1, bf2, h, ln, base, name) in enumerate(infos):
        if bf1 & 1:
            bits = [bool(bf1 & (1 << k)) for k in range(7)] + [bool(bf2 & 1), bool(bf2 & 2)]
            want[i] = [h, ln, base, bytes(name).decode('utf-8'), 0x1000 + 0x20 * i] + bits
    if r[0] != 'ok':
        return {'class': 'deck_info_query_fails', 'case': c, 'expected': 'decks', 'observed': repr(r)[:300]}
    got = {i: [d.required_hash, d.required_length, d._base_address, d.name, d._command_base_address] + [getattr(d, b) for b in DECK_BITS]
           for i, d in r[1].items()}
    if got != want:
        return {'class': 'deck_info_fields_differ', 'case': c, 'expected': repr(want)[:600], 'observed': repr(got)[:600],
                'detail': 'the info section must parse to exactly the fields the device encoded'}
    return None


def deck_oracle(ctx, deep):
    rng = ctx.rng
    fails, n = [], 0
    # all bit-field combinations, spread over the 8 slots
    combos = [(b1, b2) for b1 in range(256) for b2 in (range(4) if not (deep or ctx.thorough) else range(0, 256, 5))]
    rng.shuffle(combos)
    for k in range(0, len(combos), 8):
        infos = []
        for (b1, b2) in combos[k:k + 8]:
            nm = [rng.randrange(33, 127) for _ in range(rng.choice([0, 3, 17, 18]))]
            infos.append([b1, b2, rng.getrandbits(32), rng.getrandbits(32), rng.getrandbits(32), nm])
        while len(infos) < 8:
            infos.append([0, 0, 0, 0, 0, []])
        r = deck_check({'codec': 'deck', 'op': 'info', 'infos': infos})
        n += 8
        if r:
            fails.append(r)
    return n, fails


# ---------------------------------------------------------------------------------------------- loco anchors

def anchor_bytes(x, y, z, v):
    """firmware: struct { float x, y, z; bool isValid; } packed = 13 bytes"""
    return x.to_bytes(4, 'little') + y.to_bytes(4, 'little') + z.to_bytes(4, 'little') + bytes([v])


def loco_impl(nr, pages, warm=None, cut=None):
    """warm = (nr, pages) of another device content read first through the SAME object (history)"""
    from cflib.crazyflie.mem.loco_memory import LocoMemory

    def device(nr_, pages_):
        mem = bytearray(0x1000 + 0x100 * 256)
        mem[0] = nr_
        for k, p in enumerate(pages_):
            mem[0x1000 + 0x100 * k:0x1000 + 0x100 * k + 13] = p
        return mem
    fake = MemFake(device(*warm) if warm else device(nr, pages))
    m = LocoMemory(id=3, type=0x11, size=len(fake.mem), mem_handler=fake)
    done = []
    if warm:
        m.update(lambda x: None)
        fake.run()
        fake.mem[:] = device(nr, pages)
        fake.reads[:] = []
    if cut is not None:                                   # the device ends here: the read of that page fails
        del fake.mem[cut:]
    m.update(lambda x: done.append(1))
    fake.run()
    return {'reads': fake.reads, 'valid': m.valid, 'cb': len(done), 'nr': m.nr_of_anchors,
            'anchors': [[bits32(a.position[0]), bits32(a.position[1]), bits32(a.position[2]), int(bool(a.is_valid))] for a in m.anchor_data]}


def loco2_impl(idl, act, pages, warm=None):
    """warm = (idl, act, pages) of another device content read first through the SAME object (history)"""
    from cflib.crazyflie.mem.loco_memory_2 import LocoMemory2

    def device(idl_, act_, pages_):
        mem = bytearray(0x2000 + 0x100 * 256)
        mem[0:17] = idl_
        mem[0x1000:0x1000 + 17] = act_
        for k, p in pages_.items():
            mem[0x2000 + 0x100 * k:0x2000 + 0x100 * k + 13] = p
        return mem
    fake = MemFake(device(*warm) if warm else device(idl, act, pages))
    m = LocoMemory2(id=4, type=0x12, size=len(fake.mem), mem_handler=fake)
    if warm:
        m.update_id_list(lambda x: None)
        fake.run()
        m.update_active_id_list(lambda x: None)
        fake.run()
        if m.nr_of_anchors > 0:
            m.update_data(lambda x: None)
            fake.run()
        fake.mem[:] = device(idl, act, pages)
        fake.reads[:] = []
    out = {}
    done = []
    try:
        m.update_id_list(lambda x: done.append('ids'))
        fake.run()
        out['ids'] = [1 if (m.ids_valid and done == ['ids']) else 7] + list(m.anchor_ids)
    except IndexError:
        out['ids'] = [2 if (not m.ids_valid and not done) else 8] + list(m.anchor_ids)
        fake.queue[:] = []
    try:
        m.update_active_id_list(lambda x: done.append('act'))
        fake.run()
        out['act'] = [1] + list(m.active_anchor_ids)
    except IndexError:
        out['act'] = [2] + list(m.active_anchor_ids)
        fake.queue[:] = []
    out['data'] = None
    if out['ids'][0] == 1 and m.nr_of_anchors > 0:
        fake.reads[:] = []
        m.update_data(lambda x: done.append('data'))
        fake.run()
        out['data_done'] = bool(m.data_valid and done and done[-1] == 'data')
        out['data'] = (list(fake.reads), [[k, bits32(a.position[0]), bits32(a.position[1]), bits32(a.position[2]), int(bool(a.is_valid))]
                                          for k, a in m.anchor_data.items()])
    return out


def rnd_anchor(rng):
    b = [rnd_f32(rng) for _ in range(3)]
    return b + [rng.choice([0, 1, 1, 2, 255])]


def loco_tie(ctx, cases):
    rng = ctx.rng
    n = ctx.scale(60, 600)
    for i in range(n):
        nr = rng.choice([0, 1, 2, 6, 8, rng.randrange(0, 20)])
        anchors = [rnd_anchor(rng) for _ in range(nr)]
        pages = [anchor_bytes(*a) for a in anchors]
        warm = None
        if i % 2 == 1:
            wn = rng.randrange(0, 12)
            warm = (wn, [anchor_bytes(*rnd_anchor(rng)) for _ in range(wn)])
        o = loco_impl(nr, pages, warm=warm)
        enc = [int(o['valid']), len(o['reads'])] + [x for r in o['reads'] for x in r] + [x for a in o['anchors'] for x in a]
        enc[0] = enc[0] if o['cb'] == 1 else -7
        cases.add('loco', 'enc_loco (loco_update %d %s)' % (nr, coqrun.zlistlist(pages)), enc, {'loco': [nr, anchors]}, nontrivial=nr > 0)
    for i in range(n):
        cnt = rng.choice([0, 1, 3, 8, 16, 16, 17, 200]) if i % 4 == 0 else rng.randrange(0, 17)
        ids = [rng.randrange(256) for _ in range(16)]
        if i % 5 == 0 and cnt >= 2:
            ids[1] = ids[0]
        idl = bytes([cnt] + ids)
        act = bytes([rng.choice([0, 2, 16, 17, 255])] + [rng.randrange(256) for _ in range(16)])
        pages = {k: anchor_bytes(*rnd_anchor(rng)) for k in set(ids[:min(cnt, 16)])}
        warm = None
        if i % 2 == 1:
            wids = rng.sample(range(256), rng.randrange(0, 17))
            warm = (bytes([len(wids)] + wids + [0] * (16 - len(wids))), bytes([3, 9, 8, 7] + [0] * 13),
                    {k: anchor_bytes(*rnd_anchor(rng)) for k in wids})
        o = loco2_impl(idl, act, pages, warm=warm)
        cases.add('loco2_ids', 'enc_ids (loco2_ids %s)' % ZL(idl), o['ids'], {'loco2_ids': list(idl)})
        cases.add('loco2_ids', 'enc_ids (loco2_ids %s)' % ZL(act), o['act'], {'loco2_active_ids': list(act)})
        if o['data'] is not None:
            rq, d = o['data']
            if not o['data_done']:
                d = d + [[-1, 0, 0, 0, 0]]                  # never completes: cannot match the model
            enc = [len(rq)] + [x for r in rq for x in r] + [x for a in d for x in a]
            pt = '[' + '; '.join('(%d, %s)' % (k, ZL(p)) for k, p in pages.items()) + ']'
            cases.add('loco2_data', 'enc_loco2 (loco2_data %s %s [] [])' % (ZL(o['ids'][1:]), pt), enc,
                      {'loco2_data': [o['ids'][1:], {k: list(p) for k, p in pages.items()}]})
    return {'loco': n, 'loco2': n}


def loco_check(c):
    if c['op'] == 'loco':
        anchors = c['anchors']
        warm = None
        if c.get('warm_anchors') is not None:            # history: another anchor set was read before through the same object
            warm = (len(c['warm_anchors']), [anchor_bytes(*a) for a in c['warm_anchors']])
        if c.get('cut_page') is not None:
            # the read of page cut_page fails: the update never completes and valid must not survive from the earlier read
            o = loco_impl(len(anchors), [anchor_bytes(*a) for a in anchors], warm=warm, cut=0x1000 + 0x100 * c['cut_page'] + 5)
            if o['valid'] or o['cb']:
                return {'class': 'loco_valid_not_last_read', 'case': c, 'expected': {'valid': False, 'cb': 0}, 'observed': o,
                        'detail': 'an update whose page read fails must not leave valid=True from an earlier read'}
            return None
        o = loco_impl(len(anchors), [anchor_bytes(*a) for a in anchors], warm=warm)
        want = [[a[0], a[1], a[2], int(a[3] != 0)] for a in anchors]
        want_reads = [(0, 1)] + [(0x1000 + 0x100 * k, 13) for k in range(len(anchors))]
        if o['anchors'] != want or not o['valid'] or o['cb'] != 1 or o['reads'] != want_reads:
            return {'class': 'loco_anchor_list_differs', 'case': c, 'expected': {'anchors': want, 'reads': want_reads}, 'observed': o}
        return None
    ids, anchors = c['ids'], {int(k): v for k, v in c['anchors'].items()}
    idl = bytes([len(ids)] + ids + [0] * (16 - len(ids)))
    warm = None
    if c.get('warm_ids') is not None:
        wids = c['warm_ids']
        warm = (bytes([len(wids)] + wids + [0] * (16 - len(wids))), bytes(17), {k: anchor_bytes(k, 1, 2, 1) for k in wids})
    o = loco2_impl(idl, bytes(17), {k: anchor_bytes(*a) for k, a in anchors.items()}, warm=warm)
    want = {k: [k, a[0], a[1], a[2], int(a[3] != 0)] for k, a in anchors.items()}
    got = None if o['data'] is None else {a[0]: a for a in o['data'][1]}
    if o['ids'] != [1] + ids or (ids and got != want) or (ids and not o.get('data_done')) or \
            (ids and [r[0] for r in o['data'][0]] != [0x2000 + 0x100 * k for k in ids]):
        return {'class': 'loco2_anchor_list_differs', 'case': c, 'expected': {'ids': ids, 'anchors': want}, 'observed': repr(o)[:600]}
    return None


def loco_oracle(ctx, deep):
    rng = ctx.rng
    fails, n = [], 0
    for i in range(ctx.scale(60, 600)):
        if i % 2 == 0:
            c = {'codec': 'loco', 'op': 'loco', 'anchors': [rnd_anchor(rng) for _ in range(rng.choice([0, 1, 4, 8, 16, 255 if i % 20 == 0 else 3]))]}
        else:
            ids = rng.sample(range(256), rng.randrange(0, 17))
            c = {'codec': 'loco', 'op': 'loco2', 'ids': ids, 'anchors': {str(k): rnd_anchor(rng) for k in ids}}
        if i % 4 >= 2:
            if c['op'] == 'loco':
                c['warm_anchors'] = [rnd_anchor(rng) for _ in range(rng.randrange(1, 10))]
                if i % 8 >= 6:
                    c['anchors'] = []                     # an empty list after a non-empty one
                elif c['anchors'] and i % 16 == 2:
                    c['cut_page'] = rng.randrange(len(c['anchors']))
            else:
                c['warm_ids'] = rng.sample(range(256), rng.randrange(1, 17))
        r = loco_check(c)
        n += 1
        if r:
            fails.append(r)
    return n, fails


# ---------------------------------------------------------------------------------------------- trajectory pieces, LED timings

def traj_impl_write(elements):
    from cflib.crazyflie.mem.trajectory_memory import TrajectoryMemory
    fake = MemFake()
    m = TrajectoryMemory(id=2, type=0x12, size=4096, mem_handler=fake)
    m.trajectory = elements
    try:
        n = m.write_data(lambda *a: None)
    except Exception as e:  # noqa
        return ('raise', exc_kind(e))
    (addr, data, fl), = fake.writes
    assert addr == 0 and n == len(data) and fl
    return data


def rnd_i16_scaled(rng, wide=False):
    """an integer v and a float x with int(x*1000) == v exactly (x = v/1000 rounded, checked)"""
    while True:
        v = rng.choice([0, 1, -1, 32767, -32768, rng.randrange(-32768, 32768), rng.randrange(-2000, 2000)])
        if wide and rng.random() < 0.1:
            v = rng.choice([32768, -32769, 40000])
        x = v / 1000.0
        if int(x * 1000) == v:
            return v, x


def rnd_yaw(rng):
    import math
    a = rng.choice([0.0, math.pi, -math.pi, 1.0, -0.5, rng.uniform(-6.3, 6.3)])
    return int(math.degrees(a) * 10), a


def traj_tie(ctx, cases):
    from cflib.crazyflie.mem.trajectory_memory import Poly4D, CompressedStart, CompressedSegment
    rng = ctx.rng
    n = ctx.scale(60, 600)
    for i in range(n):
        ps = [[rnd_f32(rng) for _ in range(8)] for _ in range(4)]
        dur = rnd_f32(rng)
        p = Poly4D(f32(dur), *[Poly4D.Poly([f32(b) for b in q]) for q in ps])
        r = traj_impl_write([p])
        cases.add('poly4d', 'enc_img (poly4d_pack %s %s %s %s %d)' % (ZL(ps[0]), ZL(ps[1]), ZL(ps[2]), ZL(ps[3]), dur),
                  i2c_enc_write(r), {'poly4d': [ps, dur]})
    for i in range(n):
        vs = [rnd_i16_scaled(rng, wide=True) for _ in range(3)]
        yw = rnd_yaw(rng)
        r = traj_impl_write([CompressedStart(vs[0][1], vs[1][1], vs[2][1], yw[1])])
        cases.add('cstart', 'enc_img (cstart_pack %s %s %s %s)' % (Z(vs[0][0]), Z(vs[1][0]), Z(vs[2][0]), Z(yw[0])),
                  i2c_enc_write(r), {'cstart': [[v[0] for v in vs], yw[0]]}, nontrivial=not isinstance(r, tuple))
        lens = [rng.choice([0, 1, 3, 7]) for _ in range(4)]
        if i % 9 == 0:
            lens[rng.randrange(4)] = rng.choice([2, 4, 5, 6, 8])
        el = [[rnd_i16_scaled(rng, wide=(i % 7 == 0)) for _ in range(k)] for k in lens[:3]]
        ey = [rnd_yaw(rng) for _ in range(lens[3])]
        dms = rng.choice([0, 1, 1000, 65535, rng.randrange(65536), 65536 if i % 11 == 0 else 500])
        durf = dms / 1000.0
        if int(durf * 1000.0) != dms:
            dms = int(durf * 1000.0)
        try:
            seg = CompressedSegment(durf, [v[1] for v in el[0]], [v[1] for v in el[1]], [v[1] for v in el[2]], [v[1] for v in ey])
            r = traj_impl_write([seg])
        except Exception as e:  # noqa  (constructor validation)
            r = ('raise', exc_kind(e))
        cases.add('cseg', 'enc_img (cseg_pack %d %s %s %s %s)' % (dms, ZL([v[0] for v in el[0]]), ZL([v[0] for v in el[1]]),
                                                                  ZL([v[0] for v in el[2]]), ZL([v[0] for v in ey])),
                  i2c_enc_write(r), {'cseg': [dms, lens]}, nontrivial=not isinstance(r, tuple))
    return {'poly4d': n, 'cstart': n, 'cseg': n}


def timings_impl_write(ts):
    from cflib.crazyflie.mem.led_timings_driver_memory import LEDTimingsDriverMemory
    fake = MemFake()
    m = LEDTimingsDriverMemory(id=7, type=0x17, size=2000, mem_handler=fake)
    for t in ts:
        m.add(time=t[0], rgb={'r': t[1], 'g': t[2], 'b': t[3]}, leds=t[4], fade=t[5], rotate=t[6])
    m.write_data(lambda *a: None)
    (addr, data, fl), = fake.writes
    assert addr == 0 and fl
    return data


def rnd_timing(rng):
    if rng.random() < 0.15:
        return [rng.choice([0, 256, 512]), rng.choice([0, 1, 2, 3]), rng.choice([0, 1]), rng.choice([0, 3]), rng.choice([0, 16]), False, rng.choice([0, 8])]
    return [rng.choice([0, 1, 255, 256, rng.randrange(0, 1000)]), rng.randrange(256), rng.randrange(256), rng.randrange(256),
            rng.choice([0, 1, 15, 16, rng.randrange(64)]), rng.choice([False, True, 0, 1, 2, 3]), rng.choice([0, 1, 7, 8, rng.randrange(16)])]


def timings_tie(ctx, cases):
    rng = ctx.rng
    n = ctx.scale(80, 800)
    for i in range(n):
        ts = [rnd_timing(rng) for _ in range(rng.choice([0, 1, 2, 5, 12]))]
        data = timings_impl_write(ts)
        term = '[' + '; '.join('mk_timing %d %d %d %d %d %d %d' % (t[0], t[1], t[2], t[3], t[4], int(t[5]), t[6]) for t in ts) + ']'
        cases.add('led_timings', 'timings_write %s' % term, list(data), {'led_timings': ts}, nontrivial=bool(ts))
    return {'led_timings': n}


def _fw_rgb565(r, g, b):
    """the 8-bit -> RGB565 reduction used by the LED ring memories (same constants as the firmware-side table)"""
    return ((((r & 0xFF) * 249 + 1014) >> 11) & 0x1F) << 11 | ((((g & 0xFF) * 253 + 505) >> 10) & 0x3F) << 5 | \
        ((((b & 0xFF) * 249 + 1014) >> 11) & 0x1F)


def misc_check(c):
    from cflib.crazyflie.mem.trajectory_memory import Poly4D, CompressedStart, CompressedSegment
    import numpy as np
    import math
    if c['op'] == 'poly4d':
        ps, dur = c['polys'], c['dur']
        p = Poly4D(f32(dur), *[Poly4D.Poly([f32(b) for b in q]) for q in ps])
        r = traj_impl_write([p, p])
        # firmware: struct poly4d { float p[4][8]; float duration; } packed = 132 bytes, pieces back to back
        one = np.array([b for q in ps for b in q] + [dur], dtype='<u4').tobytes()
        if isinstance(r, tuple) or r != one + one:
            return {'class': 'poly4d_layout_differs', 'case': c, 'expected': list(one + one), 'observed': list(r)}
        return None
    if c['op'] == 'compressed':
        st, segs = c['start'], c['segs']
        els = [CompressedStart(st[0] / 1000.0, st[1] / 1000.0, st[2] / 1000.0, st[3])]
        want = struct.pack('<hhhh', st[0], st[1], st[2], int(math.degrees(st[3]) * 10))
        tcode = {0: 0, 1: 1, 3: 2, 7: 3}
        for (dms, xs, ys, zs, yaws) in segs:
            els.append(CompressedSegment(dms / 1000.0, [v / 1000.0 for v in xs], [v / 1000.0 for v in ys], [v / 1000.0 for v in zs], yaws))
            want += bytes([tcode[len(xs)] | tcode[len(ys)] << 2 | tcode[len(zs)] << 4 | tcode[len(yaws)] << 6]) + struct.pack('<H', dms)
            for v in xs + ys + zs:
                want += struct.pack('<h', v)
            for a in yaws:
                want += struct.pack('<h', int(math.degrees(a) * 10))
        r = traj_impl_write(els)
        if isinstance(r, tuple) or r != want:
            return {'class': 'compressed_layout_differs', 'case': c, 'expected': list(want), 'observed': list(r)}
        return None
    if c['op'] == 'timings':
        ts = c['timings']
        data = timings_impl_write(ts)
        want = b''
        for t in ts:
            led = _fw_rgb565(t[1], t[2], t[3])
            rec = bytes([t[0] & 0xFF, led >> 8, led & 0xFF, (t[4] & 0x0F) | ((int(t[5]) << 4) & 0x10) | ((t[6] << 5) & 0xE0)])
            if rec != bytes(4):
                want += rec
        want += bytes(4)
        if data != want:
            return {'class': 'led_timings_layout_differs', 'case': c, 'expected': list(want), 'observed': list(data)}
        return None
    return None


def misc_oracle(ctx, deep):
    rng = ctx.rng
    fails, n = [], 0
    for i in range(ctx.scale(90, 900)):
        k = i % 3
        if k == 0:
            c = {'codec': 'misc', 'op': 'poly4d', 'polys': [[rnd_f32(rng) for _ in range(8)] for _ in range(4)], 'dur': rnd_f32(rng)}
        elif k == 1:
            def vals(m):
                out = []
                while len(out) < m:
                    v, x = rnd_i16_scaled(rng)
                    out.append(v)
                return out
            segs = []
            for _ in range(rng.randrange(0, 4)):
                dms = rng.randrange(65536)
                if int((dms / 1000.0) * 1000.0) != dms:
                    dms = 1000
                segs.append([dms, vals(rng.choice([0, 1, 3, 7])), vals(rng.choice([0, 1, 3, 7])), vals(rng.choice([0, 1, 3, 7])),
                             [rng.uniform(-3.1, 3.1) for _ in range(rng.choice([0, 1, 3, 7]))]])
            c = {'codec': 'misc', 'op': 'compressed', 'start': vals(3) + [rng.uniform(-3.1, 3.1)], 'segs': segs}
        else:
            c = {'codec': 'misc', 'op': 'timings', 'timings': [rnd_timing(rng) for _ in range(rng.choice([0, 1, 3, 10]))]}
        r = misc_check(c)
        n += 1
        if r:
            fails.append(r)
    return n, fails



# ---------------------------------------------------------------------------------------------- histories on one object

def i2c_fields_dict(f):
    d = {'version': f['version'], 'radio_channel': f['channel'], 'radio_speed': f['speed'],
         'pitch_trim': f32(f['pitch']), 'roll_trim': f32(f['roll'])}
    if f.get('addr') is not None:
        d['radio_address'] = f['addr']
    return d


def i2c_elements_obs(e):
    if not e:
        return None
    return {'version': e['version'], 'channel': e['radio_channel'], 'speed': e['radio_speed'],
            'pitch': bits32(e['pitch_trim']), 'roll': bits32(e['roll_trim']), 'addr': e.get('radio_address')}


def i2c_hist_impl(ops):
    """one I2CElement, one device; ops: ['update'] ['write', fields] ['corrupt', p, v] ['setmem', bytes] ['disconnect'].
    Returns per op {'valid', 'cbs', 'n', 'fields'}; n = read requests of an update, 1 / -1 for an accepted / raising write"""
    from cflib.crazyflie.mem.i2c_element import I2CElement
    fake = MemFake(b'')
    el = I2CElement(id=0, type=0, size=8192, mem_handler=fake)
    called, obs = [], []
    for op in ops:
        n, r0 = 0, len(fake.reads)
        try:
            if op[0] == 'update':
                el.update(lambda m: called.append(m.valid))
                fake.run()
                n = len(fake.reads) - r0
            elif op[0] == 'write':
                el.elements = i2c_fields_dict(op[1])
                n = -1
                el.write_data(lambda *a: None)
                fake.run()
                n = 1
            elif op[0] == 'corrupt':
                if op[1] < len(fake.mem):
                    fake.mem[op[1]] = op[2]
            elif op[0] == 'setmem':
                fake.mem[:] = bytes(op[1])
            elif op[0] == 'disconnect':
                el.disconnect()
        except (struct.error, KeyError, OverflowError):
            fake.queue[:] = []
        obs.append({'valid': bool(el.valid), 'cbs': len(called), 'n': n, 'fields': i2c_elements_obs(el.elements)})
    return obs


def i2c_hist_enc(obs):
    out = []
    for o in obs:
        out += [int(o['valid']), o['cbs'], o['n']]
        f = o['fields']
        out += [0] if f is None else [1, f['version'], f['channel'], f['speed'], f['pitch'], f['roll'], -1 if f['addr'] is None else f['addr']]
    return out


def i2c_hist_term(ops):
    ts = []
    for op in ops:
        if op[0] == 'update':
            ts.append('IUpdate')
        elif op[0] == 'write':
            ts.append('IWrite %s' % i2c_fields_term(op[1]))
        elif op[0] == 'corrupt':
            ts.append('ICorrupt %d %d' % (op[1], op[2]))
        elif op[0] == 'setmem':
            ts.append('ISetMem %s' % ZL(op[1]))
        else:
            ts.append('IDisconnect')
    return 'enc_itrace (i2c_trace (ist_init, []) [%s])' % '; '.join(ts)


def _snan_free(mem, offsets):
    m = bytearray(mem)
    return bytes(_quiet(bytearray(m), offsets)) == bytes(m)


def i2c_sim_write(mem, f):
    """generator-side device simulation (independent of the model): the image the firmware layout prescribes, or None"""
    try:
        if f['version'] in (0, 1):
            if not (0 <= f['channel'] < 256 and 0 <= f['speed'] < 256):
                return None
            if f['version'] == 1 and not (0 <= f['addr'] < (1 << 40)):
                return None
            img = i2c_ref_image(f)
        else:
            img = TOKEN + bytes([sum(TOKEN) & 0xFF])
    except Exception:  # noqa
        return None
    return img + bytes(mem[len(img):])


def i2c_rnd_history(rng, wedge=True):
    """ops + the device image after each op (generator-side simulation)"""
    ops, mems = [], []
    mem = b''
    first = rng.random()
    if first < 0.3:
        mem, _ = i2c_rnd_mem(rng)
        while len(mem) < 21:
            mem, _ = i2c_rnd_mem(rng)
        ops.append(['setmem', list(mem)])
    else:
        f = i2c_rnd_fields(rng)
        mem = i2c_sim_write(mem, f) + bytes(rng.getrandbits(8) for _ in range(rng.choice([0, 5, 6]) if wedge else rng.choice([5, 6, 11])))
        ops.append(['setmem', list(mem)])
    mems.append(mem)
    for _ in range(rng.randrange(2, 9)):
        r = rng.random()
        if r < 0.42:
            op = ['update']
        elif r < 0.60:
            f = i2c_rnd_fields(rng, wf=(rng.random() < 0.85 or not wedge))
            if not wedge and f['version'] not in (0, 1):
                f['version'] = 0
            new = i2c_sim_write(mem, f)
            op = ['write', f]
            if new is not None:
                mem = new
        elif r < 0.85 and mem:
            for _try in range(8):
                p = min(rng.choice([rng.randrange(len(mem)), rng.randrange(min(len(mem), 21)), 4]), len(mem) - 1)
                v = rng.choice([rng.getrandbits(8), mem[p] ^ 1, 0, 1, 255, mem[p] ^ 0x80])
                if not wedge and p == 4 and v not in (0, 1):
                    continue
                cand = bytearray(mem)
                cand[p] = v
                if v != mem[p] and _snan_free(cand, (7, 11)):
                    break
            else:
                continue
            op = ['corrupt', p, v]
            mem = bytes(cand)
        elif r < 0.92:
            m2, _ = i2c_rnd_mem(rng)
            if len(m2) < 21 and not wedge:
                continue
            mem = m2
            op = ['setmem', list(mem)]
        else:
            op = ['disconnect']
        ops.append(op)
        mems.append(mem)
    if ops[-1][0] != 'update':
        ops.append(['update'])
        mems.append(mem)
    return ops, mems


def i2c_expected_fields(mem):
    """independent decode of the fields of a valid image"""
    f = {'version': mem[4], 'channel': mem[5], 'speed': mem[6], 'pitch': int.from_bytes(mem[7:11], 'little'),
         'roll': int.from_bytes(mem[11:15], 'little'), 'addr': None}
    if mem[4] == 1:
        f['addr'] = mem[15] << 32 | int.from_bytes(mem[16:20], 'little')
    return f


def i2c_hist_check(c):
    """property text on a history: after every update() the verdict is the checksum verdict of the device image at that
    moment, and a valid verdict comes with exactly the fields of that image"""
    ops = c['ops']
    obs = i2c_hist_impl(ops)
    mem = b''
    unfinished = False              # an earlier update met an unknown version byte / a failing read, no disconnect since
    for k, (op, o) in enumerate(zip(ops, obs)):
        if op[0] == 'write':
            new = i2c_sim_write(mem, op[1])
            mem = new if new is not None else mem
        elif op[0] == 'corrupt':
            if op[1] < len(mem):
                mem = mem[:op[1]] + bytes([op[2]]) + mem[op[1] + 1:]
        elif op[0] == 'setmem':
            mem = bytes(op[1])
        elif op[0] == 'disconnect':
            unfinished = False
        elif op[0] == 'update':
            if len(mem) < 21:
                return None         # a read request fails (device error): outside this oracle, covered by the tie
            want = i2c_expected_valid(mem)
            if o['valid'] != want:
                cls = 'i2c_valid_not_last_read'
                if unfinished and want and not o['valid'] and o['n'] == 0:
                    cls = 'i2c_update_ignored_after_unfinished_read'
                return {'class': cls, 'case': c, 'expected': {'op': k, 'valid': want, 'device': list(mem)}, 'observed': o,
                        'detail': 'after update() number %d of the history valid must be the checksum verdict of the image the device holds then' % k}
            if want:
                wf = i2c_expected_fields(mem)
                if o['fields'] != wf:
                    cls = 'i2c_fields_not_last_read'
                    if wf['version'] == 0 and o['fields'] is not None and dict(o['fields'], addr=None) == wf:
                        cls = 'i2c_stale_radio_address_after_v0_reread'
                    return {'class': cls, 'case': c, 'expected': {'op': k, 'fields': wf}, 'observed': o,
                            'detail': 'a valid read must report exactly the fields of the image read'}
            if mem[0:4] == TOKEN and mem[4] not in (0, 1) and not unfinished:
                unfinished = True
    return None


def ow_hist_impl(ops):
    """one OWElement, one device; ops: ['update'] ['write', pins, vid, pid, els] ['corrupt', p, v] ['setmem', bytes] ['disconnect']"""
    from cflib.crazyflie.mem.ow_element import OWElement
    fake = MemFake(b'')
    el = OWElement(id=1, type=1, size=112, addr=0x1234, mem_handler=fake)
    called, obs = [], []
    for op in ops:
        n, r0, exc = 0, len(fake.reads), None
        try:
            if op[0] == 'update':
                try:
                    el.update(lambda m: called.append(m.valid))
                    fake.run()
                finally:
                    n = len(fake.reads) - r0
            elif op[0] == 'write':
                el.pins, el.vid, el.pid = op[1], op[2], op[3]
                el.elements = {OW_NAMES[k]: bytes(s).decode('ISO-8859-1') for k, s in op[4]}
                n = -1
                el.write_data(lambda *a: None)
                fake.run()
                n = 1
            elif op[0] == 'corrupt':
                if op[1] < len(fake.mem):
                    fake.mem[op[1]] = op[2]
            elif op[0] == 'setmem':
                fake.mem[:] = bytes(op[1])
            elif op[0] == 'disconnect':
                el.disconnect()
        except Exception as e:  # noqa
            fake.queue[:] = []
            if op[0] == 'update':
                exc = exc_kind(e)
        hdr = [-1, -1, -1] if el.pins is None else [el.pins, el.vid, el.pid]
        obs.append({'valid': bool(el.valid), 'cbs': len(called), 'n': n, 'exc': exc, 'hdr': hdr,
                    'elements': [[OW_IDS[k], list(v.encode('ISO-8859-1'))] for k, v in el.elements.items()]})
    return obs


def ow_hist_enc(obs):
    out = []
    for o in obs:
        out += [int(o['valid']), o['cbs'], o['n'], EXC_CODE.get(o['exc'], 9)] + o['hdr'] + [len(o['elements'])]
        for k, sv in o['elements']:
            out += [k, len(sv)] + list(sv)
    return out


def ow_hist_term(ops):
    ts = []
    for op in ops:
        if op[0] == 'update':
            ts.append('OUpdate')
        elif op[0] == 'write':
            ts.append('OWrite %s %s %s %s' % (Z(op[1]), Z(op[2]), Z(op[3]), ow_dict_term(op[4])))
        elif op[0] == 'corrupt':
            ts.append('OCorrupt %d %d' % (op[1], op[2]))
        elif op[0] == 'setmem':
            ts.append('OSetMem %s' % ZL(op[1]))
        else:
            ts.append('ODisconnect')
    return 'enc_otrace (ow_trace (ost_init, []) [%s])' % '; '.join(ts)


def ow_sim_write(mem, pins, vid, pid, els):
    if not (0 <= pins < (1 << 32) and 0 <= vid < 256 and 0 <= pid < 256):
        return None
    if any(len(sv) > 255 for _, sv in els) or sum(len(sv) + 2 for _, sv in els) > 255:
        return None
    img = ow_ref_image(pins, vid, pid, list(reversed(els)))
    return img + bytes(mem[len(img):])


def ow_rnd_history(rng, wedge=True):
    ops = []
    mem = b''
    for step in range(rng.randrange(3, 9)):
        r = rng.random() if step else 0.5
        if r < 0.40 and mem:
            if not wedge and ow_status(mem) != 'ok':
                continue
            op = ['update']
        elif r < 0.62:
            pins, vid, pid, els = ow_rnd_content(rng, wf=(rng.random() < 0.9 or not wedge))
            while sum(len(sv) + 2 for _, sv in els) > 90:
                els = els[:-1]
            els = [(k, list(sv)) for k, sv in els]
            new = ow_sim_write(mem, pins, vid, pid, els)
            op = ['write', pins, vid, pid, [[k, sv] for k, sv in els]]
            if new is not None:
                mem = new
        elif r < 0.82 and mem:
            p = rng.choice([rng.randrange(len(mem)), rng.randrange(min(len(mem), 14))])
            v = rng.choice([rng.getrandbits(8), mem[p] ^ 1, 0, 255])
            if v == mem[p]:
                continue
            op = ['corrupt', p, v]
            mem = mem[:p] + bytes([v]) + mem[p + 1:]
        elif r < 0.93:
            m2, _ = ow_rnd_mem(rng, size=rng.choice([64, 112]))
            if len(m2) < 11 and not wedge:
                continue
            mem = m2
            op = ['setmem', list(mem)]
        else:
            op = ['disconnect']
        ops.append(op)
    if ops[-1][0] != 'update' and (wedge or ow_status(mem) == 'ok'):
        ops.append(['update'])
    return ops


def ow_hist_check(c):
    ops = [list(o) for o in c['ops']]
    for o in ops:
        if o[0] == 'write':
            o[4] = [(k, list(sv)) for k, sv in o[4]]
    obs = ow_hist_impl(ops)
    mem = b''
    for k, (op, o) in enumerate(zip(ops, obs)):
        if op[0] == 'write':
            new = ow_sim_write(mem, op[1], op[2], op[3], op[4])
            mem = new if new is not None else mem
        elif op[0] == 'corrupt':
            if op[1] < len(mem):
                mem = mem[:op[1]] + bytes([op[2]]) + mem[op[1] + 1:]
        elif op[0] == 'setmem':
            mem = bytes(op[1])
        elif op[0] == 'update':
            if ow_status(mem) != 'ok':
                return None                     # a read that never completes: outside this oracle (covered by the tie)
            want, d = ow_expected(mem)
            if o['valid'] != want or o['exc']:
                return {'class': 'ow_valid_not_last_read', 'case': c, 'expected': {'op': k, 'valid': want, 'device': list(mem)},
                        'observed': o, 'detail': 'after update() number %d valid must be the CRC verdict of the image the device holds then' % k}
            if want:
                got = {kk: sv for kk, sv in o['elements']}
                hdr = [int.from_bytes(mem[1:5], 'little'), mem[5], mem[6]]
                if got != d or o['hdr'] != hdr:
                    cls = 'ow_elements_not_last_read'
                    if o['hdr'] == hdr and all(got.get(kk) == sv for kk, sv in d.items()) and len(got) > len(d):
                        cls = 'ow_stale_elements_after_reread'
                    return {'class': cls, 'case': c, 'expected': {'op': k, 'elements': d, 'hdr': hdr}, 'observed': o,
                            'detail': 'a valid read must report exactly the elements of the image read'}
    return None


def hist_tie(ctx, cases):
    rng = ctx.rng
    n = ctx.scale(90, 1500)
    for i in range(n):
        ops, _ = i2c_rnd_history(rng)
        cases.add('i2c_history', i2c_hist_term(ops), i2c_hist_enc(i2c_hist_impl(ops)), {'i2c_history': ops},
                  nontrivial=sum(1 for o in ops if o[0] == 'update') >= 2)
    for i in range(n):
        ops = ow_rnd_history(rng)
        cases.add('ow_history', ow_hist_term(ops), ow_hist_enc(ow_hist_impl(ops)), {'ow_history': ops},
                  nontrivial=sum(1 for o in ops if o[0] == 'update') >= 2)
    return {'i2c_history': n, 'ow_history': n}


def hist_oracle(ctx, deep):
    rng = ctx.rng
    fails, n = [], 0
    for i in range(ctx.scale(400, 4000) * (3 if deep else 1)):
        if i % 2 == 0:
            ops, _ = i2c_rnd_history(rng, wedge=(i % 8 == 0))
            r = i2c_hist_check({'codec': 'i2c', 'op': 'history', 'ops': ops})
        else:
            r = ow_hist_check({'codec': 'ow', 'op': 'history', 'ops': ow_rnd_history(rng, wedge=False)})
        n += 1
        if r:
            fails.append(r)
    return n, fails



# ---------------------------------------------------------------------------------------------- across the representations

def plain_domain_violation(x, path='$'):
    """None if x is inside the data domain of the YAML hypothesis (None/bool/int/str, non-NaN float, list, dict with
    str/int keys, recursively; exact types), else a description of the first offending node"""
    t = type(x)
    if x is None or t in (bool, int, str):
        return None
    if t is float:
        return None if x == x else '%s: NaN' % path
    if t is list:
        for k, v in enumerate(x):
            r = plain_domain_violation(v, '%s[%d]' % (path, k))
            if r:
                return r
        return None
    if t is dict:
        for k, v in x.items():
            if type(k) not in (str, int):
                return '%s: key %r of type %s' % (path, k, type(k).__name__)
            r = plain_domain_violation(v, '%s[%r]' % (path, k))
            if r:
                return r
        return None
    return '%s: %s (%s)' % (path, t.__name__, repr(x)[:60])


class _OneMem:
    """what LighthouseMemHelper needs from a Crazyflie: cf.mem.get_mems(type) -> [the lighthouse memory]"""

    def __init__(self, m):
        self.mem = self
        self._m = m

    def get_mems(self, t):
        return [self._m]


def rnd_f32_number(rng):
    while True:
        b = rnd_f32(rng)
        if not ((b >> 23) & 0xFF == 0xFF and (b & 0x7FFFFF)):
            return b


def lh_device(case):
    mem = bytearray(0x2000)
    for bs, (fl, valid) in case['geos'].items():
        img = _fw_geo_layout(fl, valid)
        mem[0x100 * int(bs):0x100 * int(bs) + len(img)] = img
    for bs, (fl, uid, valid) in case['calibs'].items():
        img = _fw_calib_layout(fl, uid, valid)
        mem[0x1000 + 0x100 * int(bs):0x1000 + 0x100 * int(bs) + len(img)] = img
    return mem


def lh_pipeline(case, fn, spy=False):
    """memory images -> LighthouseMemHelper.read_all_geos/calibs -> LighthouseConfigFileManager.write (a real file, the real
    yaml unless spy) -> read -> LighthouseMemHelper.write_geos/write_calibs to an empty device.
    Returns dict(dev2=bytes, st=..., keys=(geo ids, calib ids), dumped=..., loaded=...)"""
    from cflib.crazyflie.mem.lighthouse_memory import LighthouseMemHelper
    import cflib.localization.lighthouse_config_manager as mod
    fake = MemFake(lh_device(case), grow=False)
    helper = LighthouseMemHelper(_OneMem(_lh_mem(fake)))
    got = {}
    helper.read_all_geos(lambda d: got.__setitem__('geos', d))
    fake.run()
    helper.read_all_calibs(lambda d: got.__setitem__('calibs', d))
    fake.run()
    out = {'read_geos': sorted(got['geos'].keys()), 'read_calibs': sorted(got['calibs'].keys())}
    spyobj = _YamlSpy() if spy else None
    old = mod.yaml
    if spy:
        mod.yaml = spyobj
    try:
        mod.LighthouseConfigFileManager.write(fn, geos=got['geos'], calibs=got['calibs'], system_type=case['st'])
        g2, c2, st2 = mod.LighthouseConfigFileManager.read(fn)
    finally:
        mod.yaml = old
    if spy:
        out['dumped'], out['loaded'] = spyobj.dumped[0], spyobj.loaded[0]
    fake2 = MemFake(bytearray(0x2000), grow=False)
    helper2 = LighthouseMemHelper(_OneMem(_lh_mem(fake2)))
    done = []
    helper2.write_geos(g2, lambda ok: done.append(ok))
    fake2.run()
    helper2.write_calibs(c2, lambda ok: done.append(ok))
    fake2.run()
    out.update({'dev2': bytes(fake2.mem), 'st': st2, 'keys': (sorted(g2.keys()), sorted(c2.keys())), 'done': done})
    return out


def lh_rnd_pipeline_case(rng):
    ids = sorted(rng.sample(range(16), rng.choice([1, 2, 2, 3, 6, 16])))
    geos, calibs = {}, {}
    for k in ids:
        if rng.random() < 0.85:
            geos[str(k)] = [[rnd_f32_number(rng) for _ in range(12)], rng.random() < 0.75]
        if rng.random() < 0.85:
            calibs[str(k)] = [[rnd_f32_number(rng) for _ in range(14)], rng.choice([0, 0xFFFFFFFF, rng.getrandbits(32)]), rng.random() < 0.75]
    return {'codec': 'cross', 'op': 'lh_mem_file_mem', 'geos': geos, 'calibs': calibs, 'st': rng.choice([1, 2])}


def cross_check(c):
    """the property text across the representations, on real files with the real PyYAML"""
    tmp = _tmpdir()
    try:
        if c['op'] == 'lh_mem_file_mem':
            fn = os.path.join(tmp, 'x_lh.yaml')
            try:
                r = lh_pipeline(c, fn)
            except Exception as e:  # noqa
                # which data did the library try to write?  (second run with the recorder, for the report only)
                where = ''
                try:
                    lh_pipeline(c, fn, spy=True)
                except Exception:  # noqa
                    pass
                return {'class': 'lh_memory_file_memory_fails', 'case': c, 'expected': 'the configuration read from memory can be written to a file and read back',
                        'observed': '%s: %s' % (type(e).__name__, str(e)[:300]) + where,
                        'detail': 'memory image -> read_all_geos/calibs -> LighthouseConfigFileManager.write -> read raised'}
            dev1 = lh_device(c)
            want_g = sorted(int(k) for k, v in c['geos'].items() if v[1])
            want_c = sorted(int(k) for k, v in c['calibs'].items() if v[2])
            bad = None
            if r['keys'] != (want_g, want_c) or r['st'] != c['st'] or r['done'] != [True, True]:
                bad = {'keys': r['keys'], 'st': r['st'], 'done': r['done']}
            else:
                for k in want_g:
                    if r['dev2'][0x100 * k:0x100 * k + 49] != bytes(dev1[0x100 * k:0x100 * k + 49]):
                        bad = {'geo': k, 'bytes': list(r['dev2'][0x100 * k:0x100 * k + 49])}
                for k in want_c:
                    a = 0x1000 + 0x100 * k
                    if r['dev2'][a:a + 61] != bytes(dev1[a:a + 61]):
                        bad = {'calib': k, 'bytes': list(r['dev2'][a:a + 61])}
            if bad:
                return {'class': 'lh_memory_file_memory_differs', 'case': c, 'expected': {'geos': want_g, 'calibs': want_c, 'st': c['st']},
                        'observed': bad, 'detail': 'valid base stations must come back from the file with the same memory bytes'}
            # the data domain of the YAML hypothesis
            r2 = lh_pipeline(c, fn, spy=True)
            v = plain_domain_violation(r2['dumped'])
            if v:
                return {'class': 'yaml_data_outside_plain_domain', 'case': c, 'expected': 'plain data handed to yaml.dump', 'observed': v}
            return None
        if c['op'] == 'param_layer_file':
            return param_layer_check(c, tmp)
    finally:
        _cleanup_tmp()
    return None


def param_state_from_reply(pytype, payload, is_stored):
    """the decoding of Param.persistent_get_state's reply handler (cflib/crazyflie/param.py), on the value bytes"""
    from cflib.crazyflie.param import PersistentParamState
    if not is_stored:
        default_value, = struct.unpack(pytype, payload)
        stored_value = None
    else:
        default_value, stored_value = struct.unpack('<%s' % (pytype[1:] * 2), payload)
    return PersistentParamState(is_stored, default_value, stored_value if is_stored else None)


def param_layer_check(c, tmp):
    import yaml
    import cflib.localization.param_io as mod
    params = {}
    for name, (pytype, payload, stored) in c['params'].items():
        params[name] = param_state_from_reply(pytype, bytes(payload), stored)
    fn = os.path.join(tmp, 'x_p.yaml')
    try:
        mod.ParamFileManager.write(fn, params=params)
        back = mod.ParamFileManager.read(fn)
    except Exception as e:  # noqa
        return {'class': 'param_layer_file_fails', 'case': c, 'expected': 'file round trip', 'observed': '%s: %s' % (type(e).__name__, str(e)[:300])}
    if set(back) != set(params) or any(not plain_eq(list(back[k]), list(params[k])) for k in params):
        return {'class': 'param_layer_file_differs', 'case': c, 'expected': repr(params)[:500], 'observed': repr(back)[:500]}
    with open(fn) as f:
        v = plain_domain_violation(yaml.safe_load(f))
    for st in params.values():
        v = v or plain_domain_violation(list(st))
    if v:
        return {'class': 'yaml_data_outside_plain_domain', 'case': c, 'expected': 'plain data', 'observed': v}
    return None


def rnd_param_layer_case(rng):
    from cflib.crazyflie.param import ParamTocElement
    types = [t for (_, t) in ParamTocElement.types.values() if t]
    params = {}
    for k in range(rng.randrange(1, 6)):
        pt = rng.choice(types)
        size = struct.calcsize(pt)
        stored = rng.random() < 0.6
        while True:
            payload = bytes(rng.getrandbits(8) for _ in range(size * (2 if stored else 1)))
            vals = struct.unpack('<%s' % (pt[1:] * (2 if stored else 1)), payload)
            if all(v == v for v in vals):              # no NaN
                break
        params['grp%d.par%d' % (k, rng.randrange(100))] = [pt, list(payload), stored]
    return {'codec': 'cross', 'op': 'param_layer_file', 'params': params}


def cross_tie(ctx, cases):
    """model next to the code for the two conversions: memory image -> data handed to yaml.dump, and document loaded from
    the file -> bytes written back to memory"""
    rng = ctx.rng
    tmp = _tmpdir()
    fn = os.path.join(tmp, 't_lh.yaml')
    n = ctx.scale(12, 150)
    cnt = 0
    for i in range(n):
        c = lh_rnd_pipeline_case(rng)
        r = lh_pipeline(c, fn, spy=True)
        for bs, (fl, valid) in c['geos'].items():
            k = int(bs)
            img = _fw_geo_layout(fl, valid)
            exp = yv_enc(r['dumped']['geos'][k]) if valid else [-7]
            cases.add('x_geo_mem_to_file', 'match geo_unpack %s with Some g => if g_valid g then enc_yv (geo_file_object (geo_obj_of_mem widen32 g)) '
                      'else [-7] | None => [-1] end' % ZL(img), exp, {'x_geo_mem_to_file': [k, fl, valid]}, nontrivial=valid)
            if valid:
                back = r['dev2'][0x100 * k:0x100 * k + 49]
                cases.add('x_geo_file_to_mem', 'match geo_from_file_object %s with Some f => enc_ogeo (geo_mem_of_obj narrow32 f) | None => [-2] end'
                          % py2yv(r['loaded']['geos'][k]), [1] + list(back), {'x_geo_file_to_mem': k})
            cnt += 1
        for bs, (fl, uid, valid) in c['calibs'].items():
            k = int(bs)
            img = _fw_calib_layout(fl, uid, valid)
            exp = yv_enc(r['dumped']['calibs'][k]) if valid else [-7]
            cases.add('x_calib_mem_to_file', 'match calib_unpack %s with Some c => if c_valid c then enc_yv (calib_file_object (calib_obj_of_mem widen32 c)) '
                      'else [-7] | None => [-1] end' % ZL(img), exp, {'x_calib_mem_to_file': [k, fl, uid, valid]}, nontrivial=valid)
            if valid:
                a = 0x1000 + 0x100 * k
                cases.add('x_calib_file_to_mem', 'match calib_from_file_object %s with Some f => enc_ocalib (calib_mem_of_obj narrow32 f) | None => [-2] end'
                          % py2yv(r['loaded']['calibs'][k]), [1] + list(r['dev2'][a:a + 61]), {'x_calib_file_to_mem': k})
            cnt += 1
    _cleanup_tmp()
    return {'pipelines': n, 'objects': cnt}


def cross_oracle(ctx, deep):
    rng = ctx.rng
    fails, n = [], 0
    for i in range(ctx.scale(40, 400) * (2 if deep else 1)):
        c = lh_rnd_pipeline_case(rng) if i % 4 != 3 else rnd_param_layer_case(rng)
        r = cross_check(c)
        n += 1
        if r:
            fails.append(r)
    return n, fails



# ---------------------------------------------------------------------------------------------- write histories (write-only images)

def telem_make(spec):
    """a real Poly4D / CompressedStart / CompressedSegment for a spec:
    ['poly', [[8 bits]*4], dur_bits] | ['start', [[v, x]*3], [yv, angle]] | ['seg', dms, [[v, x]..]*3, [[yv, angle]..]]"""
    from cflib.crazyflie.mem.trajectory_memory import Poly4D, CompressedStart, CompressedSegment
    if spec[0] == 'poly':
        return Poly4D(f32(spec[2]), *[Poly4D.Poly([f32(b) for b in q]) for q in spec[1]])
    if spec[0] == 'start':
        return CompressedStart(spec[1][0][1], spec[1][1][1], spec[1][2][1], spec[2][1])
    return CompressedSegment(spec[1] / 1000.0, [v[1] for v in spec[2][0]], [v[1] for v in spec[2][1]], [v[1] for v in spec[2][2]],
                             [v[1] for v in spec[3]])


def telem_assign(obj, spec):
    """change the fields of an existing object to those of spec (same kind)"""
    from cflib.crazyflie.mem.trajectory_memory import Poly4D
    if spec[0] == 'poly':
        obj.duration = f32(spec[2])
        obj.x, obj.y, obj.z, obj.yaw = [Poly4D.Poly([f32(b) for b in q]) for q in spec[1]]
    elif spec[0] == 'start':
        obj.x, obj.y, obj.z, obj.yaw = spec[1][0][1], spec[1][1][1], spec[1][2][1], spec[2][1]
    else:
        obj.duration = spec[1] / 1000.0
        obj.x, obj.y, obj.z = [[v[1] for v in el] for el in spec[2]]
        obj.yaw = [v[1] for v in spec[3]]


def telem_term(spec):
    if spec[0] == 'poly':
        return '(TPoly %s %s %s %s %d)' % (ZL(spec[1][0]), ZL(spec[1][1]), ZL(spec[1][2]), ZL(spec[1][3]), spec[2])
    if spec[0] == 'start':
        return '(TStart %s %s %s %s)' % (Z(spec[1][0][0]), Z(spec[1][1][0]), Z(spec[1][2][0]), Z(spec[2][0]))
    return '(TSeg %d %s %s %s %s)' % (spec[1], ZL([v[0] for v in spec[2][0]]), ZL([v[0] for v in spec[2][1]]),
                                      ZL([v[0] for v in spec[2][2]]), ZL([v[0] for v in spec[3]]))


def telem_ref_bytes(spec):
    """independent statement of the firmware layouts; None when a value does not fit its field"""
    import numpy as np
    try:
        if spec[0] == 'poly':
            return np.array([b for q in spec[1] for b in q] + [spec[2]], dtype='<u4').tobytes()
        if spec[0] == 'start':
            return struct.pack('<hhhh', spec[1][0][0], spec[1][1][0], spec[1][2][0], spec[2][0])
        tcode = {0: 0, 1: 1, 3: 2, 7: 3}
        out = bytes([tcode[len(spec[2][0])] | tcode[len(spec[2][1])] << 2 | tcode[len(spec[2][2])] << 4 | tcode[len(spec[3])] << 6])
        out += struct.pack('<H', spec[1])
        for el in spec[2] + [spec[3]]:
            for v in el:
                out += struct.pack('<h', v[0])
        return out
    except struct.error:
        return None


def rnd_telem(rng, kind, wide=False):
    if kind == 'poly':
        return ['poly', [[rnd_f32(rng) for _ in range(8)] for _ in range(4)], rnd_f32(rng)]
    if kind == 'start':
        return ['start', [list(rnd_i16_scaled(rng, wide)) for _ in range(3)], list(rnd_yaw(rng))]
    while True:
        dms = rng.choice([0, 1, 1000, 65535, rng.randrange(65536)])
        if int((dms / 1000.0) * 1000.0) == dms:
            break
    return ['seg', dms, [[list(rnd_i16_scaled(rng, wide)) for _ in range(rng.choice([0, 1, 3, 7]))] for _ in range(3)],
            [list(rnd_yaw(rng)) for _ in range(rng.choice([0, 1, 3, 7]))]]


def traj_rnd_history(rng, wide=True):
    """pool of piece objects + ops ['write', start_addr, [pool indices]] / ['assign', index, new spec]"""
    compressed = rng.random() < 0.6
    pool = []
    if compressed:
        pool.append(rnd_telem(rng, 'start', wide and rng.random() < 0.1))
        for _ in range(rng.randrange(1, 5)):
            pool.append(rnd_telem(rng, 'seg', wide and rng.random() < 0.1))
    else:
        for _ in range(rng.randrange(1, 4)):
            pool.append(rnd_telem(rng, 'poly'))
    ops = []
    idx = list(range(len(pool)))
    for k in range(rng.randrange(2, 5)):
        r = rng.random()
        if k and r < 0.3:
            i = rng.randrange(len(pool))
            ops.append(['assign', i, rnd_telem(rng, pool[i][0], False)])
        if k and r > 0.8:
            sub = sorted(rng.sample(idx, rng.randrange(1, len(idx) + 1)))
            if compressed and 0 not in sub:
                sub = [0] + sub
        else:
            sub = idx
        ops.append(['write', rng.choice([0, 0, 132, 400, 1000, rng.randrange(0, 3000)]) if k else 0, sub])
    return {'pool': pool, 'ops': ops}


def traj_hist_impl(h):
    """one TrajectoryMemory, one set of piece objects; per write: [addr, bytes, returned count] or 'raise'"""
    from cflib.crazyflie.mem.trajectory_memory import TrajectoryMemory
    fake = MemFake()
    m = TrajectoryMemory(id=2, type=0x12, size=4096, mem_handler=fake)
    objs = [telem_make(sp) for sp in h['pool']]
    out = []
    for op in h['ops']:
        if op[0] == 'assign':
            telem_assign(objs[op[1]], op[2])
            continue
        m.trajectory = [objs[i] for i in op[2]]
        w0 = len(fake.writes)
        try:
            n = m.write_data(lambda *a: None, start_addr=op[1])
            fake.run()
        except (struct.error, OverflowError):
            fake.queue[:] = []
            out.append('raise')
            continue
        (addr, data, fl), = fake.writes[w0:]
        out.append([addr, data, n, fl])
    return out


def traj_hist_specs(h):
    """the field values current at each write"""
    cur = [sp for sp in h['pool']]
    res = []
    for op in h['ops']:
        if op[0] == 'assign':
            cur = list(cur)
            cur[op[1]] = op[2]
        else:
            res.append((op[1], [cur[i] for i in op[2]]))
    return res


def rnd_led_history(rng):
    if rng.random() < 0.5:
        ops = []
        for _ in range(rng.randrange(3, 9)):
            r = rng.random()
            if r < 0.45:
                ops.append(['add', rnd_timing(rng)])
            elif r < 0.8:
                ops.append(['write'])
            elif r < 0.93:
                ops.append(['replace', rng.randrange(8), rnd_timing(rng)])
            else:
                ops.append(['clear'])
        return {'kind': 'timings', 'ops': ops + [['write'], ['write']]}
    ops = []
    for _ in range(rng.randrange(3, 9)):
        r = rng.random()
        if r < 0.35:
            ops.append(['set', rng.randrange(12), rng.randrange(256), rng.randrange(256), rng.randrange(256),
                        rng.choice([None, None, 100, 50, 1, rng.randrange(1, 101)])])
        elif r < 0.6:
            ops.append(['attr', rng.randrange(12), rng.randrange(256), rng.randrange(256), rng.randrange(256), rng.choice([0, 100, rng.randrange(0, 101)])])
        else:
            ops.append(['write'])
    return {'kind': 'ring', 'ops': ops + [['write'], ['write']]}


def led_hist_impl(h, quirk_set_zero=False):
    """one memory object written repeatedly; returns (images, field values current at each write)"""
    images, states = [], []
    fake = MemFake()
    if h['kind'] == 'timings':
        from cflib.crazyflie.mem.led_timings_driver_memory import LEDTimingsDriverMemory
        m = LEDTimingsDriverMemory(id=7, type=0x17, size=2000, mem_handler=fake)
        cur = []
        for op in h['ops']:
            if op[0] == 'add':
                t = op[1]
                m.add(time=t[0], rgb={'r': t[1], 'g': t[2], 'b': t[3]}, leds=t[4], fade=t[5], rotate=t[6])
                cur = cur + [t]
            elif op[0] == 'replace':
                if op[1] < len(cur):
                    t = op[2]
                    m.timings[op[1]] = {'time': t[0], 'rgb': {'r': t[1], 'g': t[2], 'b': t[3]}, 'leds': t[4], 'fade': t[5], 'rotate': t[6]}
                    cur = cur[:op[1]] + [t] + cur[op[1] + 1:]
            elif op[0] == 'clear':
                m.timings = []
                cur = []
            else:
                w0 = len(fake.writes)
                m.write_data(lambda *a: None)
                fake.run()
                (addr, data, fl), = fake.writes[w0:]
                images.append([addr, data, fl])
                states.append(list(cur))
        return images, states
    from cflib.crazyflie.mem.led_driver_memory import LEDDriverMemory
    m = LEDDriverMemory(id=4, type=0x10, size=24, mem_handler=fake)
    cur = [[0, 0, 0, 100] for _ in range(12)]
    for op in h['ops']:
        if op[0] == 'set':
            m.leds[op[1]].set(op[2], op[3], op[4], op[5])
            cur = [list(c) for c in cur]
            cur[op[1]] = [op[2], op[3], op[4], op[5] if op[5] else cur[op[1]][3]]
        elif op[0] == 'attr':
            led = m.leds[op[1]]
            led.r, led.g, led.b, led.intensity = op[2], op[3], op[4], op[5]
            cur = [list(c) for c in cur]
            cur[op[1]] = [op[2], op[3], op[4], op[5]]
        else:
            w0 = len(fake.writes)
            m.write_data(lambda *a: None)
            fake.run()
            (addr, data, fl), = fake.writes[w0:]
            images.append([addr, data, fl])
            states.append([list(c) for c in cur])
    return images, states


def whist_tie(ctx, cases):
    rng = ctx.rng
    n = ctx.scale(36, 600)
    for i in range(n):
        h = traj_rnd_history(rng)
        got = traj_hist_impl(h)
        terms, exp = [], []
        for (start, specs), g in zip(traj_hist_specs(h), got):
            terms.append('match traj_write %d [%s] with Some (a, img, k) => a :: k :: img | None => [-1] end'
                         % (start, '; '.join(telem_term(sp) for sp in specs)))
            exp.append([-1] if g == 'raise' else [g[0], g[2]] + list(g[1]))
        cases.add('traj_history', 'flat [%s]' % '; '.join(terms), coqrun.flat(exp), {'traj_history': repr(h)[:600]},
                  nontrivial=len(exp) >= 2)
    for i in range(n):
        h = rnd_led_history(rng)
        images, states = led_hist_impl(h)
        terms = []
        for st in states:
            if h['kind'] == 'timings':
                terms.append('timings_write [%s]' % '; '.join('mk_timing %d %d %d %d %d %d %d' % (t[0], t[1], t[2], t[3], t[4], int(t[5]), t[6]) for t in st))
            else:
                terms.append('ring_write [%s]' % '; '.join('mk_led %d %d %d %d' % tuple(c) for c in st))
        cases.add('led_history', 'flat [%s]' % '; '.join(terms), coqrun.flat([list(im[1]) for im in images]), {'led_history': repr(h)[:600]},
                  nontrivial=len(images) >= 2)
    # LED.set: None and 0 leave the intensity alone
    for i in range(ctx.scale(10, 60)):
        old = [rng.randrange(256), rng.randrange(256), rng.randrange(256), rng.randrange(0, 101)]
        new = [rng.randrange(256), rng.randrange(256), rng.randrange(256), rng.choice([None, 0, 1, 100, rng.randrange(0, 101)])]
        from cflib.crazyflie.mem.led_driver_memory import LED
        led = LED()
        led.r, led.g, led.b, led.intensity = old
        led.set(*new)
        cases.add('led_set', 'let l := led_set (mk_led %d %d %d %d) %d %d %d %s in [l_r l; l_g l; l_b l; l_int l]'
                  % (old[0], old[1], old[2], old[3], new[0], new[1], new[2], 'None' if new[3] is None else '(Some %d)' % new[3]),
                  [led.r, led.g, led.b, led.intensity], {'led_set': [old, new]})
    return {'traj_history': n, 'led_history': n}


def whist_check(c):
    """property text on a history of writes: every image is the firmware layout of the CURRENT field values"""
    if c['op'] == 'traj_history':
        got = traj_hist_impl(c)
        for k, ((start, specs), g) in enumerate(zip(traj_hist_specs(c), got)):
            parts = [telem_ref_bytes(sp) for sp in specs]
            want = None if any(p is None for p in parts) else b''.join(parts)
            if want is None:
                if g != 'raise':
                    return {'class': 'trajectory_write_accepts_unrepresentable', 'case': c, 'expected': {'write': k, 'raises': True}, 'observed': [g[0], list(g[1])]}
                continue
            if g == 'raise' or g[0] != start or bytes(g[1]) != want or g[2] != len(want) or not g[3]:
                return {'class': 'trajectory_rewrite_layout_differs' if k else 'trajectory_layout_differs', 'case': c,
                        'expected': {'write': k, 'addr': start, 'bytes': list(want), 'count': len(want)},
                        'observed': g if g == 'raise' else {'addr': g[0], 'bytes': list(g[1]), 'count': g[2]},
                        'detail': 'write_data number %d through the same TrajectoryMemory / piece objects must hand over the layout of the current fields' % k}
        return None
    images, states = led_hist_impl(c)
    for k, (im, st) in enumerate(zip(images, states)):
        if c['kind'] == 'timings':
            want = b''
            for t in st:
                led = _fw_rgb565(t[1], t[2], t[3])
                rec = bytes([t[0] & 0xFF, led >> 8, led & 0xFF, (t[4] & 0x0F) | ((int(t[5]) << 4) & 0x10) | ((t[6] << 5) & 0xE0)])
                if rec != bytes(4):
                    want += rec
            want += bytes(4)
        else:
            want = b''
            for (r, g, b, i) in st:
                r5 = ((((r & 0xFF) * 249 + 1014) >> 11) & 0x1F) * i // 100
                g6 = ((((g & 0xFF) * 253 + 505) >> 10) & 0x3F) * i // 100
                b5 = ((((b & 0xFF) * 249 + 1014) >> 11) & 0x1F) * i // 100
                w = r5 << 11 | g6 << 5 | b5
                want += bytes([w >> 8, w & 0xFF])
        if im[0] != 0 or bytes(im[1]) != want or not im[2]:
            return {'class': 'led_rewrite_layout_differs' if k else 'led_layout_differs', 'case': c,
                    'expected': {'write': k, 'bytes': list(want)}, 'observed': {'addr': im[0], 'bytes': list(im[1])},
                    'detail': 'write number %d through the same LED memory object must be the layout of the current content' % k}
    return None


def whist_oracle(ctx, deep):
    rng = ctx.rng
    fails, n = [], 0
    for i in range(ctx.scale(150, 1500) * (2 if deep else 1)):
        if i % 2 == 0:
            c = dict(traj_rnd_history(rng, wide=(i % 10 == 0)), codec='whist', op='traj_history')
        else:
            c = dict(rnd_led_history(rng), codec='whist', op='led_history')
            c['ops'] = [o for o in c['ops'] if not (o[0] == 'set' and o[5] == 0)]
        r = whist_check(c)
        n += 1
        if r:
            fails.append(r)
    return n, fails



# ---------------------------------------------------------------------------------------------- sequencing layer (helper / config writer)

SEQ_RAISE = {'Write already in prgress': 1, 'Write operation not finished': 2, 'Write operation already ongoing.': 3,
             'Geometry BS list is not valid': 4, 'Calibration BS list is not valid': 4,
             'Read operation already ongoing': 5, 'Read operation not finished': 6}


class _NoSleep:
    @staticmethod
    def sleep(t):
        pass


class SeqEnv:
    """a Crazyflie stand-in for LighthouseMemHelper / LighthouseConfigWriter: the real LighthouseMemory over the byte-array
    device, the real Localization object (persist packets are built and decoded by the library), a recorder for parameter
    writes.  The harness plays the device: it answers each queued memory request when told to."""

    def __init__(self, nr=16, devmem=None):
        from cflib.crazyflie.localization import Localization
        from cflib.localization import lighthouse_config_manager as mod
        from cflib.crazyflie.mem.lighthouse_memory import LighthouseMemHelper
        self.log = []
        self.fake = MemFake(devmem if devmem is not None else bytearray(0x2000), grow=False)
        self.lhmem = _lh_mem(self.fake)
        self.mem = self
        self.param = self
        self.loc = Localization(crazyflie=self)
        self._mod = mod
        self.writer = mod.LighthouseConfigWriter(self, nr_of_base_stations=nr)
        self.helper = LighthouseMemHelper(self)
        self._wmark = 0

    # -- what the library calls on a Crazyflie
    def get_mems(self, t):
        return [self.lhmem]

    def add_port_callback(self, port, cb):
        pass

    def set_value(self, name, value):
        self.log.append([2, value] if name == 'lighthouse.systemType' else [9, 0])

    def send_packet(self, pk, *a, **kw):
        t, mg, mc = struct.unpack('<BHH', bytes(pk.data))
        gl = [k for k in range(16) if mg >> k & 1]
        cl = [k for k in range(16) if mc >> k & 1]
        self.log.append([3, len(gl)] + gl + [len(cl)] + cl)

    # -- bookkeeping
    def _sync_writes(self):
        for (addr, data, fl) in self.fake.writes[self._wmark:]:
            self.log.append([1, addr, len(data)] + list(data))
        self._wmark = len(self.fake.writes)

    def _call(self, fn):
        n0 = len(self.log)
        old_time = self._mod.time
        self._mod.time = _NoSleep
        try:
            fn()
            self._sync_writes()
        except Exception as e:  # noqa
            self._sync_writes()
            self.log.append([5, SEQ_RAISE.get(str(e.args[0]) if e.args else '', 7 if isinstance(e, struct.error) else 99)])
        finally:
            self._mod.time = old_time
        return self.log[n0:]

    # -- events
    def start(self, geos, calibs, st):
        return self._call(lambda: self.writer.write_and_store_config(lambda ok: self.log.append([4, int(bool(ok))]),
                                                                     geos=geos, calibs=calibs, system_type=st))

    def write_answer(self, ok):
        """the memory layer reports the outstanding write as done / failed (or a stray report when nothing is queued)"""
        q = [x for x in self.fake.queue if x[0] == 'w']
        if q:
            kind, memory, addr, data = q[0]
            self.fake.queue.remove(q[0])
            if ok:
                self.fake.mem[addr:addr + len(data)] = data
        else:
            addr = 0
        return self._call(lambda: (self.lhmem.write_done if ok else self.lhmem.write_failed)(self.lhmem, addr))

    def ack(self, ok):
        from cflib.crtp.crtpstack import CRTPPacket, CRTPPort
        pk = CRTPPacket()
        pk.port = CRTPPort.LOCALIZATION
        pk.channel = self.loc.GENERIC_CH
        pk.data = bytes([self.loc.LH_PERSIST_DATA, 1 if ok else 0])
        return self._call(lambda: self.loc._incoming(pk))

    # -- reader events
    def read_start(self, kind, sink):
        fn = self.helper.read_all_geos if kind == 'geo' else self.helper.read_all_calibs
        return self._rcall(lambda: fn(lambda res: sink.append(res)), sink)

    def read_answer(self, kind, data):
        """data: bytes to deliver, or None = the read fails; a stray delivery when no read is queued"""
        q = [x for x in self.fake.queue if x[0] == 'r']
        if q:
            _, memory, addr, n = q[0]
            self.fake.queue.remove(q[0])
        else:
            addr = 0 if kind == 'geo' else 0x1000
        if data is None:
            return self._rcall(lambda: self.lhmem.new_data_failed(self.lhmem, addr, bytearray()), None)
        return self._rcall(lambda: self.lhmem.new_data(self.lhmem, addr, bytearray(data)), None)

    def _rcall(self, fn, sink):
        r0 = len(self.fake.reads)
        s0 = len(self._sink) if hasattr(self, '_sink') else 0
        out = []
        try:
            fn()
        except Exception as e:  # noqa
            out.append([5, SEQ_RAISE.get(str(e.args[0]) if e.args else '', 7 if isinstance(e, struct.error) else 99)])
        reads = [[1, a, n] for (a, n) in self.fake.reads[r0:]]
        return reads + out


def seq_objects(kind, spec):
    """spec: [[id, floats, (uid,) valid], ...] in dictionary order -> (dict of real objects, model term, images)"""
    d, terms, imgs = {}, [], {}
    for e in spec:
        if kind == 'geo':
            d[e[0]] = lh_mk_geo(e[1], e[2])
            img = _fw_geo_layout(e[1], e[2])
        else:
            d[e[0]] = lh_mk_calib(e[1], e[2], e[3])
            img = _fw_calib_layout(e[1], e[2], e[3])
        imgs[e[0]] = img
        terms.append('(%d, %s)' % (e[0], ZL(img)))
    return d, '[' + '; '.join(terms) + ']', imgs


def seq_rnd_spec(rng, kind):
    ids = rng.sample(range(16), rng.choice([0, 1, 2, 3, 5, 16]))
    if rng.random() < 0.5:
        ids.sort()
    out = []
    for k in ids:
        if kind == 'geo':
            out.append([k, [rnd_f32(rng) for _ in range(12)], rng.random() < 0.8])
        else:
            out.append([k, [rnd_f32(rng) for _ in range(14)], rng.getrandbits(32), rng.random() < 0.8])
    return out


def seq_rnd_scenario(rng, disciplined=False):
    """runs = list of (geos spec|None, calibs spec|None, system type|None, write failure set, persist ok); one writer object"""
    nr = rng.choice([16, 16, 16, 2, 4, 1, 8]) if disciplined else rng.choice([16, 16, 16, 2, 4, 1, 8, 17, 0])
    runs = []
    for _ in range(rng.choice([1, 1, 2])):
        g = seq_rnd_spec(rng, 'geo') if rng.random() < 0.8 else None
        c = seq_rnd_spec(rng, 'calib') if rng.random() < 0.8 else None
        fails = set()
        if rng.random() < 0.5:
            for _k in range(rng.choice([1, 1, 2, 5])):
                fails.add((rng.choice(['geo', 'calib']), rng.randrange(16)))
        if nr == 0:                                   # an empty dictionary makes the helper complete synchronously: outside the model
            g = g or None
            c = c or None
        runs.append({'geos': g, 'calibs': c, 'st': rng.choice([None, 1, 2]), 'fails': sorted(fails), 'pok': rng.random() < 0.75})
    return {'nr': nr, 'runs': runs}


def seq_run_scenario(sc, rng=None):
    """drive the real writer; returns (events as model terms, acts per event, env, per-run summaries)"""
    env = SeqEnv(nr=sc['nr'])
    ev_terms, acts, summaries = [], [], []

    def emit(term, a):
        ev_terms.append(term)
        acts.append(a)

    for run in sc['runs']:
        gd, gt, gi = seq_objects('geo', run['geos']) if run['geos'] is not None else (None, None, {})
        cd, ct, ci = seq_objects('calib', run['calibs']) if run['calibs'] is not None else (None, None, {})
        fails = set((k, i) for k, i in run['fails'])
        if rng is not None and rng.random() < 0.3:                      # stray reports while idle
            ok = rng.random() < 0.5
            emit('EWriteDone' if ok else 'EWriteFailed', env.write_answer(ok))
        i0 = len(env.log)
        a = env.start(gd, cd, run['st'])
        emit('EStart %s %s %s %d%%nat' % ('None' if gt is None else '(Some %s)' % gt, 'None' if ct is None else '(Some %s)' % ct,
                                         'None' if run['st'] is None else '(Some %d)' % run['st'], sc['nr']), a)
        for _guard in range(80):
            last = a[-1] if a else None
            if rng is not None and rng.random() < 0.04 and last and last[0] == 1:   # a second start / an early ack in the middle
                if rng.random() < 0.5:
                    emit('EStart None None None %d%%nat' % sc['nr'], env.start(None, None, None))
                else:
                    emit('EAck true', env.ack(True))
                    break                                                # the run is broken from here on (exceptions), stop it
            if last and last[0] == 1:
                addr = last[1]
                key = ('geo', addr // 0x100) if addr < 0x1000 else ('calib', (addr - 0x1000) // 0x100)
                ok = key not in fails
                a = env.write_answer(ok)
                emit('EWriteDone' if ok else 'EWriteFailed', a)
            elif last and last[0] == 3:
                a = env.ack(run['pok'])
                emit('EAck %s' % coqrun.coq_bool(run['pok']), a)
            else:
                break
        if rng is None or rng.random() < 0.3:                           # strays after the run: must not cause anything
            emit('EAck true', env.ack(True))
            emit('EWriteDone', env.write_answer(True))
        summaries.append({'log': env.log[i0:], 'geo_imgs': gi, 'calib_imgs': ci})
    return ev_terms, acts, env, summaries


def seq_enc_acts(acts):
    out = []
    for a in acts:
        out.append(len(a))
        for x in a:
            out += x
    return out


def seq_reader_scenario(rng):
    kind = rng.choice(['geo', 'calib'])
    size = 49 if kind == 'geo' else 61
    devr = {}
    for k in range(16):
        r = rng.random()
        if r < 0.2:
            devr[k] = None
        else:
            d = bytearray(rng.getrandbits(8) for _ in range(size))
            d[-1] = rng.choice([0, 1, 1, 2])
            _quiet(d, range(0, size - 4 if kind == 'geo' else 56, 4))
            devr[k] = list(d)
    return {'kind': kind, 'devr': devr, 'twice': rng.random() < 0.4, 'badlen': rng.random() < 0.05}


def seq_run_reader(sc, rng=None):
    env = SeqEnv()
    kind = sc['kind']
    sink, ev_terms, acts = [], [], []

    def emit(term, a, before):
        extra = [[2, len(r)] + [x for (k, o) in r.items() for x in [k] + lh_obj_enc(o)] for r in sink[before:]]
        ev_terms.append(term)
        # the callback comes before any exception the same event raised
        acts.append([x for x in a if x[0] == 1] + extra + [x for x in a if x[0] == 5])

    for rnd in range(2 if sc['twice'] else 1):
        if rng is not None and rng.random() < 0.3:
            b = len(sink)
            emit('RData %s' % ZL(bytes(49 if kind == 'geo' else 61)), env.read_answer(kind, bytes(49 if kind == 'geo' else 61)), b)
        b = len(sink)
        a = env.read_start(kind, sink)
        emit('RStart', a, b)
        for _guard in range(40):
            last = acts[-1][-1] if acts[-1] else None
            if not last or last[0] != 1:
                break
            if rng is not None and rng.random() < 0.05:
                b = len(sink)
                emit('RStart', env.read_start(kind, sink), b)
                acts[-1] = [x for x in acts[-1]]
                # the pending read is still outstanding: put the request marker back for the loop
                acts[-1].append(['pending'])
                acts[-1].pop()
                last = [1, last[1], last[2]]
            base = 0 if kind == 'geo' else 0x1000
            k = (last[1] - base) // 0x100
            d = sc['devr'][str(k)] if str(k) in sc['devr'] else sc['devr'].get(k)
            if d is not None and sc['badlen'] and k == 7:
                d = d[:-1]
            b = len(sink)
            a = env.read_answer(kind, None if d is None else bytes(d))
            emit('RFailed' if d is None else 'RData %s' % ZL(d), a, b)
            if a and a[-1][0] == 5:
                break
    return ev_terms, acts, env, sink


def seq_tie(ctx, cases):
    rng = ctx.rng
    n = ctx.scale(28, 500)
    regression = {'nr': 1, 'runs': [{'geos': [[0, [1065353216, 0, 0, 1065353216, 0, 0, 0, 1065353216, 0, 0, 0, 1065353216], True]],
                                      'calibs': None, 'st': None, 'fails': [], 'pok': False}]}
    for i in range(n):
        sc = seq_rnd_scenario(rng) if i else regression
        ev_terms, acts, env, _ = seq_run_scenario(sc, rng if i else None)
        cases.add('seq_writer', 'enc_acts (cw_trace cws_idle [%s])' % '; '.join(ev_terms), seq_enc_acts(acts),
                  {'seq_writer': repr(sc)[:500]}, nontrivial=len(ev_terms) > 3)
    for i in range(n):
        sc = seq_reader_scenario(rng)
        ev_terms, acts, env, sink = seq_run_reader(sc, rng)
        k = 'KGeo' if sc['kind'] == 'geo' else 'KCalib'
        cases.add('seq_reader', 'enc_racts (rd_trace %s rds_idle [%s])' % (k, '; '.join(ev_terms)), seq_enc_acts(acts),
                  {'seq_reader': repr(sc)[:300]})
    return {'seq_writer': n, 'seq_reader': n}



def seq_expected_log(run, nr):
    """the conversation the property text prescribes for one write_and_store_config, independent of the model:
    [system type], geometries (given ones in their order, then the empty object for every missing id below nr), calibrations
    likewise, one persist request for all ids below nr of the kinds given, then the callback once"""
    log = []
    if run['st'] is not None:
        log.append([2, run['st']])
    fails = set((k, i) for k, i in run['fails'])
    all_ok = True
    for kind, spec, base, empty in (('geo', run['geos'], 0, bytes(49)), ('calib', run['calibs'], 0x1000, bytes(61))):
        if spec is None:
            continue
        entries = [(e[0], _fw_geo_layout(e[1], e[2]) if kind == 'geo' else _fw_calib_layout(e[1], e[2], e[3])) for e in spec]
        given = set(e[0] for e in spec)
        entries += [(k, empty) for k in range(nr) if k not in given]
        for k, img in entries:
            log.append([1, base + 0x100 * k, len(img)] + list(img))
            if (kind, k) in fails:
                all_ok = False
    gl = list(range(nr)) if run['geos'] is not None else []
    cl = list(range(nr)) if run['calibs'] is not None else []
    if gl or cl:
        log.append([3, len(gl)] + gl + [len(cl)] + cl)
    log.append([4, int(all_ok)])
    return log


def seq_check(c):
    if c['op'] == 'writer':
        # the image clauses of the property on the sequencer: every image handed to the device is the firmware layout of the
        # object it stands for (given object, or the empty object for a missing id below nr), at the page of its base station,
        # and the whole device memory afterwards is exactly the accepted writes.  (Order of the steps, system type, persist and
        # the completion value are compared with the model in the tie; they are not in the property text.)
        ev_terms, acts, env, summaries = seq_run_scenario(c, None)
        dev = bytearray(0x2000)
        for run, sm in zip(c['runs'], summaries):
            want = sorted(x for x in seq_expected_log(run, c['nr']) if x[0] == 1)
            got = sorted(x for x in sm['log'] if x[0] == 1)
            if got != want:
                k = next((i for i, (a, b) in enumerate(zip(got, want)) if a != b), min(len(got), len(want)))
                return {'class': 'lh_config_writer_images_differ', 'case': c,
                        'expected': {'writes': len(want), 'first_difference': (want[k][:14] if k < len(want) else None)},
                        'observed': {'writes': len(got), 'first_difference': (got[k][:14] if k < len(got) else None)},
                        'detail': 'write = [1, address, length, bytes...]; every object must reach the device as its firmware image at its page'}
            fails = set(map(tuple, run['fails']))
            for x in want:
                key = ('geo', x[1] // 0x100) if x[1] < 0x1000 else ('calib', (x[1] - 0x1000) // 0x100)
                if key not in fails:
                    dev[x[1]:x[1] + x[2]] = bytes(x[3:])
        if bytes(env.fake.mem) != bytes(dev):
            return {'class': 'lh_config_writer_device_memory_differs', 'case': c, 'expected': 'accepted writes only',
                    'observed': [i for i in range(0, 0x2000, 0x100) if env.fake.mem[i:i + 0x100] != dev[i:i + 0x100]]}
        return None
    if c['op'] == 'reader':
        ev_terms, acts, env, sink = seq_run_reader(c, None)
        rounds = 2 if c['twice'] else 1
        base, size = (0, 49) if c['kind'] == 'geo' else (0x1000, 61)
        if env.fake.reads != [(base + 0x100 * k, size) for k in range(16)] * rounds:
            return {'class': 'lh_read_all_requests_differ', 'case': c, 'expected': '16 reads in order', 'observed': env.fake.reads[:40]}
        want = {}
        for k in range(16):
            d = c['devr'].get(str(k), c['devr'].get(k))
            if d is not None:
                fl = [int.from_bytes(bytes(d[4 * j:4 * j + 4]), 'little') for j in range(12 if c['kind'] == 'geo' else 14)]
                want[k] = ([1, int(d[-1] != 0)] + fl) if c['kind'] == 'geo' else ([1, int(d[-1] != 0), int.from_bytes(bytes(d[56:60]), 'little')] + fl)
        for res in sink:
            got = {k: (lh_geo_obs(o) if c['kind'] == 'geo' else lh_calib_obs(o)) for k, o in res.items()}
            if got != want:
                return {'class': 'lh_read_all_result_differs', 'case': c, 'expected': sorted(want), 'observed': sorted(got),
                        'detail': 'the result must hold exactly the stations whose read was answered, decoded from their images'}
        return None
    if c['op'] == 'file_to_device':
        return seq_file_to_device(c)
    return None


def seq_file_to_device(c):
    """device 1 -> read_all -> file -> LighthouseConfigWriter.write_and_store_config_from_file -> device 2: every valid station
    byte-identical, every other station below 16 the empty (invalid) object"""
    from cflib.localization import lighthouse_config_manager as mod
    tmp = _tmpdir()
    try:
        fn = os.path.join(tmp, 's_lh.yaml')
        env1 = SeqEnv(devmem=lh_device(c))
        got = {}
        env1.helper.read_all_geos(lambda d: got.__setitem__('geos', d))
        env1.fake.run()
        env1.helper.read_all_calibs(lambda d: got.__setitem__('calibs', d))
        env1.fake.run()
        mod.LighthouseConfigFileManager.write(fn, geos=got['geos'], calibs=got['calibs'], system_type=c['st'])
        env2 = SeqEnv()
        env2._call(lambda: env2.writer.write_and_store_config_from_file(lambda ok: env2.log.append([4, int(bool(ok))]), fn))
        for _ in range(40):
            env2.fake.run()
            env2._sync_writes()
            if any(x[0] == 3 for x in env2.log) and not any(x[0] == 4 for x in env2.log):
                env2.ack(True)
            else:
                break
        dev1 = lh_device(c)
        want = bytearray(0x2000)
        for k, v in c['geos'].items():
            if v[1]:
                want[0x100 * int(k):0x100 * int(k) + 49] = dev1[0x100 * int(k):0x100 * int(k) + 49]
        for k, v in c['calibs'].items():
            if v[2]:
                a = 0x1000 + 0x100 * int(k)
                want[a:a + 61] = dev1[a:a + 61]
        if bytes(env2.fake.mem) != bytes(want):
            return {'class': 'lh_file_to_device_differs', 'case': c, 'expected': 'valid stations byte-identical, all others the empty object',
                    'observed': {'pages': [i for i in range(0, 0x2000, 0x100) if env2.fake.mem[i:i + 0x100] != want[i:i + 0x100]]}}
    finally:
        _cleanup_tmp()
    return None


def seq_oracle(ctx, deep):
    rng = ctx.rng
    fails, n = [], 0
    for i in range(ctx.scale(90, 900) * (2 if deep else 1)):
        r = i % 6
        if r < 3:
            c = dict(seq_rnd_scenario(rng, disciplined=True), codec='seq', op='writer')
        elif r < 5:
            c = dict(seq_reader_scenario(rng), codec='seq', op='reader', badlen=False)
            c['devr'] = {str(k): v for k, v in c['devr'].items()}
        else:
            c = dict(lh_rnd_pipeline_case(rng), codec='seq', op='file_to_device')
        res = seq_check(c)
        n += 1
        if res:
            fails.append(res)
    return n, fails



# ---------------------------------------------------------------------------------------------- anchor-list histories (one object)

def l2_rnd_device(rng, base=None, keep=None):
    """{'ids': [...<=16], 'act': [...<=16], 'pages': {id: [x, y, z, v]}}; keep: parts of base that stay"""
    d = {} if base is None else dict({'ids': list(base['ids']), 'act': list(base['act']), 'pages': dict(base['pages'])},
                                     **({'count': base['count']} if 'count' in base else {}))
    keep = keep or ()
    if 'ids' not in keep or base is None:
        d['ids'] = rng.sample(range(256), rng.choice([0, 1, 2, 4, 4, 8, 16]))
        if rng.random() < 0.15 and len(d['ids']) >= 2:
            d['ids'][1] = d['ids'][0]
        d.pop('count', None)
        if len(d['ids']) == 16 and rng.random() < 0.5:
            d['count'] = rng.choice([17, 200, 255])          # a count byte above what the 17 bytes can hold: the 16 ids read are taken
    if 'act' not in keep or base is None:
        d['act'] = rng.sample(range(256), rng.choice([0, 1, 3, 16]))
    # the device has a page for every id that ever occurred in the history (keys are kept, values may change)
    if base is None:
        d['pages'] = {}
    for k in list(d['pages'].keys()) + d['ids']:
        if k not in d['pages'] or ('pages' not in keep):
            d['pages'][k] = rnd_anchor(rng)
    return d


def l2_device_bytes(d):
    mem = bytearray(0x2000 + 0x100 * 256)
    mem[0:17] = bytes([d.get('count', len(d['ids']))] + d['ids'] + [0] * (16 - len(d['ids'])))
    mem[0x1000:0x1000 + 17] = bytes([len(d['act'])] + d['act'] + [0] * (16 - len(d['act'])))
    for k, a in d['pages'].items():
        mem[0x2000 + 0x100 * int(k):0x2000 + 0x100 * int(k) + 13] = anchor_bytes(*a)
    return mem


def l2_rnd_history(rng):
    dev = l2_rnd_device(rng)
    ops = [['setdev', dev]]
    for _ in range(rng.randrange(3, 10)):
        r = rng.random()
        if r < 0.28:
            ops.append(['ids'])
        elif r < 0.5:
            ops.append(['act'])
        elif r < 0.8:
            ops.append(['data'])
        else:
            keep = rng.choice([(), ('ids',), ('ids', 'act'), ('pages',), ('ids', 'act', 'pages')])
            dev = l2_rnd_device(rng, base=dev, keep=keep)
            ops.append(['setdev', dev])
    return ops


def l2_hist_impl(ops):
    """ONE LocoMemory2 object; snapshot of every public field after every step"""
    from cflib.crazyflie.mem.loco_memory_2 import LocoMemory2
    fake = MemFake(bytearray(0x2000 + 0x100 * 256))
    m = LocoMemory2(id=4, type=0x12, size=len(fake.mem), mem_handler=fake)
    cbs, obs = [], []
    for op in ops:
        r0 = len(fake.reads)
        exc = None
        try:
            if op[0] == 'setdev':
                fake.mem[:] = l2_device_bytes(op[1])
            elif op[0] == 'ids':
                m.update_id_list(lambda x: cbs.append('ids'))
            elif op[0] == 'act':
                m.update_active_id_list(lambda x: cbs.append('act'))
            else:
                m.update_data(lambda x: cbs.append('data'))
            fake.run()
        except Exception as e:  # noqa
            exc = exc_kind(e)
            fake.queue[:] = []
        obs.append({'nr': m.nr_of_anchors, 'idsv': bool(m.ids_valid), 'actv': bool(m.active_ids_valid), 'datav': bool(m.data_valid),
                    'cbs': len(cbs), 'ids': list(m.anchor_ids), 'act': list(m.active_anchor_ids),
                    'data': [[k, bits32(a.position[0]), bits32(a.position[1]), bits32(a.position[2]), int(bool(a.is_valid))]
                             for k, a in m.anchor_data.items()],
                    'reads': [list(r) for r in fake.reads[r0:]], 'exc': exc})
    return obs


def l2_dev_term(d):
    idl = [d.get('count', len(d['ids']))] + d['ids'] + [0] * (16 - len(d['ids']))
    act = [len(d['act'])] + d['act'] + [0] * (16 - len(d['act']))
    pages = '[' + '; '.join('(%d, %s)' % (int(k), ZL(anchor_bytes(*a))) for k, a in d['pages'].items()) + ']'
    return '(mk_l2dev %s %s %s)' % (ZL(idl), ZL(act), pages)


def l2_hist_term(ops):
    ts = []
    for op in ops:
        ts.append({'ids': 'LIds', 'act': 'LAct', 'data': 'LData'}.get(op[0]) or 'LSetDev %s' % l2_dev_term(op[1]))
    return 'enc_l2trace (l2_trace l2_init (mk_l2dev [] [] []) [%s])' % '; '.join(ts)


def l2_hist_enc(obs):
    out = []
    for o in obs:
        if o['exc']:
            out += [1, -1]
            break
        e = [o['nr'], int(o['idsv']), int(o['actv']), int(o['datav']), o['cbs'], len(o['ids'])] + o['ids'] + [len(o['act'])] + o['act'] \
            + [len(o['data'])] + [x for a in o['data'] for x in a] + [len(o['reads'])] + [x for r in o['reads'] for x in r]
        out += [len(e)] + e
    return out


def l2_hist_check(c):
    """after EVERY step every parsed field equals the decode of the device bytes read by the step that owns the field:
    anchor_ids / nr_of_anchors / ids_valid <- the last update_id_list; active_anchor_ids <- the last update_active_id_list (emptied by a
    later update_id_list); anchor_data <- the last update_data (emptied by a later update_id_list); a later fetch never changes an
    earlier parse"""
    ops = [[o[0], dict(o[1], pages={int(k): v for k, v in o[1]['pages'].items()})] if o[0] == 'setdev' else list(o) for o in c['ops']]
    obs = l2_hist_impl(ops)
    dev = None
    own = {'ids': [], 'act': [], 'data': {}, 'idsv': False, 'datav': False}
    for k, (op, o) in enumerate(zip(ops, obs)):
        if op[0] == 'setdev':
            dev = op[1]
        elif op[0] == 'ids':
            own.update({'ids': list(dev['ids']), 'act': [], 'data': {}, 'idsv': True, 'datav': False})
        elif op[0] == 'act':
            own['act'] = list(dev['act'])
        elif op[0] == 'data' and own['ids']:
            own['data'] = {i: [i] + [dev['pages'][i][0], dev['pages'][i][1], dev['pages'][i][2], int(dev['pages'][i][3] != 0)] for i in own['ids']}
            own['datav'] = True
        got = {'ids': o['ids'], 'act': o['act'], 'data': {a[0]: a for a in o['data']}, 'idsv': o['idsv'], 'datav': o['datav']}
        want_reads = None
        if op[0] == 'data' and own['ids']:
            want_reads = [[0x2000 + 0x100 * i, 13] for i in own['ids']]
        if o['exc'] or got != own or o['nr'] != len(own['ids']) or (op[0] == 'act' and not o['actv']) or \
                (want_reads is not None and o['reads'] != want_reads):
            return {'class': 'loco2_fields_not_owner_read', 'case': c,
                    'expected': dict(own, step=k, op=op[0], nr=len(own['ids'])),
                    'observed': {kk: o[kk] for kk in ('nr', 'idsv', 'datav', 'ids', 'act', 'data', 'exc')},
                    'detail': 'after step %d (%s) every parsed field must still be the decode of the bytes read by the step that owns it' % (k, op[0])}
    return None


def l1_hist_check(c):
    """LocoMemory: 1-3 update() rounds on one object, the device changing or not; after every round all fields = that device"""
    from cflib.crazyflie.mem.loco_memory import LocoMemory
    fake = MemFake(bytearray(0x1000 + 0x100 * 256))
    m = LocoMemory(id=3, type=0x11, size=len(fake.mem), mem_handler=fake)
    for k, anchors in enumerate(c['rounds']):
        mem = bytearray(0x1000 + 0x100 * 256)
        mem[0] = len(anchors)
        for j, a in enumerate(anchors):
            mem[0x1000 + 0x100 * j:0x1000 + 0x100 * j + 13] = anchor_bytes(*a)
        fake.mem[:] = mem
        done = []
        m.update(lambda x: done.append(1))
        fake.run()
        got = [[bits32(a.position[0]), bits32(a.position[1]), bits32(a.position[2]), int(bool(a.is_valid))] for a in m.anchor_data]
        want = [[a[0], a[1], a[2], int(a[3] != 0)] for a in anchors]
        if got != want or m.nr_of_anchors != len(anchors) or not m.valid or done != [1]:
            return {'class': 'loco_anchor_list_differs', 'case': c, 'expected': {'round': k, 'anchors': want},
                    'observed': {'anchors': got, 'nr': m.nr_of_anchors, 'valid': m.valid, 'cb': len(done)}}
    return None


def l2_tie(ctx, cases):
    rng = ctx.rng
    n = ctx.scale(60, 800)
    reg = [['setdev', {'ids': [3, 7, 42, 200], 'act': [3, 7], 'pages': {3: [1, 2, 3, 1], 7: [4, 5, 6, 1], 42: [7, 8, 9, 0], 200: [1, 1, 1, 1]}}],
           ['ids'], ['act'], ['data'], ['data'], ['act'], ['data']]
    for i in range(n):
        ops = l2_rnd_history(rng) if i else reg
        cases.add('loco2_history', l2_hist_term(ops), l2_hist_enc(l2_hist_impl(ops)), {'loco2_history': repr(ops)[:500]},
                  nontrivial=sum(1 for o in ops if o[0] == 'data') >= 1)
    return {'loco2_history': n}


def l2_oracle(ctx, deep):
    rng = ctx.rng
    fails, n = [], 0
    for i in range(ctx.scale(300, 3000) * (2 if deep else 1)):
        if i % 4 != 3:
            c = {'codec': 'lhist', 'op': 'loco2', 'ops': l2_rnd_history(rng)}
            r = l2_hist_check(c)
        else:
            base = [rnd_anchor(rng) for _ in range(rng.choice([0, 1, 3, 8]))]
            rounds = [base]
            for _ in range(rng.randrange(0, 3)):
                rounds.append(rounds[-1] if rng.random() < 0.4 else [rnd_anchor(rng) for _ in range(rng.choice([0, 1, 2, 5, 9]))])
            c = {'codec': 'lhist', 'op': 'loco', 'rounds': rounds}
            r = l1_hist_check(c)
        n += 1
        if r:
            fails.append(r)
    return n, fails


# ---------------------------------------------------------------------------------------------- module interface

SECTIONS_TIE = [('crc', crc_tie), ('i2c', i2c_tie), ('ow', ow_tie), ('lh', lh_tie), ('yaml', yaml_tie), ('deck', deck_tie), ('loco', loco_tie), ('traj', traj_tie), ('timings', timings_tie), ('hist', hist_tie), ('cross', cross_tie), ('whist', whist_tie), ('seq', seq_tie), ('lhist', l2_tie)]
SECTIONS_ORACLE = [('i2c', i2c_oracle), ('ow', ow_oracle), ('lh', lh_oracle), ('yaml', yaml_oracle), ('deck', deck_oracle), ('loco', loco_oracle), ('misc', misc_oracle), ('hist', hist_oracle), ('cross', cross_oracle), ('whist', whist_oracle), ('seq', seq_oracle), ('lhist', l2_oracle)]


def _corpus():
    d = os.path.join(VERIF, 'corpus', 'C14')
    out = []
    if os.path.isdir(d):
        for fn in sorted(os.listdir(d)):
            if fn.endswith('.json'):
                out.append(json.load(open(os.path.join(d, fn))))
    return out


def tie(ctx):
    cases = Cases()
    dist = {}
    for name, fn in SECTIONS_TIE:
        dist[name] = fn(ctx, cases)
    dis = run_cases(cases, 'c14crc', per_block=6, shard=1, kinds=('crc32',))
    dis += run_cases(cases, 'c14', per_block=25, shard=3, kinds=set(it[0] for it in cases.items) - {'crc32'})
    seen = set()
    nontriv = 0
    for it in cases.items:
        if it[4]:
            h = sha([it[0], it[1]])
            if h not in seen:
                seen.add(h)
                nontriv += 1
    evals = len(cases.items) + 255 * sum(1 for it in cases.items if it[0] == 'crc32' and len(it[2]) == 256)
    samples = []
    for kind in ('i2c_history', 'ow_history', 'i2c_parse', 'ow_parse', 'i2c_write', 'ow_write'):
        for it in cases.items:
            if it[0] == kind and it[4]:
                samples.append({'kind': kind, 'case': it[3], 'impl_encoded': it[2][:40]})
                break
    return {
        'evaluations': evals,
        'distinct_nontrivial': nontriv,
        'rule': 'each case = one call of the real writer or one update() of the real element on a byte-array memory, compared '
                'with the model (image bytes or error; valid, callback count, fields, elements in order, exception kind). '
                'Non-trivial: writer accepted a non-empty content, or the memory is long enough for the header read '
                '(written images with tails, single-byte corruptions, re-checksummed garbage, hand-made TLV areas). '
                'CRC-32: all 1-byte inputs, 2-byte inputs (all 65536 in thorough, 8 seeded first bytes x 256 in quick) and random longer ones against binascii.crc32. Compared by a '
                '61+89-bit digest computed inside Coq; differing blocks are expanded case by case.',
        'samples': samples,
        'distribution': dist,
        'exhaustive': False,
        'disagreements': dis,
    }


def _safe(fn):
    """an exception escaping the implementation during an oracle case is a failure of that case, not of the harness"""
    def wrapped(c, *a):
        try:
            return fn(c, *a)
        except Exception as e:  # noqa
            return {'class': '%s_raises' % fn.__name__, 'case': c if isinstance(c, dict) else {'args': repr(c)[:300]},
                    'expected': 'no exception', 'observed': '%s: %s' % (type(e).__name__, e)}
    wrapped.__name__ = fn.__name__
    return wrapped


def oracle(ctx, deep=False):
    fails, n = [], 0
    for payload in _corpus():
        f = replay(payload, ctx)
        n += 1
        if f:
            fails.append(f)
    for name, fn in SECTIONS_ORACLE:
        k, fs = fn(ctx, deep)
        n += k
        fails += fs
    # one representative (the smallest case) per class
    best = {}
    for f in fails:
        c = f.get('class')
        if c not in best or len(json.dumps(f['case'], default=repr)) < len(json.dumps(best[c]['case'], default=repr)):
            best[c] = f
    return {'evaluations': n, 'failures': list(best.values()),
            'rule': 'property text on the real code: round trip through the memory fake / temp files, image equals the '
                    'independently written firmware layout, valid == independently recomputed checksum/CRC verdict, '
                    'every position x several values of single-byte corruption of EEPROM images'}


def replay(payload, ctx):
    c = payload['case']
    codec, op = c.get('codec'), c.get('op')
    if op == 'history':
        return (i2c_hist_check if codec == 'i2c' else ow_hist_check)(c)
    if codec == 'i2c' and op == 'roundtrip':
        return i2c_check_roundtrip(c['fields'], bytes(c.get('tail', [])))
    if codec == 'i2c' and op == 'corrupt':
        return i2c_check_corruption(c['fields'], c['pos'], c['value'], bytes(c.get('tail', [])))
    if codec == 'i2c' and op == 'valid':
        mem = bytes(c['mem'])
        o = i2c_impl_parse(mem)
        want = i2c_expected_valid(mem)
        return None if o.get('valid') == want else {'class': 'i2c_valid_not_checksum', 'case': c, 'expected': want, 'observed': o}
    if codec == 'ow' and op == 'roundtrip':
        pins, vid, pid, els = c['content']
        return ow_check_roundtrip((pins, vid, pid, [(k, list(s)) for k, s in els]))
    if codec == 'ow' and op == 'valid':
        mem = bytes(c['mem'])
        want, d = ow_expected(mem)
        o = ow_impl_parse(mem)
        if want is None or (not o.get('short') and o['valid'] == want and (not want or {k: s for k, s in o['elements']} == d)):
            return None
        return {'class': 'ow_valid_not_crcs', 'case': c, 'expected': {'valid': want, 'elements': d}, 'observed': o}
    for name, fn in REPLAYERS.items():
        if codec == name:
            return fn(c, ctx)
    return None


lh_check, yaml_check, deck_check, loco_check, misc_check = map(_safe, (lh_check, yaml_check, deck_check, loco_check, misc_check))
i2c_hist_check, ow_hist_check = _safe(i2c_hist_check), _safe(ow_hist_check)
cross_check = _safe(cross_check)
whist_check = _safe(whist_check)
seq_check = _safe(seq_check)
l2_hist_check, l1_hist_check = _safe(l2_hist_check), _safe(l1_hist_check)
REPLAYERS = {'lh': lambda c, ctx: lh_check(c), 'yaml': lambda c, ctx: yaml_check(c), 'deck': lambda c, ctx: deck_check(c),
             'loco': lambda c, ctx: loco_check(c), 'misc': lambda c, ctx: misc_check(c), 'cross': lambda c, ctx: cross_check(c), 'whist': lambda c, ctx: whist_check(c), 'seq': lambda c, ctx: seq_check(c),
             'lhist': lambda c, ctx: (l2_hist_check if c['op'] == 'loco2' else l1_hist_check)(c)}
