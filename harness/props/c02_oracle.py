"""C02 oracle: the property text evaluated on what the application observed in one DetSched run."""

SETUP = ('link_established', 'connected', 'fully_connected')


def attempts(log):
    """split the callback log into attempts (each starts at connection_requested)"""
    segs = []
    for e in log:
        if e[0] != 'cb':
            continue
        if e[1] == 'connection_requested':
            segs.append([])
        elif segs:
            segs[-1].append(e[1])
        else:
            segs.append(['<before-first-request>', e[1]])
    return segs


def overlapping(log):
    """True when a library transition function (link-error handler, close_link) did not run atomically: between its
    entry and the last callback it delivered, another thread entered a transition function or delivered a callback."""
    own = {'err': ('disconnected', 'connection_lost', 'connection_failed', 'disconnected_link_error'),
           'close': ('disconnected',)}
    for i, e in enumerate(log):
        if e[0] == 'ev' and e[1] in own:
            th = e[2]
            last = None
            for j in range(i + 1, len(log)):
                f = log[j]
                if f[0] == 'cb' and f[2] == th and f[1] in own[e[1]]:
                    last = j
                elif f[0] == 'ev' and f[2] == th:
                    break
            if last is None:
                continue
            if any(log[j][2] != th for j in range(i + 1, last)):
                return True
    return False


def reentrant_split(log):
    """True when an application callback delivered by the link-error handler entered another transition function on
    the same thread before the handler had delivered its last callback (e.g. close_link called from the disconnected
    callback of a link failure, connection_lost still to come): the outer transition is split in two by the inner one,
    which the atomic lifecycle model cannot express (the oracle still judges the run)."""
    log = [e for e in log if e[0] in ('cb', 'ev')]
    for i, e in enumerate(log):
        if e[0] == 'ev' and e[1] == 'err':
            th = e[2]
            seen_cb = False
            inner = False
            for f in log[i + 1:]:
                if f[2] != th:
                    continue
                if f[0] == 'cb' and f[1] in ('disconnected', 'connection_failed') and not inner:
                    seen_cb = True
                elif f[0] == 'ev' and f[1] in ('close', 'open', 'err') and seen_cb:
                    inner = True
                elif f[0] == 'cb' and f[1] == 'connection_lost':
                    if inner:
                        return True
                    break
    return False


def dispatcher_in_flight_at_disconnect(log):
    """True when a close_link / link-error handler was entered while the dispatcher thread was in the middle of
    processing a received packet (between receive_packet returning a packet and the next receive_packet call)."""
    inflight = False
    for e in log:
        if e[0] == 'rx':
            inflight = (e[1] == 'rx_got')
        elif e[0] == 'ev' and e[1] in ('close', 'err') and e[2].startswith('IncomingPacketHandler'):
            inflight = False      # the dispatcher itself ends the connection (application callback, sending-thread
            #                       fault): what it still does afterwards is the tail of that same transition
        elif e[0] == 'ev' and e[1] in ('close', 'err') and inflight and not e[2].startswith('IncomingPacketHandler'):
            return True
    return False


def lock_cycles(edges):
    """cycles in the lock-order graph (edge a->b: some thread wanted b while holding a); a self-edge is a thread
    re-acquiring a non-reentrant lock it holds"""
    g = {}
    for a, b in edges:
        g.setdefault(a, set()).add(b)
    cyc = set()
    for a in g:
        if a in g[a]:
            cyc.add((a,))
        for b in g[a]:
            if b != a and a in g.get(b, ()):
                cyc.add(tuple(sorted((a, b))))
    return sorted(cyc)


def check(case, r):
    """returns a list of anomalies: {'class':..., 'detail':...}"""
    out = _check(case, r)
    mem = any(e[0] == 'ev' and e[1] == 'mem_write' for e in r['log'])
    # a thread that dies on `None` where a link object was expected: check-then-use on Crazyflie.link
    toctou = [d for d in r['dead'] if "'NoneType' object has no attribute" in d[1]]
    if toctou:
        return [{'class': 'thread_dies_on_link_check_then_use', 'detail': {'dead': r['dead'], 'results': r['results']}}]
    if mem:
        for a in out:
            if a['class'] in ('link_error_from_sending_thread_wedges', 'hang_or_dead_thread') and \
                    any(s[1] == 'Lock.acquire' for s in r['stuck']):
                a['detail'] = {'original_class': a['class'], 'detail': a['detail'], 'lock_edges': r.get('lock_edges')}
                a['class'] = 'send_lock_vs_mem_write_lock_inversion'
    if any(a['class'] == 'send_lock_vs_mem_write_lock_inversion' for a in out):
        return [a for a in out if a['class'] == 'send_lock_vs_mem_write_lock_inversion'][:1]
    if out and any(a_[0] == 'connection_requested' and a_[1] == 'close' for a_ in case.get('cb_actions', ())):
        # known finding F02l: close_link from inside connection_requested does not stop the attempt
        for a in out:
            if a['class'] in ('setup_callback_after_disconnected', 'trace_grammar_head'):
                a['detail'] = {'original_class': a['class'], 'detail': a['detail']}
                a['class'] = 'close_inside_connection_requested'
    if out and (overlapping(r['log']) or dispatcher_in_flight_at_disconnect(r['log'])):
        for a in out:
            if a['class'] not in ('link_error_from_sending_thread_wedges', 'fully_connected_on_cleared_table', 'thread_died'):
                a['detail'] = {'original_class': a['class'], 'detail': a['detail']}
                a['class'] = 'overlapping_transitions'
    return out


def _check(case, r):
    out = []
    log = [e for e in r['log'] if e[0] in ('cb', 'ev')]
    cfg = case.get('cfg', {})
    names = [e[1] for e in log if e[0] == 'cb']
    # ---- liveness: nothing hangs, no thread dies, nothing left blocked
    hangs = [x for x in r['results'] if x[1] == 'hang']
    sender = cfg.get('fault_mode') == 'sender' and cfg.get('fault_at') is not None
    if hangs or r['stuck'] or r['dead']:
        op = hangs[0][0] if hangs else None
        seg = attempts(log)
        last = seg[-1] if seg else []
        joinish = any('join' in s[1] for s in r['stuck']) or any('join' in d[1] for d in r['dead']) or \
            any(s[0].startswith('ping_thread') for s in r['stuck'])
        if sender and joinish:
            cls = 'link_error_from_sending_thread_wedges'
        elif op == 'sync_open' and 'link_established' in last and 'disconnected' in last and 'connected' not in last[:last.index('disconnected')]:
            cls = 'sync_open_hangs_on_link_error_before_connected'
        elif op == 'reconnect' and sender:
            cls = 'link_error_from_sending_thread_wedges'
        else:
            # a library thread that ended with an exception is its own class: it is never filed under the known
            # overlapping-transitions finding F02c (which is about callbacks delivered late and a blocked close_link)
            cls = 'thread_died' if r['dead'] else 'hang_or_dead_thread'
        out.append({'class': cls, 'detail': {'hangs': hangs, 'stuck': r['stuck'], 'dead': r['dead']}})
    # ---- trace grammar per attempt
    for k, seg in enumerate(attempts(log)):
        if seg and seg[0] == '<before-first-request>':
            out.append({'class': 'callback_before_request', 'detail': seg})
            continue
        i = seg.index('disconnected') if 'disconnected' in seg else len(seg)
        head, tail = seg[:i], seg[i:]
        if head not in ([], ['connection_failed'], ['link_established'], ['link_established', 'connected'],
                        ['link_established', 'connected', 'fully_connected']):
            # a link failure before any packet: connection_failed; after: disconnected first
            out.append({'class': 'trace_grammar_head', 'detail': {'attempt': k, 'segment': seg}})
        late = [x for x in tail if x in SETUP]
        if late:
            out.append({'class': 'setup_callback_after_disconnected', 'detail': {'attempt': k, 'segment': seg}})
        if 'connection_failed' in tail:
            out.append({'class': 'connection_failed_after_disconnected', 'detail': {'attempt': k, 'segment': seg}})
        for j, x in enumerate(seg):
            if x == 'connection_lost' and 'disconnected' not in seg[:j]:
                out.append({'class': 'connection_lost_without_disconnected', 'detail': {'attempt': k, 'segment': seg}})
    # ---- connected only once both tables are complete, fully_connected only once every parameter has a value
    want_log, want_par = cfg.get('n_log', 3), cfg.get('n_param', 2)
    seen_disc = False          # a disconnected has been delivered in the current attempt
    for e in log:
        if e[0] == 'cb' and e[1] == 'connection_requested':
            seen_disc = False
        elif e[0] == 'cb' and e[1] == 'disconnected':
            seen_disc = True
        if e[0] == 'cb' and e[1] in ('connected', 'fully_connected') and len(e) > 4:
            c = e[4]
            if e[1] == 'fully_connected' and seen_disc and 'error' not in c and c['n_param'] == 0 and want_par > 0:
                # fully_connected signalled, after the attempt's own disconnected, on the parameter table that this
                # disconnect has just cleared: "every parameter has a value" holds vacuously.  At the scheduler's granularity the unchanged code never does this (it tests
                # the link right before it reads the table), so it is not part of known finding F02c
                out.append({'class': 'fully_connected_on_cleared_table', 'detail': {'seen': c, 'device': [want_log, want_par]}})
            elif 'error' in c or (c['n_log'], c['n_param']) != (want_log, want_par):
                out.append({'class': 'connected_with_incomplete_tables', 'detail': {'callback': e[1], 'seen': c,
                                                                                  'device': [want_log, want_par]}})
            elif e[1] == 'fully_connected' and c['params_without_value']:
                out.append({'class': 'fully_connected_before_all_values', 'detail': c})
    # ---- fan-out counts: one disconnected per close_link, one (disconnected, connection_lost) per link failure
    #      after the first packet, one connection_failed per failure before it
    closes = sum(1 for e in log if e[0] == 'ev' and e[1] == 'close')
    phase = 'idle'
    exp_d, exp_l, exp_f = closes, 0, 0
    for e in log:
        if e[0] == 'cb':
            if e[1] == 'connection_requested':
                phase = 'requested'
            elif e[1] == 'link_established' and phase == 'requested':
                phase = 'established'
            elif e[1] == 'disconnected':
                phase = 'closed'
            elif e[1] == 'connection_failed':
                phase = 'failed'
        elif e[1] == 'err':
            if phase == 'established':
                exp_d += 1
                exp_l += 1
                phase = 'closed'
            elif phase == 'requested':
                exp_f += 1
                phase = 'failed'
    exp_f += sum(1 for e in log if e[0] == 'ev' and e[1] == 'open_end_fail')
    got_d, got_l, got_f = names.count('disconnected'), names.count('connection_lost'), names.count('connection_failed')
    if not (hangs or r['dead']) and (got_d, got_l, got_f) != (exp_d, exp_l, exp_f):
        out.append({'class': 'fanout_counts', 'detail': {'expected_D_L_F': [exp_d, exp_l, exp_f],
                                                        'observed_D_L_F': [got_d, got_l, got_f]}})
    # ---- sync calls: return iff connected, raise otherwise
    for x in r['results']:
        if x[0] == 'reconnect' and x[1] != 'ok' and not out:
            out.append({'class': 'cannot_reconnect', 'detail': x})
    if r.get('sent_after_close'):
        pass   # transmissions on a closed link belong to C10
    if any(e[0] == 'ev' and e[1] == 'sync_open_ok:not_open' for e in log):
        # SyncCrazyflie.open_link returned normally although its disconnected handler had already run
        out.append({'class': 'sync_open_returned_on_dead_link', 'detail': [e[1] for e in log][-12:]})
    sy = r.get('sync')
    if sy and not (hangs or r['dead'] or r['stuck']):
        # quiescent end of the run: the invariant proved for the model (C02_sync_open_flag_sound)
        if (sy['is_open'] and not (sy['link'] and sy['registered'])) or sy['disconnect_event_armed']:
            out.append({'class': 'sync_open_flag_on_dead_link', 'detail': sy})
    evs = [e[1] for e in log if e[0] == 'ev']
    if not (hangs or r['dead'] or r['stuck']) and evs and evs[-1] in ('close', 'err'):
        if not r['link_none'] or r['state'] != 0:
            out.append({'class': 'not_disconnected_at_end', 'detail': {'state': r['state'], 'link_none': r['link_none']}})
    return out
