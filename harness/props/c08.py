"""C08 — every command packet decodes to the caller's arguments under the firmware layout.

generate(): translator (T-tie) harness/trans/c08_layouts.py -> coq/C08/Gen_Layout.v, re-proved every run.
tie():      V-tie.  The real methods are called on a real Crazyflie object whose link records the packets;
            the same call is evaluated by the Coq model (run (impl_action c) cfg env, vm_compute) and the
            outcomes (port, channel, payload bytes | exception class | nothing sent) must be equal.
            Plus the header byte for every port/channel, exhaustively.
oracle():   independent of model and translator: a reference decoder written from the firmware structs
            (REF_* tables below) decodes what was sent, and the result is compared with the caller's
            arguments as the property text says (float32 resolution, thousandths truncated, sign
            conventions, version switches, raises for what cannot be represented, one packet <= 30 bytes,
            header lossless).
"""
import contextlib
import io
import math
import os
import struct
import sys
import warnings
from fractions import Fraction

from core import coqrun

ID = 'C08'
PROPERTY_FILE = 'C08/Property.v'
PROPERTY_FILES = ['C08/Property.v', 'C08/Examples.v', 'C08/PropertyCore.v', 'C08/SnapshotProperty.v', 'C08/VersionProperty.v',
                  'C08/HeaderProperty.v', 'C08/HistoryProperty.v', 'C08/FloatProperty.v']
# hand-written obligations that do not depend on Gen_Layout.v: still checked when the translator fails closed
PROPERTY_FILES_NO_GEN = ['C08/PropertyCore.v', 'C08/SnapshotProperty.v', 'C08/VersionProperty.v', 'C08/HeaderProperty.v',
                         'C08/HistoryProperty.v', 'C08/FloatProperty.v']
LEVEL = 'proof'
# the integer/byte-level theorems are closed; only the real-number resolution theorems (Flocq) use the reals' axioms
ALLOWED_AXIOMS = {'C08/Property.v': (), 'C08/Examples.v': (), 'C08/PropertyCore.v': (), 'C08/SnapshotProperty.v': (), 'C08/VersionProperty.v': (), 'C08/HeaderProperty.v': (), 'C08/HistoryProperty.v': (),
                  'C08/FloatProperty.v': coqrun.REAL_AXIOMS}
TRUSTED_BASE = [
    'coq/C08/FwLayout.v: hand-written transcription of the firmware packed structs, sign conventions and type-byte '
    'dispatch (firmware source not available offline) and of the documented meaning of each method; this is the '
    'specification and must be audited by a reader',
    'harness/trans/c08_layouts.py: fail-closed ast translator producing coq/C08/Gen_Layout.v on every run; its output is '
    'additionally validated by executing the generated trees in Coq against the real methods (V-tie)',
    'coq/C08/PyVal.v: model of the Python value semantics used by the encoders (int/bool/float/None arithmetic, int(), '
    'comparisons, struct.pack conversions and their exception classes); IEEE-754 arithmetic and rounding are those of '
    'the Coq standard library (Floats.SpecFloat); tied to CPython differentially',
    'compress_quaternion (property C13) is an opaque codec here: its 32-bit result is an input of the model',
]
ASSUMPTIONS = [
    'arguments are Python ints, bools, floats or None (objects with __index__/__float__, numpy scalars, are outside the model)',
    'vector parameters have the documented length (pos/vel/acc/position 3, quaternion 4)',
    'NaN payload/sign bits are not modelled: all NaNs are compared as one value',
]
PROVED = ('For every command method, protocol version, X-mode setting and argument values (unbounded ints, every binary64 '
          'value, bools, None): if the model of the current code sends a packet then it is a single payload of at most 30 '
          'bytes on the documented port/channel, the firmware-side decoder of FwLayout.v recognises it as that command '
          'under that protocol version and every decoded field equals the conversion of the caller\'s argument '
          '(float32 rounding, thousandths truncated toward zero, firmware sign flips undone, X-mode rotation, spiral '
          'clamps, yaw None -> useCurrentYaw); integer arguments outside the field range, thrust outside 0..65535, '
          'floats beyond binary32 range and fixed-point values beyond int16 raise; the header byte is lossless for '
          '16 x 4 port/channel pairs; LH persist masks have bit b set iff b is in the list.  Over the reals (Flocq, '
          'FloatProperty.v): every float field is the round-to-nearest-even binary32 of the argument, |f32(x)-x| <= 2^-24|x| '
          'for 2^-126 <= |x| <= max float32, OverflowError iff the rounding reaches 2^128; every thousandths field t has '
          'floor(1000x) <= t <= ceil(1000x), |t-1000x| < 1 inside int16 and raises outside.')
NOT_PROVED = ('A relative error bound for float32 results in the subnormal range; real-number meaning of the binary64 X-mode '
              'products; the unit of the full-state rates is a known finding (F08b: docstring degrees/s, firmware millirad/s); '
              'Localization.send_short_lpp_packet with arbitrary bytes is only shown to be [2, dest] ++ data.')

HERE = os.path.dirname(os.path.dirname(os.path.abspath(__file__)))


# ====================================================================================== translator
def generate(ctx):
    from trans import c08_layouts
    info = c08_layouts.generate(ctx.repo, coqrun.COQ_DIR)
    _state['info'] = info
    return {'commands': len(info), 'file': 'coq/C08/Gen_Layout.v',
            'sources': sorted({v['file'] for v in info.values()})}


_state = {}


def _info(ctx):
    if 'info' not in _state:
        from trans import c08_layouts
        _state['info'] = c08_layouts.translate(ctx.repo)[1]
    return _state['info']


# ====================================================================================== the commands (oracle side)
# Written from the documentation of each method; independent of the translator.
# kinds: f = float argument sent as float32; u8/u16/u32 = integer argument; flag = boolean sent in one byte;
#        f3/f4 = vector of floats; mm3 = vector sent as int16 thousandths; mm = scalar sent as int16 thousandths;
#        quat = quaternion through compress_quaternion; optf = float or None; ilist = list of ints; raw = bytes
CMDS = {
    'CSetpoint': ('commander', 'send_setpoint', [('roll', 'f'), ('pitch', 'f'), ('yawrate', 'f'), ('thrust', 'u16')]),
    'CNotifyStop': ('commander', 'send_notify_setpoint_stop', [('remain_valid_milliseconds', 'u32', 0)]),
    'CStopSetpoint': ('commander', 'send_stop_setpoint', []),
    'CVelocityWorld': ('commander', 'send_velocity_world_setpoint', [('vx', 'f'), ('vy', 'f'), ('vz', 'f'), ('yawrate', 'f')]),
    'CZDistance': ('commander', 'send_zdistance_setpoint', [('roll', 'f'), ('pitch', 'f'), ('yawrate', 'f'), ('zdistance', 'f')]),
    'CHover': ('commander', 'send_hover_setpoint', [('vx', 'f'), ('vy', 'f'), ('yawrate', 'f'), ('zdistance', 'f')]),
    'CFullState': ('commander', 'send_full_state_setpoint',
                   [('pos', 'mm3'), ('vel', 'mm3'), ('acc', 'mm3'), ('orientation', 'quat'),
                    ('rollrate', 'mm'), ('pitchrate', 'mm'), ('yawrate', 'mm')]),
    'CPosition': ('commander', 'send_position_setpoint', [('x', 'f'), ('y', 'f'), ('z', 'f'), ('yaw', 'f')]),
    'CHlGroupMask': ('high_level_commander', 'set_group_mask', [('group_mask', 'u8', 0)]),
    'CHlTakeoff': ('high_level_commander', 'takeoff',
                   [('absolute_height_m', 'f'), ('duration_s', 'f'), ('group_mask', 'u8', 0), ('yaw', 'optf', 0.0)]),
    'CHlLand': ('high_level_commander', 'land',
                [('absolute_height_m', 'f'), ('duration_s', 'f'), ('group_mask', 'u8', 0), ('yaw', 'optf', 0.0)]),
    'CHlStop': ('high_level_commander', 'stop', [('group_mask', 'u8', 0)]),
    'CHlGoTo': ('high_level_commander', 'go_to',
                [('x', 'f'), ('y', 'f'), ('z', 'f'), ('yaw', 'f'), ('duration_s', 'f'), ('relative', 'flag', False),
                 ('linear', 'flag', False), ('group_mask', 'u8', 0)]),
    'CHlSpiral': ('high_level_commander', 'spiral',
                  [('angle', 'f'), ('r0', 'f'), ('rF', 'f'), ('ascent', 'f'), ('duration_s', 'f'),
                   ('sideways', 'flag', False), ('clockwise', 'flag', False), ('group_mask', 'u8', 0)]),
    'CHlStartTraj': ('high_level_commander', 'start_trajectory',
                     [('trajectory_id', 'u8'), ('time_scale', 'f', 1.0), ('relative', 'flag', False),
                      ('reversed', 'flag', False), ('group_mask', 'u8', 0)]),
    'CHlDefineTraj': ('high_level_commander', 'define_trajectory',
                      [('trajectory_id', 'u8'), ('offset', 'u32'), ('n_pieces', 'u8'), ('type', 'u8', 0)]),
    'CLocExtPos': ('loc', 'send_extpos', [('pos', 'f3')]),
    'CLocExtPose': ('loc', 'send_extpose', [('pos', 'f3'), ('quat', 'f4')]),
    'CLocShortLpp': ('loc', 'send_short_lpp_packet', [('dest_id', 'u8'), ('data', 'raw')]),
    'CLocEmergencyStop': ('loc', 'send_emergency_stop', []),
    'CLocEmergencyWatchdog': ('loc', 'send_emergency_stop_watchdog', []),
    'CLocLhPersist': ('loc', 'send_lh_persist_data_packet', [('geo_list', 'ilist'), ('calib_list', 'ilist')]),
    'CExtposPos': ('extpos', 'send_extpos', [('x', 'f'), ('y', 'f'), ('z', 'f')]),
    'CExtposPose': ('extpos', 'send_extpose', [('x', 'f'), ('y', 'f'), ('z', 'f'), ('qx', 'f'), ('qy', 'f'), ('qz', 'f'), ('qw', 'f')]),
    'CPlatContWave': ('platform', 'set_continous_wave', [('enabled', 'flag')]),
    'CPlatArming': ('platform', 'send_arming_request', [('do_arm', 'flag')]),
    'CPlatCrashRecovery': ('platform', 'send_crash_recovery_request', []),
    'CLpsSetPosition': ('lopo', 'set_position', [('anchor_id', 'u8'), ('position', 'f3')]),
    'CLpsReboot': ('lopo', 'reboot', [('anchor_id', 'u8'), ('mode', 'u8')]),
    'CLpsSetMode': ('lopo', 'set_mode', [('anchor_id', 'u8'), ('mode', 'u8')]),
}
ORDER = list(CMDS)
VEC_LEN = {'f3': 3, 'f4': 4, 'mm3': 3}
INT_RANGE = {'u8': (0, 255), 'u16': (0, 65535), 'u32': (0, 2 ** 32 - 1)}

FLT_MAX = 3.4028234663852886e38
TWO_PI = 2 * math.pi


# ====================================================================================== running the real code
class _Link:
    """Keeps packet REFERENCES, like the real drivers: RadioDriver.send_packet puts the CRTPPacket object into its
    out_queue and the radio thread reads pk.header / pk.data only when it transmits, possibly several packets later.
    send_packet() enqueues the object; transmit(keep) lets the simulated radio send the oldest packets until at most
    `keep` are left, reading header, port, channel and data AT THAT MOMENT."""
    needs_resending = False

    def __init__(self):
        self.queue = []
        self.new = []

    def send_packet(self, pk):
        e = {'pk': pk, 'tx': None}
        self.queue.append(e)
        self.new.append(e)

    def transmit(self, keep=0):
        while len(self.queue) > keep:
            e = self.queue.pop(0)
            pk = e['pk']
            e['tx'] = (pk.header, pk.port, pk.channel, bytes(pk.data))

    def discard(self):
        del self.queue[:]
        del self.new[:]

    def close(self):
        pass


def _rig():
    if 'rig' not in _state:
        from cflib.crazyflie import Crazyflie
        from lpslib.lopoanchor import LoPoAnchor
        cf = Crazyflie(rw_cache=None)
        link = _Link()
        cf.link = link
        _state['rig'] = (cf, link, LoPoAnchor(cf))
    return _state['rig']


EXN_CODE = {'ValueError': 1, 'error': 2, 'OverflowError': 3, 'TypeError': 4}


def call_impl(cmd, ver, xm, pyargs, by_keyword=False, omit_defaults=False, set_version=True, lag=0):
    """Call the real method.  pyargs: list of Python values, one per API parameter.
    lag: how many packets the radio may stay behind after this call (0: it transmits everything at once).
    -> ('sent', header, port, chan, bytes) | ('raise', class name) | ('none',) | ('multi', n)
       | ('pending', queue entry) when the packet of this call has not been transmitted yet"""
    cf, link, lopo = _rig()
    objname, meth, params = CMDS[cmd]
    obj = lopo if objname == 'lopo' else getattr(cf, objname)
    if set_version:           # single-call use (replay of old corpus entries); sessions drive the version themselves
        cf.platform._protocolVersion = ver
    cf.commander.set_client_xmode(xm)
    del link.new[:]
    args = [(bytes(a) if p[1] == 'raw' else list(a)) if isinstance(a, list) else a for p, a in zip(params, pyargs)]
    kw = {}
    if omit_defaults:
        while args and len(params[len(args) - 1]) == 3 and _same(args[-1], params[len(args) - 1][2]):
            args.pop()
    if by_keyword:
        kw = {p[0]: a for p, a in zip(params, args)}
        args = []
    out = io.StringIO()
    try:
        with warnings.catch_warnings(), contextlib.redirect_stdout(out), _np_quiet():
            warnings.simplefilter('ignore')
            getattr(obj, meth)(*args, **kw)
    except Exception as e:  # noqa
        if link.new:
            link.transmit(0)
            return ('sent+raise', type(e).__name__, len(link.new))
        return ('raise', type(e).__name__)
    if not link.new:
        return ('none',)
    if len(link.new) > 1:
        link.transmit(0)
        return ('multi', len(link.new))
    entry = link.new[0]
    link.transmit(lag)
    if entry['tx'] is None:
        return ('pending', entry)
    return ('sent',) + entry['tx']


def _same(a, b):
    if type(a) is not type(b):
        return False
    if isinstance(a, float):
        return f64_bits(a) == f64_bits(b)          # -0.0 is not the default 0.0
    return a == b


# ---------------------------------------------------------------- session histories on ONE set of objects
# A history is a list of steps executed on the same Crazyflie / Commander / HighLevelCommander / Localization /
# PlatformService objects, through the library's own entry points:
#   connect     cf.platform.fetch_platform_informations(cb): the version becomes -1 until the firmware answers
#   answer v    the firmware's protocol-version answer is delivered to PlatformService._platform_callback
#   disconnect  cf.disconnected callbacks fire (what close_link / a lost link does)
#   call        one command method; it must be encoded for the version in force at that moment
def rig_new_objects():
    """fresh Commander / HighLevelCommander / Localization / Extpos / LoPoAnchor on the Crazyflie: every history starts
    from newly constructed objects, so a failing history is a self-contained witness"""
    from cflib.crazyflie.commander import Commander
    from cflib.crazyflie.extpos import Extpos
    from cflib.crazyflie.high_level_commander import HighLevelCommander
    from cflib.crazyflie.localization import Localization
    from lpslib.lopoanchor import LoPoAnchor
    cf, link, _ = _rig()
    for cb in [cb for cb in cf.incoming.cb if getattr(cb.callback, '__self__', None) is cf.loc]:
        cf.incoming.cb.remove(cb)
    cf.commander = Commander(cf)
    cf.high_level_commander = HighLevelCommander(cf)
    cf.loc = Localization(cf)
    cf.extpos = Extpos(cf)
    _state['rig'] = (cf, link, LoPoAnchor(cf))


def rig_connect():
    cf, link, _ = _rig()
    link.transmit(0)
    cf.platform.fetch_platform_informations(lambda: None)
    _state['dev_ver'] = -1                      # nothing reported yet
    link.discard()                              # the negotiation packet is not a command


def rig_rx(chan, data):
    """a packet from the device on the platform port (13), delivered the way _IncomingPacketHandler.run does: to every
    registered callback whose port/channel registration matches (exceptions in a callback are swallowed there).  The
    harness keeps the version the DEVICE reported in its last genuine reply (channel 1 = VERSION_COMMAND, first byte 0 =
    VERSION_GET_PROTOCOL, with a version byte)."""
    from cflib.crtp.crtpstack import CRTPPacket, CRTPPort
    cf, link, _ = _rig()
    pk = CRTPPacket()
    pk.set_header(CRTPPort.PLATFORM, chan)
    pk.data = bytes(data)
    for cb in [cb for cb in cf.incoming.cb
               if cb.port == (pk.port & cb.port_mask) and cb.channel == (pk.channel & cb.channel_mask)]:
        try:
            cb.callback(pk)
        except Exception:  # noqa  (as the dispatcher thread does)
            pass
    if chan == 1 and len(data) >= 2 and data[0] == 0:
        _state['dev_ver'] = data[1]


def rig_answer(ver):
    rig_rx(1, [0, ver])                          # VERSION_COMMAND channel: VERSION_GET_PROTOCOL, version


def rig_disconnect():
    cf, link, _ = _rig()
    link.transmit(0)
    cf.disconnected.call('fake://c08')


def version_in_force():
    """the protocol version the DEVICE reported in its last genuine reply (-1: none yet): what every command has to be
    encoded for"""
    return _state.get('dev_ver', -1)


def library_version():
    return _rig()[0].platform.get_protocol_version()


def gen_noise(rng, ver):
    """other traffic on the platform port: command echoes on channel 0 for every command code, app-channel data,
    version-channel packets with other command codes, short packets, duplicates of the genuine reply"""
    r = rng.random()
    b = rng.choice([0, 1, 2, 7, 8, 9, 10, 255, rng.randrange(256)])
    if r < 0.35:
        return {'op': 'rx', 'chan': 0, 'data': [rng.choice([0, 0, 1, 2]), b][:rng.choice([1, 2, 2, 2])]}
    if r < 0.55:
        return {'op': 'rx', 'chan': 2, 'data': [rng.choice([0, 0, 1, b])] + [rng.randrange(256) for _ in range(rng.randint(0, 5))]}
    if r < 0.7:
        return {'op': 'rx', 'chan': 1, 'data': [rng.choice([1, 1, 2, 3, 255])] + [rng.randrange(256) for _ in range(rng.randint(0, 6))]}
    if r < 0.8:
        return {'op': 'rx', 'chan': 3, 'data': [0, b]}
    if r < 0.9 and ver != -1:
        return {'op': 'rx', 'chan': 1, 'data': [0, ver]}          # duplicate of the genuine reply
    return {'op': 'rx', 'chan': rng.randrange(4), 'data': [[], [0], [1]][rng.randrange(3)]}


def platform_traffic_sessions():
    """hand-written: handshake, then a platform command and its firmware echo (or other port-13 traffic), then the
    version-dependent commands"""
    def call(cmd, args):
        return {'op': 'call', 'case': {'cmd': cmd, 'ver': None, 'xm': False, 'args': list(args)}, 'lag': 0}
    a4 = [1.0, 2.0, 3.0, 4.0]
    dep = lambda: [call('CHover', a4), call('CZDistance', a4), call('CVelocityWorld', a4),                  # noqa
                   call('CHlGoTo', [1.0, 2.0, 3.0, 0.5, 2.0, True, True, 3]),
                   call('CHlSpiral', [1.0, 0.5, 1.5, 0.25, 3.0, True, False, 0])]
    out = []
    for ver in (10, 9, 8):
        traffic = [
            [call('CPlatContWave', [True]), {'op': 'rx', 'chan': 0, 'data': [0, 1]}],
            [call('CPlatContWave', [False]), {'op': 'rx', 'chan': 0, 'data': [0, 0]}],
            [call('CPlatArming', [True]), {'op': 'rx', 'chan': 0, 'data': [1, 1]}],
            [call('CPlatCrashRecovery', []), {'op': 'rx', 'chan': 0, 'data': [2]}],
            [{'op': 'rx', 'chan': 2, 'data': [0, 3, 1, 4]}],
            [{'op': 'rx', 'chan': 1, 'data': [1, 4, 5, 6, 7]}],
            [{'op': 'rx', 'chan': 3, 'data': [0, 5]}],
            [{'op': 'rx', 'chan': 1, 'data': [0, ver]}, {'op': 'rx', 'chan': 1, 'data': [0]}, {'op': 'rx', 'chan': 0, 'data': []}],
        ]
        for t in traffic:
            out.append([{'op': 'connect'}, {'op': 'answer', 'ver': ver}] + t + dep() + [{'op': 'disconnect'}])
    return out


def build_sessions(cases, rng, keep_ver=False):
    """Group calls into sessions.  keep_ver: consecutive calls with the same version form a session (hand-picked
    cases); otherwise a session of 2..9 calls gets the version of its first call.  In about half of the sessions
    1..3 calls are made BEFORE the version answer arrives (version -1 in force)."""
    sessions = []
    i = 0
    while i < len(cases):
        n = rng.randint(2, 9)
        v = cases[i]['ver']
        j = i + 1
        while j < len(cases) and j - i < n and (not keep_ver or cases[j]['ver'] == v):
            j += 1
        chunk = cases[i:j]
        i = j
        pre = 0 if (v == -1 or keep_ver or rng.random() < 0.5) else rng.randint(1, min(3, len(chunk)))
        steps = [{'op': 'connect'}]
        lagmax = rng.choice([0, 0, 1, 2, 3])          # how far the radio may fall behind in this session
        for k, c in enumerate(chunk):
            if k == pre and v != -1:
                steps.append({'op': 'answer', 'ver': v})
            c['ver'] = -1 if k < pre else v
            if rng.random() < 0.3:
                steps.append(gen_noise(rng, -1 if k < pre else v))
            steps.append({'op': 'call', 'case': c, 'lag': rng.randint(0, lagmax)})
        if pre >= len(chunk) and v != -1:
            steps.append({'op': 'answer', 'ver': v})
        steps.append({'op': 'disconnect'})
        sessions.append(steps)
    return sessions


def version_race_sessions():
    """hand-written histories around the version negotiation: setpoints before the answer, after it, and on a
    reconnect to a firmware of another generation"""
    def call(cmd, args, xm=False):
        return {'op': 'call', 'case': {'cmd': cmd, 'ver': None, 'xm': xm, 'args': list(args)}}
    out = []
    for first, second in ((9, 8), (8, 9), (10, 7), (7, 10)):
        for early in ('CHover', 'CZDistance', 'CVelocityWorld', 'CHlGoTo'):
            a4 = [1.0, 2.0, 3.0, 4.0]
            g = [1.0, 2.0, 3.0, 0.5, 2.0, True, True, 3]
            steps = [{'op': 'connect'}, call(early, g if early == 'CHlGoTo' else a4), {'op': 'answer', 'ver': first}]
            steps += [call('CHover', a4), call('CZDistance', a4), call('CVelocityWorld', a4), call('CHlGoTo', g),
                      call('CHlSpiral', [1.0, 0.5, 1.5, 0.25, 3.0, True, False, 0]), {'op': 'disconnect'},
                      {'op': 'connect'}, {'op': 'answer', 'ver': second},
                      call('CHover', a4), call('CZDistance', a4), call('CVelocityWorld', a4), call('CHlGoTo', g),
                      {'op': 'disconnect'}]
            out.append(steps)
    return out


def back_to_back_sessions():
    """command sequences issued back to back on ONE commander object while the radio is behind"""
    def call(cmd, args, lag, xm=False):
        return {'op': 'call', 'case': {'cmd': cmd, 'ver': None, 'xm': xm, 'args': list(args)}, 'lag': lag}
    seqs = [
        [call('CHlDefineTraj', [1, 0, 3, 0], 1), call('CHlStartTraj', [1, 1.0, False, False, 0], 1)],
        [call('CHlTakeoff', [1.0, 2.0, 0, 0.0], 3), call('CHlGoTo', [1.0, 2.0, 3.0, 0.5, 2.0, False, False, 0], 3),
         call('CHlLand', [0.0, 2.0, 0, 0.0], 3), call('CHlStop', [0], 3)],
        [call('CHover', [1.0, 2.0, 3.0, 4.0], 2), call('CHover', [0.5, 0.25, -3.0, 0.4], 2),
         call('CSetpoint', [1.0, 2.0, 3.0, 1000], 2), call('CStopSetpoint', [], 2), call('CNotifyStop', [10], 0)],
        [call('CPosition', [1.0, 2.0, 3.0, 4.0], 1), call('CVelocityWorld', [0.1, 0.2, 0.3, 0.4], 1),
         call('CZDistance', [1.0, 2.0, 3.0, 4.0], 1)],
        [call('CLocExtPos', [[1.0, 2.0, 3.0]], 1), call('CLocExtPos', [[4.0, 5.0, 6.0]], 1),
         call('CLocExtPose', [[1.0, 2.0, 3.0], [0.0, 0.0, 0.0, 1.0]], 1), call('CLocEmergencyWatchdog', [], 0)],
        [call('CPlatArming', [True], 1), call('CPlatArming', [False], 1), call('CPlatCrashRecovery', [], 0)],
        [call('CLpsSetMode', [1, 2], 1), call('CLpsReboot', [2, 1], 1), call('CLpsSetPosition', [3, [1.0, 2.0, 3.0]], 0)],
    ]
    out = []
    for ver in (9, 7):
        for seq in seqs:
            out.append([{'op': 'connect'}, {'op': 'answer', 'ver': ver}] + [dict(st, case=dict(st['case'], args=list(st['case']['args'])))
                                                                          for st in seq] + [{'op': 'disconnect'}])
    return out


def hl_history_sessions():
    """call histories on ONE HighLevelCommander: define_trajectory with every type x start_trajectory with every
    relative/reversed combination and several time scales, same and different ids, take-off / go-to / land in between:
    every packet must decode to the arguments of ITS OWN call"""
    def call(cmd, args):
        return {'op': 'call', 'case': {'cmd': cmd, 'ver': None, 'xm': False, 'args': list(args)}, 'lag': 0}
    out = []
    for ver in (9, 7):
        for ty in (0, 1, 2, 255):
            for other in (False, True):
                steps = [{'op': 'connect'}, {'op': 'answer', 'ver': ver},
                         call('CHlDefineTraj', [3, 0, 2, ty]), call('CHlTakeoff', [1.0, 2.0, 0, 0.0])]
                if other:
                    steps.append(call('CHlDefineTraj', [4, 64, 5, 1 - ty if ty in (0, 1) else 1]))
                k = 0
                for rel in (False, True):
                    for rev in (False, True):
                        for ts in (1.0, 2.0, 0.5, -1.0):
                            k += 1
                            steps.append(call('CHlStartTraj', [3 if (k % 3 or not other) else 4, ts, rel, rev, k % 2]))
                            if k % 5 == 0:
                                steps.append(call('CHlGoTo', [1.0, 2.0, 3.0, 0.5, 2.0, rel, rev, 0]))
                            if k % 7 == 0:
                                steps.append(call('CHlDefineTraj', [3, 8, 1, ty]))
                steps += [call('CHlLand', [0.0, 2.0, 0, None]), call('CHlStartTraj', [3, 3.0, True, True, 0]),
                          call('CHlStop', [0]), {'op': 'disconnect'}]
                out.append(steps)
    return out


def run_sessions(sessions):
    """execute every history; each call step gets case['ver'] = version in force and case['out'] = outcome"""
    n = 0
    link = _rig()[1]
    for steps in sessions:
        rig_new_objects()
        pending = []

        def resolve(idx):
            for item in list(pending):
                c, entry = item
                if entry['tx'] is not None:
                    o = ('sent',) + entry['tx']
                    c['out'] = canon_nans(o, c['ver']) if has_nan_risk(c) else o
                    c['_tx_at'] = idx
                    pending.remove(item)
        for idx, st in enumerate(steps):
            if st['op'] == 'connect':
                rig_connect()
            elif st['op'] == 'answer':
                rig_answer(st['ver'])
            elif st['op'] == 'rx':
                rig_rx(st['chan'], st['data'])
            elif st['op'] == 'disconnect':
                rig_disconnect()                     # the radio drains its queue first
            else:
                c = st['case']
                c['ver'] = version_in_force()
                o = call_impl(c['cmd'], c['ver'], c['xm'], c['args'], by_keyword=c.get('kw', False),
                              omit_defaults=c.get('omit', False), set_version=False, lag=st.get('lag', 0))
                c['_tx_at'] = idx
                if o[0] == 'pending':
                    pending.append((c, o[1]))
                else:
                    c['out'] = canon_nans(o, c['ver']) if has_nan_risk(c) else o
                n += 1
            resolve(idx)
        link.transmit(0)
        resolve(len(steps) - 1)
    return n


def history_json(steps, upto_case):
    """the history up to the step after which the packet of upto_case had been transmitted (later calls on the same
    objects belong to it: they may have touched the queued packet), JSON-safe; the judged call is marked"""
    out = []
    last = upto_case.get('_tx_at', len(steps) - 1)
    for idx, st in enumerate(steps):
        if idx > last:
            break
        if st['op'] == 'call':
            c = st['case']
            d = {'op': 'call', 'cmd': c['cmd'], 'xmode': c['xm'], 'args': _enc_args(c['args']), 'lag': st.get('lag', 0),
                 'by_keyword': c.get('kw', False), 'omit_defaults': c.get('omit', False)}
            if c is upto_case:
                d['judge'] = True
            out.append(d)
        else:
            out.append(dict(st))
    return out


def shrink_history(hist):
    """drop earlier calls of the failing history that are not needed for the failure (greedy)"""
    def fails(h):
        f = replay_history(h)
        return f is not None
    if not fails(hist):
        return hist
    i = 0
    while i < len(hist):
        if hist[i]['op'] in ('call', 'rx') and not hist[i].get('judge'):
            cand = hist[:i] + hist[i + 1:]
            if fails(cand):
                hist = cand
                continue
        i += 1
    return hist


def replay_history(hist):
    """run a JSON history on the rig (after a disconnect, so that nothing of an earlier history is left); judge the
    marked call (the last one if none is marked) on what the radio transmitted for it"""
    rig_disconnect()
    rig_new_objects()
    link = _rig()[1]
    calls = []
    for st in hist:
        if st['op'] == 'connect':
            rig_connect()
        elif st['op'] == 'answer':
            rig_answer(st['ver'])
        elif st['op'] == 'rx':
            rig_rx(st['chan'], st['data'])
        elif st['op'] == 'disconnect':
            rig_disconnect()
        else:
            args = _dec_args(st['args'])
            ver = version_in_force()
            o = call_impl(st['cmd'], ver, st['xmode'], args, by_keyword=st.get('by_keyword', False),
                          omit_defaults=st.get('omit_defaults', False), set_version=False, lag=st.get('lag', 0))
            calls.append([st, ver, args, o])
    link.transmit(0)
    rig_disconnect()
    if not calls:
        return None
    marked = [c for c in calls if c[0].get('judge')] or [calls[-1]]
    st, ver, args, o = marked[0]
    if o[0] == 'pending':
        o = ('sent',) + o[1]['tx']
    f = judge(st['cmd'], ver, st['xmode'], args, o)
    if f:
        f['version_in_force'] = ver
    return f


@contextlib.contextmanager
def _np_quiet():
    import numpy as np
    with np.errstate(all='ignore'):
        yield


def impl_code(o):
    """outcome -> list of ints as Model.outcome_code (port/channel read back from the header byte)"""
    if o[0] == 'sent':
        h = o[1]
        return [0, (h >> 4) & 15, h & 3] + list(o[4])
    if o[0] == 'raise':
        return [1, EXN_CODE.get(o[1], 5)]
    if o[0] == 'none':
        return [2]
    return [9, 9]


# ====================================================================================== Coq terms
def f64_bits(x):
    return struct.unpack('<Q', struct.pack('<d', x))[0]


def coq_val(v):
    if v is None:
        return 'PNone'
    if isinstance(v, bool):
        return 'PBool true' if v else 'PBool false'
    if isinstance(v, int):
        return 'PInt %s' % coqrun.z(v)
    if isinstance(v, float):
        return 'F %d' % f64_bits(v)
    raise TypeError(v)


def codec_result(orientation):
    from cflib.utils.encoding import compress_quaternion
    try:
        with warnings.catch_warnings(), _np_quiet():
            warnings.simplefilter('ignore')
            r = compress_quaternion(list(orientation))
        return ('Ok', int(r))
    except Exception as e:  # noqa
        return ('Raise', {1: 'EValue', 2: 'EStruct', 3: 'EOverflow', 4: 'EType'}.get(EXN_CODE.get(type(e).__name__, 5), 'EOther'))


def model_term(cmd, ver, xm, pyargs):
    """the Coq term evaluating the model on the same call (slot layout from the oracle-side table)"""
    scal, lists, codecs, tail = [], [], [], []
    for (p, a) in zip(CMDS[cmd][2], pyargs):
        k = p[1]
        if k in VEC_LEN:
            scal += list(a)
        elif k == 'quat':
            codecs.append(codec_result(a))
        elif k == 'ilist':
            lists.append(list(a))
        elif k == 'raw':
            tail = list(a)
        else:
            scal.append(a)
    return ('outcome_code (run (impl_action %s) {| c_ver := %s; c_xmode := %s |} '
            '{| e_args := [%s]; e_lists := [%s]; e_codecs := [%s]; e_tail := %s |})' % (
                cmd, coqrun.z(ver), coqrun.coq_bool(xm), '; '.join(coq_val(v) for v in scal),
                '; '.join(coqrun.zlist(l) for l in lists),
                '; '.join('%s %s' % (t, coqrun.z(v) if t == 'Ok' else v) for (t, v) in codecs),
                coqrun.zlist(tail)))


HEADER = ('From CF Require Import Common.Bytes Common.Struct C08.PyVal C08.Model C08.Gen_Layout.\n'
          'Open Scope Z_scope.\n')


# ====================================================================================== reference decoder (oracle)
# firmware structs, little-endian packed.  (name, struct format after the type byte, index of a field the
# firmware negates, first protocol version knowing the type)
REF_GENERIC = {
    0: ('stop', '', None, None),
    1: ('velocity_world_legacy', 'ffff', 3, None),     # legacy: the decoder negates the yaw rate
    2: ('zdistance_legacy', 'ffff', 2, None),
    5: ('hover_legacy', 'ffff', 2, None),
    6: ('full_state', 'hhhhhhhhhIhhh', None, None),
    7: ('position', 'ffff', None, None),
    8: ('velocity_world', 'ffff', None, 9),
    9: ('zdistance', 'ffff', None, 9),
    10: ('hover', 'ffff', None, 9),
}
REF_HL = {
    0: ('hl_group_mask', 'B', None),
    3: ('hl_stop', 'B', None),
    4: ('hl_go_to_legacy', 'BBfffff', None),
    5: ('hl_start_trajectory', 'BBBBf', None),
    6: ('hl_define_trajectory', 'BBBIB', None),
    7: ('hl_takeoff', 'Bff?f', None),
    8: ('hl_land', 'Bff?f', None),
    11: ('hl_spiral', 'BBBfffff', 8),
    12: ('hl_go_to', 'BBBfffff', 8),
}
REF_LOC_GENERIC = {3: ('emergency_stop', ''), 4: ('emergency_stop_watchdog', ''), 8: ('ext_pose', 'fffffff'),
                   11: ('lh_persist', 'HH')}
REF_LPP = {1: ('lpp_position', 'fff'), 2: ('lpp_reboot', 'B'), 3: ('lpp_mode', 'B')}
REF_PLATFORM = {0: ('cont_wave', 'B'), 1: ('arming', 'B'), 2: ('crash_recovery', '')}


def _unpack_exact(fmt, data):
    if struct.calcsize('<' + fmt) != len(data):
        return None
    return list(struct.unpack('<' + fmt, data))


def ref_decode(ver, port, chan, data):
    """-> (name, [values]) as the firmware reads them (sign flips applied), or None if it would not accept it"""
    data = bytes(data)
    if port == 3 and chan == 0:
        v = _unpack_exact('fffH', data)
        return v and ('rpyt', [v[0], -v[1], v[2], v[3]])
    if port == 7 and chan == 0 and data:
        e = REF_GENERIC.get(data[0])
        if not e or (e[3] is not None and ver < e[3]):
            return None
        v = _unpack_exact(e[1], data[1:])
        if v is None:
            return None
        if e[2] is not None:
            v[e[2]] = -v[e[2]]
        return (e[0], v)
    if port == 7 and chan == 1 and data and data[0] == 0:
        v = _unpack_exact('I', data[1:])
        return v and ('notify_setpoint_stop', v)
    if port == 8 and chan == 0 and data:
        e = REF_HL.get(data[0])
        if not e or (e[2] is not None and ver < e[2]):
            return None
        v = _unpack_exact(e[1], data[1:])
        return v is not None and (e[0], v) or None
    if port == 6 and chan == 0:
        v = _unpack_exact('fff', data)
        return v and ('ext_pos', v)
    if port == 6 and chan == 1 and data:
        if data[0] == 2 and len(data) >= 2:
            dest, msg = data[1], data[2:]
            if msg and msg[0] in REF_LPP:
                v = _unpack_exact(REF_LPP[msg[0]][1], msg[1:])
                if v is not None:
                    return (REF_LPP[msg[0]][0], [dest] + v)
            return ('lpp_raw', [dest, bytes(msg)])
        e = REF_LOC_GENERIC.get(data[0])
        if not e:
            return None
        v = _unpack_exact(e[1], data[1:])
        return v is not None and (e[0], v) or None
    if port == 13 and chan == 0 and data:
        e = REF_PLATFORM.get(data[0])
        if not e:
            return None
        v = _unpack_exact(e[1], data[1:])
        return v is not None and (e[0], v) or None
    return None


def f32(x):
    """float32 nearest to the Python number x (None if it overflows to infinity from a finite value)"""
    import numpy as np
    with np.errstate(all='ignore'):
        y = float(np.float32(x))
    if math.isinf(y) and not math.isinf(float(x)):
        return None
    return y


def same_f32(a, b):
    return (a != a and b != b) or a == b


def _is_num(x):
    return isinstance(x, (int, float)) and not isinstance(x, bool)


def expectation(cmd, ver, xm, args):
    """What the property text demands for this call.
    -> ('raise', why) | ('nothing',) | ('packet', port, chan, name, [expected values], [kinds])
    values: floats (to be compared at float32 resolution), ints (exact), ('mm', Fraction) fixed point, bools."""
    either = None
    a = dict(zip([p[0] for p in CMDS[cmd][2]], args))
    if cmd == 'CHlSpiral' and ver < 8:
        return ('nothing',)          # documented: not supported before protocol version 8, only a warning
    if cmd == 'CSetpoint' and xm and all(_is_num(x) or isinstance(x, bool) for x in args[:2]):
        # documented: client-side X-mode recalculates roll and pitch before sending; what must be representable
        # are the recalculated values
        args = list(args)
        args[0], args[1] = 0.707 * (args[0] - args[1]), 0.707 * (args[0] + args[1])
        a = dict(zip([p[0] for p in CMDS[cmd][2]], args))
        xm = False
    if cmd == 'CHlSpiral':
        # documented: angle limited to +-2pi, radii must be positive (negative ones are replaced by 0)
        args = list(args)
        if args[0] == args[0]:
            args[0] = min(max(args[0], -TWO_PI), TWO_PI)
        args[1] = 0.0 if args[1] < 0 else args[1]
        args[2] = 0.0 if args[2] < 0 else args[2]
        a = dict(zip([p[0] for p in CMDS[cmd][2]], args))
    # ---- what cannot be represented must raise
    for (name, kind), val in zip([(p[0], p[1]) for p in CMDS[cmd][2]], args):
        vals = list(val) if kind in VEC_LEN else [val]
        for v in vals:
            if kind in INT_RANGE:
                lo, hi = INT_RANGE[kind]
                if not isinstance(v, int) or not (lo <= v <= hi):       # bool is an int (0/1)
                    return ('raise', '%s=%r outside %s' % (name, v, kind))
            elif kind in ('f', 'f3', 'f4', 'optf'):
                if v is None and kind == 'optf':
                    continue
                if f32(v) is None:
                    return ('raise', '%s=%r beyond float32' % (name, v))
            elif kind in ('mm', 'mm3'):
                if v != v or math.isinf(v):
                    return ('raise', '%s=%r has no fixed-point value' % (name, v))
                x1000 = Fraction(v) * 1000         # representable iff trunc(x*1000) in -32768..32767
                eps = Fraction(1, 1000)
                if x1000 >= 32768 + eps or x1000 <= -32769 - eps:
                    return ('raise', '%s=%r beyond int16 thousandths' % (name, v))
                if x1000 > 32768 - eps or x1000 < -32769 + eps:
                    either = '%s=%r at the int16 boundary' % (name, v)
        if kind == 'ilist' and any((not 0 <= b <= 15) for b in val):
            return ('raise', '%s has an entry outside 0..15' % name)
        if kind == 'raw' and len(val) + 2 > 30:
            return ('raise', 'payload longer than 30 bytes')
    if cmd == 'CFullState':
        q = a['orientation']
        if any(x != x or math.isinf(x) for x in q) or all(x == 0 for x in q):
            return ('either', 'quaternion cannot be normalised (codec: C13)')
    if either:
        return ('either', either)
    # x-mode / clamps can overflow float32 even when the arguments do not
    def need(*xs):
        return any(f32(x) is None for x in xs)
    if cmd == 'CSetpoint':
        r, p = a['roll'], a['pitch']
        if xm:
            r, p = 0.707 * (r - p), 0.707 * (r + p)
        if need(r, p):
            return ('raise', 'x-mode result beyond float32')
        return ('packet', 3, 0, 'rpyt', [r, p, a['yawrate'], a['thrust']])
    if cmd == 'CNotifyStop':
        return ('packet', 7, 1, 'notify_setpoint_stop', [a['remain_valid_milliseconds']])
    if cmd == 'CStopSetpoint':
        return ('packet', 7, 0, 'stop', [])
    if cmd in ('CVelocityWorld', 'CZDistance', 'CHover', 'CPosition'):
        name = {'CVelocityWorld': 'velocity_world', 'CZDistance': 'zdistance', 'CHover': 'hover', 'CPosition': 'position'}[cmd]
        if cmd != 'CPosition' and ver <= 8:
            name += '_legacy'        # protocol versions up to 8 use the legacy types, 9 and later the new ones
        return ('packet', 7, 0, name, list(args))
    if cmd == 'CFullState':
        from cflib.utils.encoding import compress_quaternion
        mmv = [('mm', Fraction(x)) for x in list(a['pos']) + list(a['vel']) + list(a['acc'])]
        rates = [('mm', Fraction(a[k])) for k in ('rollrate', 'pitchrate', 'yawrate')]
        with _np_quiet():
            qc = int(compress_quaternion(list(a['orientation'])))
        return ('packet', 7, 0, 'full_state', mmv + [qc] + rates)
    if cmd in ('CHlGroupMask', 'CHlStop'):
        return ('packet', 8, 0, 'hl_group_mask' if cmd == 'CHlGroupMask' else 'hl_stop', [a['group_mask']])
    if cmd in ('CHlTakeoff', 'CHlLand'):
        use_cur = a['yaw'] is None
        return ('packet', 8, 0, 'hl_takeoff' if cmd == 'CHlTakeoff' else 'hl_land',
                [a['group_mask'], a['absolute_height_m'], 0.0 if use_cur else a['yaw'], use_cur, a['duration_s']])
    if cmd == 'CHlGoTo':
        if ver < 8:
            return ('packet', 8, 0, 'hl_go_to_legacy', [a['group_mask'], int(bool(a['relative'])), a['x'], a['y'], a['z'],
                                                      a['yaw'], a['duration_s']])
        return ('packet', 8, 0, 'hl_go_to', [a['group_mask'], int(bool(a['relative'])), int(bool(a['linear'])),
                                             a['x'], a['y'], a['z'], a['yaw'], a['duration_s']])
    if cmd == 'CHlSpiral':
        if ver < 8:
            return ('nothing',)
        return ('packet', 8, 0, 'hl_spiral', [a['group_mask'], int(bool(a['sideways'])), int(bool(a['clockwise'])), a['angle'],
                                              a['r0'], a['rF'], a['ascent'], a['duration_s']])
    if cmd == 'CHlStartTraj':
        return ('packet', 8, 0, 'hl_start_trajectory', [a['group_mask'], int(bool(a['relative'])), int(bool(a['reversed'])),
                                                        a['trajectory_id'], a['time_scale']])
    if cmd == 'CHlDefineTraj':
        return ('packet', 8, 0, 'hl_define_trajectory', [a['trajectory_id'], 1, a['type'], a['offset'], a['n_pieces']])
    if cmd == 'CLocExtPos':
        return ('packet', 6, 0, 'ext_pos', list(a['pos']))
    if cmd == 'CExtposPos':
        return ('packet', 6, 0, 'ext_pos', [a['x'], a['y'], a['z']])
    if cmd == 'CLocExtPose':
        return ('packet', 6, 1, 'ext_pose', list(a['pos']) + list(a['quat']))
    if cmd == 'CExtposPose':
        return ('packet', 6, 1, 'ext_pose', list(args))
    if cmd == 'CLocShortLpp':
        d = bytes(a['data'])
        if d and d[0] in REF_LPP and len(d) == 1 + struct.calcsize('<' + REF_LPP[d[0]][1]):
            return ('packet', 6, 1, REF_LPP[d[0]][0], [a['dest_id']] + list(struct.unpack('<' + REF_LPP[d[0]][1], d[1:])))
        return ('packet', 6, 1, 'lpp_raw', [a['dest_id'], d])
    if cmd == 'CLocEmergencyStop':
        return ('packet', 6, 1, 'emergency_stop', [])
    if cmd == 'CLocEmergencyWatchdog':
        return ('packet', 6, 1, 'emergency_stop_watchdog', [])
    if cmd == 'CLocLhPersist':
        return ('packet', 6, 1, 'lh_persist', [sum(1 << b for b in set(a['geo_list'])), sum(1 << b for b in set(a['calib_list']))])
    if cmd in ('CPlatContWave', 'CPlatArming'):
        return ('packet', 13, 0, 'cont_wave' if cmd == 'CPlatContWave' else 'arming', [int(bool(args[0]))])
    if cmd == 'CPlatCrashRecovery':
        return ('packet', 13, 0, 'crash_recovery', [])
    if cmd == 'CLpsSetPosition':
        return ('packet', 6, 1, 'lpp_position', [a['anchor_id']] + list(a['position']))
    if cmd in ('CLpsReboot', 'CLpsSetMode'):
        return ('packet', 6, 1, 'lpp_reboot' if cmd == 'CLpsReboot' else 'lpp_mode', [a['anchor_id'], a['mode']])
    raise KeyError(cmd)


def value_ok(exp, got):
    if isinstance(exp, tuple) and exp[0] == 'mm':
        x = exp[1] * 1000          # exact rational
        if not isinstance(got, int):
            return False
        return abs(got - x) < 1 and (got == 0 or (got > 0) == (x > 0))
    if isinstance(exp, bool):
        return got is exp or got == int(exp)
    if isinstance(exp, int):
        return isinstance(got, int) and not isinstance(got, float) and got == exp
    if isinstance(exp, float):
        e = f32(exp)
        return e is not None and isinstance(got, float) and same_f32(e, got)
    if isinstance(exp, bytes):
        return got == exp
    return False


def judge(cmd, ver, xm, args, o):
    """property text on one observed outcome -> None or failure dict (without 'case')"""
    exp = expectation(cmd, ver, xm, args)
    if exp[0] == 'either':
        if o[0] in ('raise',):
            return None
        exp = None
    if o[0] in ('multi', 'sent+raise'):
        return {'class': 'not_a_single_packet', 'expected': 'one packet', 'observed': list(o)}
    if exp is not None and exp[0] == 'raise':
        if o[0] == 'raise':
            return None
        return {'class': 'unrepresentable_argument_not_rejected:%s' % cmd, 'expected': 'an exception (%s)' % exp[1],
                'observed': _show(o), 'detail': exp[1]}
    if exp is not None and exp[0] == 'nothing':
        return None if o[0] == 'none' else {'class': 'packet_for_unsupported_command:%s' % cmd,
                                            'expected': 'nothing sent', 'observed': _show(o)}
    if o[0] == 'raise':
        if exp is None:
            return None
        cls = 'valid_arguments_rejected:%s' % cmd
        if cmd == 'CLocLhPersist' and any(len(set(l)) != len(l) for l in args):
            cls = 'lh_persist_duplicate_entries'
        return {'class': cls, 'expected': exp[3], 'observed': _show(o)}
    if o[0] == 'none':
        return {'class': 'nothing_sent:%s' % cmd, 'expected': exp and exp[3], 'observed': 'nothing sent'}
    _, h, port, chan, data = o
    if len(data) > 30:
        return {'class': 'payload_longer_than_30', 'expected': '<= 30', 'observed': len(data)}
    if h != ((port & 15) << 4 | 12 | (chan & 3)) or not (0 <= port < 16 and 0 <= chan < 4):
        return {'class': 'header_does_not_encode_port_channel', 'expected': [port, chan], 'observed': h}
    if exp is None:
        return None
    if (port, chan) != (exp[1], exp[2]):
        return {'class': 'wrong_port_or_channel:%s' % cmd, 'expected': [exp[1], exp[2]], 'observed': [port, chan]}
    dec = ref_decode(ver, port, chan, data)
    if not dec:
        return {'class': 'firmware_rejects_packet:%s' % cmd, 'expected': exp[3],
                'observed': 'port %d channel %d payload %s not accepted by protocol version %d' % (port, chan, data.hex(), ver)}
    if dec[0] != exp[3]:
        cls = 'decodes_as_other_command:%s' % cmd
        if dec[0] + '_legacy' == exp[3] or dec[0] == exp[3] + '_legacy':
            cls = 'wrong_packet_type_for_protocol_version:%s' % cmd
        return {'class': cls, 'expected': '%s under protocol version %d' % (exp[3], ver), 'observed': dec[0]}
    if len(dec[1]) != len(exp[4]):
        return {'class': 'field_count:%s' % cmd, 'expected': len(exp[4]), 'observed': len(dec[1])}
    for i, (e, g) in enumerate(zip(exp[4], dec[1])):
        if not value_ok(e, g):
            cls = 'field_mismatch:%s' % cmd
            if cmd == 'CLocLhPersist':
                lst = args[i]
                cls = 'lh_persist_duplicate_entries' if len(set(lst)) != len(lst) else 'lh_persist_mask_wrong'
            return {'class': cls, 'expected': _show_vals(exp[4]), 'observed': _show_vals(dec[1]),
                    'detail': 'decoded field %d of %s is %r, the caller meant %r' % (i, dec[0], g, _show_vals([e])[0])}
    if cmd == 'CFullState':
        f = rate_units_failure(args, dec[1])
        if f:
            return f
    return None


def documented_rate_unit():
    """unit the docstring of send_full_state_setpoint declares for rollrate/pitchrate/yawrate"""
    import re
    from cflib.crazyflie.commander import Commander
    m = re.search(r'rollrate,\s*pitchrate,\s*yawrate\s+are\s+in\s+(\S+)', Commander.send_full_state_setpoint.__doc__ or '')
    if not m:
        return None
    u = m.group(1).lower().rstrip('.')
    if u.startswith('deg'):
        return 'deg/s'
    if u.startswith('rad'):
        return 'rad/s'
    return None


def rate_units_failure(args, decoded):
    """The firmware struct (fullStatePacket_s) takes the three rate fields as milliradians per second and converts
    them to degrees per second (x 180 / (pi * 1000)).  Under the unit the docstring declares, does the firmware end up
    with the caller's rate?  One field unit (1 mrad/s) of tolerance."""
    unit = documented_rate_unit()
    if unit is None:
        return None
    rates = args[4:7]
    fields = decoded[10:13]
    for name, r, fld in zip(('rollrate', 'pitchrate', 'yawrate'), rates, fields):
        if not _is_num(r) or r != r or math.isinf(r):
            continue
        caller_rad_s = r if unit == 'rad/s' else math.radians(r)
        if abs(fld - caller_rad_s * 1000) >= 1.0 + 1e-9 * abs(fld):
            fw_deg = fld * 180.0 / (math.pi * 1000.0)
            return {'class': 'full_state_rates_documented_in_degrees' if unit == 'deg/s' else 'full_state_rate_unit_mismatch',
                    'expected': '%s = %r %s reaches the firmware as %r deg/s' % (name, r, unit, math.degrees(caller_rad_s)),
                    'observed': 'field %d (mrad/s under the firmware layout) = %.3f deg/s' % (fld, fw_deg),
                    'detail': 'send_full_state_setpoint documents %s in %s but transmits int(%s*1000), which the firmware '
                              'reads as milliradians/s' % (name, unit, name)}
    return None


def _show(o):
    if o[0] == 'sent':
        return {'header': o[1], 'port': o[2], 'channel': o[3], 'payload': o[4].hex()}
    return list(o)


def _show_vals(vs):
    out = []
    for v in vs:
        if isinstance(v, tuple):
            out.append('%s thousandths' % (float(v[1] * 1000),))
        elif isinstance(v, bytes):
            out.append(v.hex())
        else:
            out.append(v)
    return out



# ====================================================================================== one CRTPPacket object, re-addressed
def hdr_f(port, chan):
    return ((port & 15) << 4) | 12 | (chan & 3)


def pk_run(hist):
    """Mutation history on ONE CRTPPacket.  ops: ['ctor', h] ['new'] ['set_header', p, c] ['port', p] ['channel', c]
    ['data', n] ['read', how] with how in attr (pk.header, what the drivers read) | get (get_header()) | send (through
    Crazyflie.send_packet to the reference-keeping link, header read at transmission).
    -> first violation of "header = f(current port, current channel), port/channel = the current values" or None"""
    from cflib.crtp.crtpstack import CRTPPacket
    pk = None
    cur = None
    for i, op in enumerate(hist):
        k = op[0]
        if k == 'ctor':
            pk = CRTPPacket(op[1])
            cur = [(op[1] & 0xF0) >> 4, op[1] & 3]
        elif k == 'new':
            pk = CRTPPacket()
            cur = [0, 0]
        elif k == 'set_header':
            pk.set_header(op[1], op[2])
            cur = [op[1], op[2]]
        elif k == 'port':
            pk.port = op[1]
            cur[0] = op[1]
        elif k == 'channel':
            pk.channel = op[1]
            cur[1] = op[1]
        elif k == 'data':
            pk.data = bytes(range(op[1]))
        elif k == 'read':
            if op[1] == 'attr':
                h = pk.header
            elif op[1] == 'get':
                h = pk.get_header()
            else:
                cf, link, _ = _rig()
                link.discard()
                cf.send_packet(pk)
                link.transmit(0)
                h = link.new[-1]['tx'][0] if link.new and link.new[-1]['tx'] else None
                link.discard()
            want = hdr_f(cur[0], cur[1])
            if h != want or pk.port != cur[0] or pk.channel != cur[1]:
                return {'step': i, 'reader': op[1], 'expected': {'header': want, 'port': cur[0], 'channel': cur[1]},
                        'observed': {'header': h, 'port': pk.port, 'channel': pk.channel}}
    return None


def pk_create_ops(api, p, c):
    if api == 'ctor':
        return [['ctor', hdr_f(p, c)]]
    if api == 'set_header':
        return [['new'], ['set_header', p, c]]
    return [['new'], ['port', p], ['channel', c]]


def pk_mutate_ops(api, p1, c1, p2, c2):
    """-> ops re-addressing a packet at (p1, c1) towards (p2, c2) through one API"""
    if api == 'set_header':
        return [['set_header', p2, c2]]
    if api == 'port':
        return [['port', p2]]
    if api == 'channel':
        return [['channel', c2]]
    if api == 'props':
        return [['port', p2], ['channel', c2]]
    return [['channel', c2], ['port', p2]]


def pk_fail(hist, f):
    return {'class': 'header_not_function_of_current_port_channel',
            'case': {'cmd': 'header', 'pk_history': hist, 'args_readable': repr(hist)},
            'expected': f['expected'], 'observed': f['observed'],
            'detail': 'after step %d (%r) of the history on one CRTPPacket, read through %s' % (f['step'], hist[f['step'] - 1] if f['step'] else None, f['reader'])}


def pk_oracle(rng, n_random):
    """all 64 x 64 transitions (port, channel) -> (port2, channel2) for every creating API x intermediate read x
    re-addressing API, then random histories of 2-4 rounds"""
    fails = []
    n = 0
    pcs = [(p, c) for p in range(16) for c in range(4)]
    k = 0
    for (p1, c1) in pcs:
        for (p2, c2) in pcs:
            for ca in ('ctor', 'set_header', 'props'):
                for mid in ('attr', 'get', None):
                    for ma in ('set_header', 'port', 'channel', 'props', 'props_rev'):
                        k += 1
                        hist = pk_create_ops(ca, p1, c1) + ([['read', mid]] if mid else []) + pk_mutate_ops(ma, p1, c1, p2, c2) \
                            + ([['read', 'attr'], ['read', 'get']] if k % 2 else [['read', 'get'], ['read', 'attr']])
                        n += 1
                        f = pk_run(hist)
                        if f and len(fails) < 4:
                            fails.append(pk_fail(hist, f))
    readers = ['attr', 'get', 'send']
    for _ in range(n_random):
        p, c = rng.choice(pcs)
        hist = pk_create_ops(rng.choice(['ctor', 'set_header', 'props']), p, c)
        for _r in range(rng.randint(2, 4)):
            if rng.random() < 0.8:
                hist.append(['read', rng.choice(readers)])
            if rng.random() < 0.3:
                hist.append(['data', rng.randint(0, 30)])
            p2, c2 = (p, c) if rng.random() < 0.15 else (rng.choice([p, rng.randrange(16)]), rng.choice([c, rng.randrange(4)]))
            hist += pk_mutate_ops(rng.choice(['set_header', 'set_header', 'port', 'channel', 'props', 'props_rev']), p, c, p2, c2)
            # track what the ops actually set
            for op in hist[-2:]:
                pass
            p, c = _pk_current(hist)
        hist += [['read', rng.choice(readers)], ['read', rng.choice(readers)]]
        n += 1
        f = pk_run(hist)
        if f and len(fails) < 8:
            fails.append(pk_fail(hist, f))
    return n, fails


def _pk_current(hist):
    cur = [0, 0]
    for op in hist:
        if op[0] == 'ctor':
            cur = [(op[1] & 0xF0) >> 4, op[1] & 3]
        elif op[0] == 'new':
            cur = [0, 0]
        elif op[0] == 'set_header':
            cur = [op[1], op[2]]
        elif op[0] == 'port':
            cur[0] = op[1]
        elif op[0] == 'channel':
            cur[1] = op[1]
    return cur


def pk_shrink(hist):
    """drop ops that are not needed for the failure"""
    i = 1
    while i < len(hist):
        cand = hist[:i] + hist[i + 1:]
        if cand and cand[-1][0] == 'read' and pk_run(cand):
            hist = cand
        else:
            i += 1
    return hist


# ====================================================================================== case generation
SPECIAL_F = [0.0, -0.0, 1.0, -1.0, 0.5, 0.1, 0.001, 0.009, 1.001, -0.009, 32.767, 32.768, -32.768, -32.769, 32.7675,
             TWO_PI, -TWO_PI, math.nextafter(TWO_PI, 10), math.nextafter(-TWO_PI, -10), 7.0, -7.0, 1e-3, 123.456,
             FLT_MAX, -FLT_MAX, 3.4028235677973366e38, math.nextafter(3.4028235677973366e38, 0), 1e39, -1e39,
             1.401298464324817e-45, 7e-46, 1e-46, 5e-324, 1.7976931348623157e308, 1.1754943508222875e-38, 16777217.0,
             float('inf'), float('-inf'), float('nan'), 65535.0, 0.3333333333333333, 2.5, 1.5, -2.5]


# every float argument of every command is driven through the special values, one argument at a time
SPECIAL_SWEEP = [float('nan'), float('inf'), float('-inf'), 0.0, -0.0, 5e-324, -5e-324, 2.2250738585072014e-308, 1e-46, -1e-46,
                 1.401298464324817e-45, 7.006492321624085e-46, 1.1754942106924411e-38, 1.1754943508222875e-38,
                 FLT_MAX, -FLT_MAX, math.nextafter(FLT_MAX, math.inf), 3.4028235677973366e38, math.nextafter(3.4028235677973366e38, 0),
                 -3.4028235677973366e38, 1e39, 1.7976931348623157e308,
                 TWO_PI, -TWO_PI, math.nextafter(TWO_PI, 10), math.nextafter(TWO_PI, 0), math.nextafter(-TWO_PI, -10),
                 math.nextafter(-TWO_PI, 0), 32.767, 32.7675, 32.768, -32.768, -32.7685, -32.769, 16777217.0]
SPECIAL_SWEEP_TIE = [float('nan'), float('inf'), -0.0, 5e-324, math.nextafter(TWO_PI, 10), -32.7685]


def base_args(cmd):
    """ordinary, valid arguments of the documented types"""
    out = []
    for i, p in enumerate(CMDS[cmd][2]):
        k = p[1]
        if k in ('f', 'optf'):
            out.append(0.25 * (i + 1))
        elif k == 'mm':
            out.append(0.125 * (i + 1))
        elif k in ('f3', 'f4'):
            out.append([0.5 + 0.25 * j for j in range(VEC_LEN[k])])
        elif k == 'mm3':
            out.append([0.5, -0.25, 1.0])
        elif k == 'quat':
            out.append([0.0, 0.0, 0.0, 1.0])
        elif k == 'u16':
            out.append(1000)
        elif k in INT_RANGE:
            out.append(1)
        elif k == 'flag':
            out.append(False)
        elif k == 'ilist':
            out.append([1, 3])
        elif k == 'raw':
            out.append([1, 2, 3])
    if cmd == 'CLocExtPose':
        out[1] = [0.0, 0.0, 0.0, 1.0]
    return out


def special_sweep_cases(values, versions=(9, 7)):
    out = []
    for cmd in ORDER:
        for i, p in enumerate(CMDS[cmd][2]):
            k = p[1]
            slots = [None] if k in ('f', 'optf', 'mm') else (list(range(VEC_LEN[k])) if k in ('f3', 'f4', 'mm3') else [])
            for j in slots:
                for ver in versions:
                    for xm in ((False, True) if cmd == 'CSetpoint' else (False,)):
                        for v in values:
                            args = base_args(cmd)
                            if j is None:
                                args[i] = v
                            else:
                                args[i] = list(args[i])
                                args[i][j] = v
                            out.append({'cmd': cmd, 'ver': ver, 'xm': xm, 'args': args})
    return out


def gen_float(rng, wild=True):
    r = rng.random()
    if r < 0.35:
        return rng.choice(SPECIAL_F)
    if r < 0.75:
        return rng.uniform(-50, 50) if rng.random() < 0.7 else rng.gauss(0, 1) * 10 ** rng.randint(-6, 6)
    if r < 0.85:
        return round(rng.uniform(-40, 40), rng.randint(0, 4))
    if wild:
        return struct.unpack('<d', struct.pack('<Q', rng.getrandbits(64)))[0]
    return rng.uniform(-1, 1)


def gen_int(rng, kind):
    lo, hi = INT_RANGE[kind]
    r = rng.random()
    if r < 0.5:
        return rng.randint(lo, hi)
    if r < 0.8:
        return min(hi, rng.choice([lo, hi, lo + 1, hi - 1, 0, 1, 2, 127, 128, 255, 10001, 60000]))
    return rng.choice([lo - 1, hi + 1, -1, 256, 65536, 2 ** 32, -2 ** 31, 2 ** 64, rng.randint(-10 ** 6, 10 ** 12)])


def gen_typed(rng, kind, typed=True):
    """one argument of the documented type (typed=True) or of any type the model covers"""
    if not typed and rng.random() < 0.25:
        return rng.choice([None, True, False, 0, 1, -1, 3, 2 ** 24 + 1, 2 ** 2000, -2 ** 2000, 1.0, 0.0, 2.5, float('nan'),
                           65535.0, 255, 256, 10 ** 40])
    if kind in INT_RANGE:
        return gen_int(rng, kind)
    if kind in ('f', 'mm'):
        return gen_float(rng)
    if kind == 'optf':
        return None if rng.random() < 0.3 else gen_float(rng)
    if kind == 'flag':
        return rng.random() < 0.5
    raise KeyError(kind)


def gen_case(rng, cmd, typed=True):
    args = []
    for p in CMDS[cmd][2]:
        k = p[1]
        if k in ('f3', 'f4'):
            args.append([gen_typed(rng, 'f', typed) for _ in range(VEC_LEN[k])])
        elif k == 'mm3':
            args.append([gen_typed(rng, 'mm', typed) for _ in range(3)])
        elif k == 'quat':
            r = rng.random()
            if r < 0.8:
                q = [rng.gauss(0, 1) for _ in range(4)]
            elif r < 0.9:
                q = rng.choice([[0.0, 0.0, 0.0, 1.0], [1.0, 0.0, 0.0, 0.0], [0.5, 0.5, 0.5, 0.5], [0.0, 0.0, 0.0, -1.0],
                                [0.7071, 0.0, 0.7071, 0.0]])
            else:
                q = rng.choice([[0.0, 0.0, 0.0, 0.0], [float('nan'), 0.0, 0.0, 1.0], [float('inf'), 0.0, 0.0, 1.0]])
            args.append(list(q))
        elif k == 'ilist':
            r = rng.random()
            n = rng.randint(0, 6)
            if r < 0.6:
                l = rng.sample(range(16), n)
            elif r < 0.8:
                l = [rng.randint(0, 15) for _ in range(n)]          # duplicates possible
            else:
                l = [rng.randint(-2, 17) for _ in range(n)]
            args.append(l)
        elif k == 'raw':
            n = rng.choice([0, 1, 2, 5, 13, 27, 28, 29, 30, 40])
            args.append([rng.randrange(256) for _ in range(n)])
        else:
            args.append(gen_typed(rng, k, typed))
    if cmd in ('CHlDefineTraj', 'CHlStartTraj') and typed and rng.random() < 0.7:
        args[0] = rng.choice([1, 2, 3])                 # few ids: define / start of the same id meet in one session
        if cmd == 'CHlDefineTraj':
            args[3] = rng.choice([0, 1, 1])
    ver = rng.choice([-1, 0, 3, 6, 7, 7, 8, 8, 8, 9, 9, 9, 10, 11, 255])
    xm = rng.random() < 0.4
    return {'cmd': cmd, 'ver': ver, 'xm': xm, 'args': args}


def focus_cases(rng):
    """hand-picked boundary cases: both sides of every version switch, thrust limits, sign flips, truncation"""
    out = []
    for ver in (7, 8, 9):
        for cmd in ('CVelocityWorld', 'CZDistance', 'CHover'):
            out.append({'cmd': cmd, 'ver': ver, 'xm': False, 'args': [1.0, 2.0, 3.0, 4.0]})
            out.append({'cmd': cmd, 'ver': ver, 'xm': False, 'args': [-0.25, 0.0, -0.0, 1e-3]})
        out.append({'cmd': 'CHlGoTo', 'ver': ver, 'xm': False, 'args': [1.0, 2.0, 3.0, 0.5, 2.0, True, True, 3]})
        out.append({'cmd': 'CHlGoTo', 'ver': ver, 'xm': False, 'args': [1.0, 2.0, 3.0, 0.5, 2.0, False, True, 0]})
        out.append({'cmd': 'CHlSpiral', 'ver': ver, 'xm': False, 'args': [1.0, 0.5, 1.5, 0.25, 3.0, True, False, 0]})
        out.append({'cmd': 'CHlSpiral', 'ver': ver, 'xm': False, 'args': [7.0, -0.5, -1.5, 0.25, 3.0, False, True, 1]})
        out.append({'cmd': 'CHlSpiral', 'ver': ver, 'xm': False, 'args': [-7.0, 0.5, -1.5, -0.25, 3.0, False, False, 1]})
    for t in (0, 1, 10001, 60000, 65535, 65536, -1, 70000, 65535.0, 100.5, True):
        for xm in (False, True):
            out.append({'cmd': 'CSetpoint', 'ver': 9, 'xm': xm, 'args': [10.0, -20.0, 30.0, t]})
    for xm in (False, True):
        out.append({'cmd': 'CSetpoint', 'ver': 9, 'xm': xm, 'args': [1.0, 2.0, 3.0, 1000]})
        out.append({'cmd': 'CSetpoint', 'ver': 9, 'xm': xm, 'args': [FLT_MAX, -FLT_MAX, 0.0, 1]})
        out.append({'cmd': 'CSetpoint', 'ver': 9, 'xm': xm, 'args': [float('inf'), float('inf'), 0.0, 1]})
    for x in (0.009, 1.001, 32.767, 32.7675, 32.768, -32.768, -32.7685, -32.769, 0.0005, -0.0005, 1e-9, 12.3456):
        out.append({'cmd': 'CFullState', 'ver': 9, 'xm': False,
                    'args': [[x, -x, 0.0], [0.1, 0.2, 0.3], [x, 1.0, -1.0], [0.0, 0.0, 0.0, 1.0], x, 0.5, -x]})
    for yaw in (None, 0.0, 1.5, -0.0):
        out.append({'cmd': 'CHlTakeoff', 'ver': 9, 'xm': False, 'args': [1.0, 2.0, 0, yaw]})
        out.append({'cmd': 'CHlLand', 'ver': 9, 'xm': False, 'args': [0.0, 2.0, 255, yaw]})
    for l in ([], [0], [15], [1, 1], [3, 3, 3], [15, 15], [0, 1, 2, 3, 4, 5, 6, 7, 8, 9, 10, 11, 12, 13, 14, 15], [16], [-1], [2, 7]):
        out.append({'cmd': 'CLocLhPersist', 'ver': 9, 'xm': False, 'args': [list(l), [1]]})
        out.append({'cmd': 'CLocLhPersist', 'ver': 9, 'xm': False, 'args': [[4, 2], list(l)]})
    for cmd in ORDER:
        if not CMDS[cmd][2]:
            out.append({'cmd': cmd, 'ver': 9, 'xm': False, 'args': []})
    return out


def case_key(c):
    return repr((c['cmd'], c['ver'], c['xm'], _enc_args(c['args'])))


def _enc_args(args):
    """JSON-safe, exact"""
    def e(v):
        if isinstance(v, float):
            return {'f64': '%016x' % f64_bits(v)}
        if isinstance(v, list):
            return [e(x) for x in v]
        return v
    return [e(a) for a in args]


def _dec_args(args):
    def d(v):
        if isinstance(v, dict):
            return struct.unpack('<d', struct.pack('<Q', int(v['f64'], 16)))[0]
        if isinstance(v, list):
            return [d(x) for x in v]
        return v
    return [d(a) for a in args]


def case_json(c):
    return {'cmd': c['cmd'], 'method': '%s.%s' % (CMDS[c['cmd']][0], CMDS[c['cmd']][1]), 'ver': c['ver'], 'xmode': c['xm'],
            'args': _enc_args(c['args']), 'args_readable': repr(c['args'])[:300]}


def case_from_json(j):
    return {'cmd': j['cmd'], 'ver': j['ver'], 'xm': j['xmode'], 'args': _dec_args(j['args'])}


def has_nan_risk(c):
    def fl(v):
        if isinstance(v, list):
            return any(fl(x) for x in v)
        return isinstance(v, float) and (v != v or math.isinf(v))
    return any(fl(a) for a in c['args'])


def canon_nans(o, ver):
    """replace NaN patterns in float fields (positions from the reference decoder's struct) by the canonical one"""
    if o[0] != 'sent':
        return o
    _, h, port, chan, data = o
    fmt, off = None, 0
    if port == 3:
        fmt = 'fffH'
    elif port == 7 and chan == 0 and data and data[0] in REF_GENERIC:
        fmt, off = REF_GENERIC[data[0]][1], 1
    elif port == 8 and data and data[0] in REF_HL:
        fmt, off = REF_HL[data[0]][1], 1
    elif port == 6 and chan == 0:
        fmt = 'fff'
    elif port == 6 and chan == 1 and data and data[0] == 8:
        fmt, off = 'fffffff', 1
    elif port == 6 and chan == 1 and len(data) > 2 and data[0] == 2 and data[2] == 1:
        fmt, off = 'fff', 3
    if fmt is None or struct.calcsize('<' + fmt) + off != len(data):
        return o
    b = bytearray(data)
    pos = off
    for ch in fmt:
        n = struct.calcsize('<' + ch)
        if ch == 'f':
            w = struct.unpack_from('<I', b, pos)[0]
            if (w >> 23) & 0xFF == 0xFF and (w & 0x7FFFFF):
                struct.pack_into('<I', b, pos, 0x7FC00000)
        pos += n
    return ('sent', h, port, chan, bytes(b))


def all_cases(ctx, n_random):
    rng = ctx.rng
    cases = focus_cases(rng) + special_sweep_cases(SPECIAL_SWEEP_TIE, versions=(9,))
    for i in range(n_random):
        cmd = ORDER[i % len(ORDER)]
        cases.append(gen_case(rng, cmd, typed=(rng.random() < 0.6)))
    return cases


def corpus_cases():
    import glob
    import json
    out = []
    for p in sorted(glob.glob(os.path.join(coqrun.VERIF, 'corpus', 'C08', '*.json'))):
        try:
            j = json.load(open(p))
            out.append(case_from_json(j.get('case', j)))
        except Exception:  # noqa
            pass
    return out


# ====================================================================================== tie
def check_signatures(ctx):
    """the oracle-side table and the translator must agree on parameter names, order, kinds and defaults"""
    dis = []
    info = _info(ctx)
    for cmd in ORDER:
        params = CMDS[cmd][2]
        tr = info[cmd]
        names = [p[0] for p in tr['params']]
        if names != [p[0] for p in params]:
            dis.append({'what': 'signature of %s.%s changed' % (tr['cls'], tr['method']), 'expected': [p[0] for p in params],
                        'impl': names})
            continue
        if tr['method'] != CMDS[cmd][1]:
            dis.append({'what': 'method name', 'cmd': cmd})
        for p, t in zip(params, tr['params']):
            kind = {'f3': 'vec', 'f4': 'vec', 'mm3': 'vec', 'quat': 'codec', 'ilist': 'list', 'raw': 'tail'}.get(p[1], 'scalar')
            if t[1] != kind or (kind == 'vec' and t[3] != VEC_LEN[p[1]]):
                dis.append({'what': 'parameter %s of %s is used as %s/%d in the code' % (p[0], cmd, t[1], t[3]),
                            'expected': p[1]})
            if len(p) == 3:
                if p[0] not in tr['defaults'] or not _same(tr['defaults'][p[0]], p[2]):
                    dis.append({'what': 'default of %s.%s' % (cmd, p[0]), 'expected': p[2], 'impl': tr['defaults'].get(p[0], 'none')})
            elif p[0] in tr['defaults']:
                dis.append({'what': 'unexpected default of %s.%s' % (cmd, p[0]), 'impl': tr['defaults'][p[0]]})
    return dis


def tie(ctx):
    dis = check_signatures(ctx)
    cases = corpus_cases() + all_cases(ctx, ctx.scale(2100, 40000))
    seen = set()
    uniq = []
    for c in cases:
        k = case_key(c)
        if k not in seen:
            seen.add(k)
            uniq.append(c)
    cases = uniq
    n_focus = len(corpus_cases()) + len(focus_cases(ctx.rng.__class__(0))) + len(special_sweep_cases(SPECIAL_SWEEP_TIE, versions=(9,)))
    for i, c in enumerate(cases):
        c['kw'], c['omit'] = (i % 7 == 3), (i % 5 == 1)
    # session histories: the same objects throughout, the version changes only through connect / answer / disconnect
    sessions = version_race_sessions() + back_to_back_sessions() + platform_traffic_sessions() + hl_history_sessions() + build_sessions(cases[:n_focus], ctx.rng, keep_ver=True) \
        + build_sessions(cases[n_focus:], ctx.rng)
    run_sessions(sessions)
    cases, owner = [], {}
    for steps in sessions:
        for st in steps:
            if st['op'] == 'call':
                owner[id(st['case'])] = steps
                cases.append(st['case'])
    terms, exp, outs = [], [], []
    dist = {'sent': 0, 'raise': 0, 'none': 0, 'other': 0}
    per_cmd = {}
    exn_kinds = {}
    pre_answer = 0
    for c in cases:
        o = c['out']
        outs.append(o)
        pre_answer += c['ver'] == -1
        dist[o[0] if o[0] in dist else 'other'] += 1
        per_cmd[c['cmd']] = per_cmd.get(c['cmd'], 0) + 1
        if o[0] == 'raise':
            exn_kinds[o[1]] = exn_kinds.get(o[1], 0) + 1
        terms.append(model_term(c['cmd'], c['ver'], c['xm'], c['args']))
        exp.append(impl_code(o))
    nd = 0
    for bi, mv in coqrun.compare_blocks(HEADER, terms, exp, tag='c08', shard=ctx.scale(160, 700)):
        nd += 1
        if len(dis) < 12:
            dis.append({'what': 'model and implementation differ on %s' % cases[bi]['cmd'], 'case': case_json(cases[bi]),
                        'history': history_json(owner[id(cases[bi])], cases[bi]), 'model': mv, 'impl': exp[bi]})
    # ---- negotiated version: random histories of port-13 packets through the real callbacks vs Version.vrun
    vh_terms, vh_exp = [], []
    for _ in range(ctx.scale(150, 1500)):
        rig_disconnect()
        rig_connect()
        hist = []
        trace = []
        for _k in range(ctx.rng.randint(1, 8)):
            st = gen_noise(ctx.rng, 10) if ctx.rng.random() < 0.7 else {'chan': 1, 'data': [0, ctx.rng.randrange(256)]}
            if ctx.rng.random() < 0.15:
                st = {'chan': ctx.rng.randrange(4), 'data': [0, ctx.rng.randrange(256)]}
            rig_rx(st['chan'], st['data'])
            hist.append((st['chan'], st['data']))
            trace.append(library_version())
        vh_terms.append('[' + '; '.join('vrun [%s] (-1)' % '; '.join('(%d, %s)' % (c, coqrun.zlist(d)) for c, d in hist[:k + 1])
                                        for k in range(len(hist))) + ']')
        vh_exp.append(trace)
    rig_disconnect()
    for bi, mv in coqrun.compare_blocks(HEADER + 'From CF Require Import C08.Version.\n', vh_terms, vh_exp, tag='c08v', shard=50):
        nd += 1
        if len(dis) < 12:
            dis.append({'what': 'negotiated protocol version: Version.vrun and PlatformService differ', 'model': mv,
                        'impl': vh_exp[bi], 'packets': vh_terms[bi][:600]})
    # ---- one CRTPPacket re-addressed: Header.mrun vs the real object (header attribute, port, channel after every op)
    from cflib.crtp.crtpstack import CRTPPacket as _PK
    mh_terms, mh_exp = [], []
    for _ in range(ctx.scale(200, 2000)):
        h0 = ctx.rng.randrange(256)
        pk = _PK(h0)
        ops, trace = [], []
        for _k in range(ctx.rng.randint(1, 7)):
            r = ctx.rng.random()
            pv, cv = ctx.rng.choice([ctx.rng.randrange(16), ctx.rng.randrange(64)]), ctx.rng.choice([ctx.rng.randrange(4), ctx.rng.randrange(16)])
            if r < 0.3:
                pk.set_header(pv, cv)
                ops.append('MSetHeader %d %d' % (pv, cv))
            elif r < 0.5:
                pk.port = pv
                ops.append('MPort %d' % pv)
            elif r < 0.7:
                pk.channel = cv
                ops.append('MChan %d' % cv)
            elif r < 0.85:
                pk.get_header()
                ops.append('MGetHeader')
            else:
                pk.data = b'ab'
                ops.append('MData')
            trace += [pk.header, pk.port, pk.channel]
        mh_terms.append('concat (map (fun k => let s := mrun (firstn k [%s]) (construct %d) in [p_header s; p_port s; p_chan s]) '
                        '(seq 1 %d))' % ('; '.join(ops), h0, len(ops)))
        mh_exp.append(trace)
    for bi, mv in coqrun.compare_blocks(HEADER + 'From CF Require Import C08.Header.\n', mh_terms, mh_exp, tag='c08m', shard=60):
        nd += 1
        if len(dis) < 12:
            dis.append({'what': 'CRTPPacket mutation history: Header.mrun and the real object differ', 'model': mv,
                        'impl': mh_exp[bi], 'ops': mh_terms[bi][:500]})
    # ---- header byte: ports 0..63 x channels 0..15 through set_header and through the property setters
    from cflib.crtp.crtpstack import CRTPPacket
    hdr_terms, hdr_exp = [], []
    for port in range(64):
        row = []
        for chan in range(16):
            pk = CRTPPacket()
            pk.set_header(port, chan)
            pk2 = CRTPPacket()
            pk2.port = port
            pk2.channel = chan
            pk3 = CRTPPacket(pk.header)
            row += [pk.header, pk2.get_header(), pk3.port, pk3.channel]
        hdr_terms.append('concat (map (fun c => let h := crtp_header %d c in [h; h; crtp_port h; crtp_chan h]) '
                         '(map Z.of_nat (seq 0 16)))' % port)
        hdr_exp.append(row)
    for bi, mv in coqrun.compare_blocks(HEADER, hdr_terms, hdr_exp, tag='c08h', shard=64):
        nd += 1
        dis.append({'what': 'CRTP header byte: model and implementation differ', 'port': bi, 'model': mv, 'impl': hdr_exp[bi]})
    if nd > 12:
        dis.append({'what': 'total disagreements', 'count': nd})
    nontriv = sum(1 for c, o in zip(cases, outs) if o[0] in ('sent', 'raise') and CMDS[c['cmd']][2])
    samples = [{'case': case_json(c), 'impl': _show(o)} for c, o in list(zip(cases, outs))[0:400:67]]
    return {
        'evaluations': len(cases) + 64 * 16,
        'distinct_nontrivial': nontriv,
        'rule': 'session histories on ONE Crazyflie/Commander/HighLevelCommander/Localization/PlatformService (connect -> version -1, '
                'calls, firmware version answer, calls, disconnect, reconnect to another version): every call must equal the model '
                'run with the version in force at that moment; '
                'distinct (method, protocol version, x-mode, exact argument values) calls on the real classes with a recording '
                'link, outcome (port, channel, payload bytes | exception class | nothing) equal to the Coq model run on the '
                'translated layout; non-trivial: the method has arguments and the call sent a packet or raised; every 7th call '
                'by keyword, every 5th with trailing defaults omitted; header byte for 64 x 16 port/channel values exhaustively',
        'samples': samples[:6],
        'distribution': {'outcomes': dist, 'per_command_min': min(per_cmd.values()), 'per_command_max': max(per_cmd.values()),
                         'exception_classes': exn_kinds, 'commands': len(per_cmd), 'header_pairs': 1024,
                         'sessions': len(sessions), 'calls_before_version_answer': pre_answer},
        'exhaustive': False,
        'disagreements': dis,
    }


# ====================================================================================== oracle
def oracle(ctx, deep=False):
    import random
    rng = random.Random(ctx.seed * 7919 + 17)
    fails = []
    n = 0
    sweep = special_sweep_cases(SPECIAL_SWEEP)
    cases = corpus_cases() + focus_cases(rng) + sweep
    per = ctx.scale(60, 600) * (4 if deep else 1)
    for cmd in ORDER:
        for _ in range(per if CMDS[cmd][2] else 2):
            cases.append(gen_case(rng, cmd, typed=True))
    flat = []
    n_focus = len(corpus_cases()) + len(focus_cases(random.Random(0))) + len(sweep)
    for i, c in enumerate(cases):
        for mode in ((False, False),) if i % 3 else ((False, False), (True, False), (False, True)):
            d = dict(c, kw=mode[0], omit=mode[1])
            flat.append((i < n_focus, d))
    foc = [d for f, d in flat if f]
    rnd = [d for f, d in flat if not f]
    sessions = version_race_sessions() + back_to_back_sessions() + platform_traffic_sessions() + hl_history_sessions() + build_sessions(foc, rng, keep_ver=True) + build_sessions(rnd, rng)
    n += run_sessions(sessions)
    for steps in sessions:
        for st in steps:
            if st['op'] != 'call':
                continue
            c = st['case']
            f = judge(c['cmd'], c['ver'], c['xm'], c['args'], c['out'])
            if f:
                f['case'] = case_json(c)
                f['case']['by_keyword'], f['case']['omit_defaults'] = c['kw'] if 'kw' in c else False, c.get('omit', False)
                f['_steps'] = steps
                f['_case'] = c
                fails.append(f)
    # ---- platform-port traffic sweep: after a handshake with version 10, every channel x command code 0..2 x payload
    #      byte; the version the library uses must stay the one of the last genuine reply
    sweep_bad = []
    rig_disconnect()
    rig_connect()
    rig_answer(10)
    for chan in range(4):
        for code in range(3):
            for b in list(range(256)) + [None]:
                data = [code] if b is None else [code, b]
                rig_rx(chan, data)
                n += 1
                if library_version() != version_in_force():
                    if len(sweep_bad) < 3:
                        sweep_bad.append((chan, data, library_version(), version_in_force()))
                    rig_answer(10)
                elif version_in_force() != 10:
                    rig_answer(10)
    rig_disconnect()
    for chan, data, got, want in sweep_bad:
        hist = [{'op': 'connect'}, {'op': 'answer', 'ver': 10}, {'op': 'rx', 'chan': chan, 'data': data},
                {'op': 'call', 'cmd': 'CHover', 'xmode': False, 'args': _enc_args([1.0, 2.0, 3.0, 4.0]), 'lag': 0, 'judge': True}]
        f = replay_history(hist)
        if not f:
            f = {'class': 'library_version_differs_from_reported', 'expected': want, 'observed': got}
        f['class'] = 'version_changed_by_other_platform_traffic:' + f['class']
        f['detail'] = ('after the device reported protocol version %d, the port-13 packet channel %d data %r made the library '
                       'use version %d' % (want, chan, data, got))
        f['case'] = {'cmd': 'CHover', 'method': 'commander.send_hover_setpoint', 'ver': want, 'xmode': False,
                     'args': _enc_args([1.0, 2.0, 3.0, 4.0]), 'args_readable': '[1.0, 2.0, 3.0, 4.0]', 'history': hist,
                     'version_in_force': want}
        fails.append(f)
        break
    # ---- header clause: all 16 x 4
    from cflib.crtp.crtpstack import CRTPPacket
    for port in range(16):
        for chan in range(4):
            n += 1
            pk = CRTPPacket()
            pk.set_header(port, chan)
            back = CRTPPacket(pk.header)
            pk2 = CRTPPacket()
            pk2.port, pk2.channel = port, chan
            ok = (0 <= pk.header < 256 and pk.header >> 4 == port and pk.header & 3 == chan and (pk.header >> 2) & 3 == 3
                  and back.port == port and back.channel == chan and pk2.get_header() == pk.header)
            if not ok:
                fails.append({'class': 'header_not_lossless', 'case': {'cmd': 'header', 'port': port, 'channel': chan},
                              'expected': (port << 4) | 12 | chan, 'observed': pk.header})
    # ---- one packet object re-addressed: header must follow the current port and channel after every mutation
    n_pk, pk_fails = pk_oracle(rng, ctx.scale(1500, 15000))
    n += n_pk
    if pk_fails:
        f = min(pk_fails, key=lambda x: len(x['case']['pk_history']))
        hist = pk_shrink(f['case']['pk_history'])
        fails.append(pk_fail(hist, pk_run(hist)))
    # de-duplicate by class, keep the smallest witness
    best = {}

    def rank(f):
        r = f['case'].get('args_readable', '')
        return (('inf' in r) or ('nan' in r) or ('e+' in r), len(r))
    for f in fails:
        k = f['class']
        if k not in best or rank(f) < rank(best[k]):
            best[k] = f
    for f in best.values():
        if '_steps' in f:
            # the concrete history: does the call fail on its own (fresh connection, version answered)?  If not, the
            # failure needs the earlier steps: keep the (shrunk) history
            steps, c = f.pop('_steps'), f.pop('_case')
            hist = history_json(steps, c)
            mine = dict([h for h in hist if h.get('judge')][0], lag=0)
            alone = [{'op': 'connect'}] + ([{'op': 'answer', 'ver': c['ver']}] if c['ver'] != -1 else []) + [mine]
            if replay_history(alone) is not None:
                hist = alone
            else:
                hist = shrink_history(hist)
                f['class'] = 'depends_on_session_history:' + f['class']
                f['detail'] = (f.get('detail', '') + ' | the same call on a fresh connection with protocol version %d is encoded '
                               'correctly: the encoding depends on what happened earlier in the session' % c['ver']).strip(' |')
            f['case']['history'] = hist
            f['case']['version_in_force'] = c['ver']
    for f in fails:
        f.pop('_steps', None)
        f.pop('_case', None)
    return {'evaluations': n, 'failures': list(best.values()),
            'rule': 'session histories (version -1 before the firmware answer, then v; reconnects to other versions; calls before and '
                    'after each change) on one set of objects: every packet must decode under the version in force when sent; '
                    'reference decoder written from the firmware structs applied to packets of the real methods; decoded fields vs '
                    'the caller\'s arguments (float32 / truncated thousandths / exact ints), raises for unrepresentable values, '
                    'single packet <= 30 bytes, header for all 16 x 4'}


def replay(payload, ctx):
    c = payload['case']
    if c.get('pk_history'):
        f = pk_run(c['pk_history'])
        return pk_fail(c['pk_history'], f) if f else None
    if c.get('cmd') == 'header':
        fs = [f for f in oracle(ctx)['failures'] if f['class'] == 'header_not_lossless']
        return fs[0] if fs else None
    if c.get('history'):
        f = replay_history(c['history'])
        if f:
            f['case'] = c
        return f
    case = case_from_json(c)
    o = call_impl(case['cmd'], case['ver'], case['xm'], case['args'], by_keyword=c.get('by_keyword', False),
                  omit_defaults=c.get('omit_defaults', False))
    f = judge(case['cmd'], case['ver'], case['xm'], case['args'], o)
    if f:
        f['case'] = c
    return f
