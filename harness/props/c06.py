"""C06 — memory reads / writes: exact, complete, never wedge the subsystem.

Tie (V): generated closed-loop histories (reads, queued / flushing writes, replies delivered late, twice, out of
order, refused by the server, forged packets, disconnects) are executed on the real `Memory` object
(harness/fakes/c06_mem.py) and by the Gallina model (`run_case` of coq/C06/Model.v, vm_compute); compared are, per
event: packets handed to send_packet, notifications with the identity of the request, return values, raised /
blocked, lock state, freshness of the delivered reply; and at the end the pending-request records, the number of
requests served and the server's memory image.

Oracle: the property text on the observables of the real code, with its own bookkeeping (no model involved).
"""
import glob
import json
import os

from core import coqrun
from fakes import c06_elements
from fakes import c06_infojudge
from fakes import c06_mem

ID = 'C06'
PROPERTY_FILE = 'C06/Property.v'
LEVEL = 'other'
ALLOWED_AXIOMS = ()
TRUSTED_BASE = [
    'C06/Model.v is hand-written from cflib/crazyflie/mem/__init__.py (_ReadRequest, _WriteRequest, Memory.read/write, '
    '_handle_chan_read/_handle_chan_write, _disconnected); tied on every run by differential execution of generated '
    'closed-loop histories against the real Memory object on a fake cf (single-threaded, instrumented lock)',
    'the memory server of the theorems (serve / serve_all in Model.v) is written from the protocol, not from firmware '
    'source; its Python twin in harness/fakes/c06_mem.py is compared with it in every history (replies, final image)',
    'request identity (uid) is ghost in the model; the harness makes it observable by issuing every request with its '
    'own memory object, which the callbacks hand back',
]
ASSUMPTIONS = [
    'single-threaded: user calls, packet callbacks and the disconnect callback do not overlap (the lock is only '
    'observed, not contended); retransmission by Crazyflie.send_packet (property C10) is represented by duplicated '
    'replies, a retransmitted request being idempotent on the server',
    'requests are in the domain wf_event: id a byte, 0 <= addr, addr+len <= 2^32, data bytes; outside it struct.pack '
    'raises inside the code (for writes while the lock is held) - not modelled',
    're-entrant listeners are modelled (C06/Reentrant.v): from inside every notification, those of a link drop included, '
    'the listener may issue a read or write as an arbitrary policy says; the tie runs the model with the policy the '
    'generated listeners followed (request made inside the n-th notification) and compares the nested calls, the lock '
    'state at their start and what the handler does afterwards; listeners that raise and progress_cb are not modelled',
]
PROVED = ('For every history of reads, queued / flushing writes, arbitrary packets on the memory port and disconnects '
          '(no bound on length): request packets stay within the protocol limits (<= 30 bytes, read chunks <= 20, '
          'write chunks <= 25, addresses inside the requested range); every accepted request is, at every moment, '
          'exactly one of pending / notified once / superseded by flush_queue, so no request is ever notified twice and '
          'a disconnect notifies every pending one; the lock is never left held and no record of a finished request '
          'stays behind, so the next read / write is served; write packets and write notifications of one memory follow '
          'the order of the calls. In the closed loop with the memory server: a read returns exactly the bytes the '
          'server holds in [addr, addr+len) and a write notified as done leaves the image equal to the old image with '
          'the data written at addr and nothing else changed, for every address, length and content, under replies that '
          'are duplicated, delayed, reordered or refused, as long as each delivered reply answers a packet of the '
          'request that is still active; and when every reply is delivered in order the transfer takes exactly '
          'ceil(len/chunk) request packets (one for length 0) and ends with the success notification. Deck-memory layer '
          '(DeckMemory.read/write -> DeckMemoryManager, model C06/DeckModel.v of the code with fixes/F06d.patch): for '
          'every history of deck reads and writes on decks with any bases (one read and one write outstanding at the '
          'same time), arbitrary packets, disconnects and requests on other memories, every deck callback reports the '
          'deck-relative address asked in the request it belongs to, the data of a deck read / the completion of a deck '
          'write are those of a completed transfer at base + address, and no listener calls a missing callback. '
          'Enumeration / refresh (model C06/InfoModel.v of the code as it is, commit ae515bf / F02i in): in every history '
          '(also with refresh() called while another one is in progress) every refresh() is answered by at most one '
          'notification; a link drop resets everything (the state after it differs from a fresh start only by the '
          'request counter) and fails a waiting refresh once; refresh() leaves no read record and no element behind; for '
          'every device without 1-wire memory (any number of memories, any start state without a left-over 1-wire '
          'update) the in-order enumeration ends with exactly one done and the device\'s list; devices with 1-wire '
          'memories (good / bad header CRC, bad element CRC, elements over several read chunks) are enumerated exactly '
          'in the model in order and under a hostile schedule (computed examples). Element layer (C06/Wrapper.v): the '
          'one-slot completion wrapper of the memory element classes answers every taken request by exactly one callback '
          'whatever the data and frees the slot (all histories); a completion skipped on a data-dependent branch is '
          'refuted in general; MemoryTester.new_data (model of the code with fixes/F06j.patch, tied on every run) calls the '
          'completion exactly once for every data, the empty one too, with the verdict on all bytes. Re-entrant '
          'listeners (C06/Reentrant.v, the code as it is): for every history and every policy of requests made from '
          'inside notifications (of replies, error statuses and link drops) no listener runs with the write lock held, '
          'no call blocks, the lock is free afterwards; for every policy that makes no request on a dead link (none from '
          'inside the notifications of a link drop) every accepted request is exactly one of pending / settled once; '
          'listeners inside the locked region are refuted with a concrete policy.')
NOT_PROVED = ('Exactness when a reply that outlived its request (a late duplicate) is delivered to a later request for '
              'the same memory and address: refuted (C06_read_exact_full_refuted / C06_write_exact_full_refuted, '
              'finding F06b, reproduced on the code by the oracle; the protocol carries no transaction number). '
              'Requests outside wf_event, user callbacks that raise, requests made on a dead link (from inside the notifications of a link drop: accepted and wiped without notification, observation C06_request_on_dead_link_observation), progress_cb (a zero-length write with '
              'a progress callback divides by zero while the lock is held), true thread interleavings of user calls with '
              'the packet thread; of the element layer: only MemoryTester.new_data, OWElement and the deck layer are '
              'modelled in Coq, the other element classes (I2CElement, LocoMemory, LocoMemory2, LighthouseMemory, LED, '
              'trajectory, multiranger, PAA3905) are covered by the oracle only; a request whose read the device refuses '
              'leaves the callback slot of MemoryTester / I2CElement / OWElement / LocoMemory / LocoMemory2 taken (known '
              'finding F06i); of the enumeration: exactness for devices with 1-wire memories is proved only as '
              'computed instances plus the tie (no general theorem); outside the property text and only observed '
              '(theorems C06_overlapping_refresh_observation_*, C06_refused_1wire_read_observation): refresh() called '
              'while another one is in progress or a late / duplicated details reply can leave a refresh unanswered or '
              'end it with a partial list, a 1-wire read the device refuses leaves the refresh unanswered; 1-wire '
              'contents with unknown element ids (parsing belongs to C14), refresh() called from inside the done '
              'callback; of the deck layer: query_decks / the info section '
              '(its parsing belongs to C14), bases <= 0, other users of the manager\'s memory id, write_failed_cb left at '
              'its default None (the code then calls None when the write fails), progress messages.')

HEADER = ('From CF Require Import Common.Bytes C06.Model C06.DeckModel C06.InfoModel C06.Wrapper C06.Reentrant.\nOpen Scope Z_scope.\n'
          'Definition tenc (r : bool * bool * list bool) : list Z := let \'(c, v, l) := r in '
          '(if c then 1 else 0) :: (if v then 1 else 0) :: map (fun b : bool => if b then 1 else 0) l.\n')

R_LENS = [0, 1, 2, 19, 20, 21, 39, 40, 41, 59, 60, 61, 79, 80, 81, 100]
W_LENS = [0, 1, 2, 24, 25, 26, 49, 50, 51, 74, 75, 76, 99, 100, 101]
IDS = [0, 1, 2, 7, 0x19, 255]
CHN = {1: 'ChRead', 2: 'ChWrite', 3: 'ChOther'}


def _addr(rng, n):
    c = rng.randrange(10)
    if c == 0:
        return 0
    if c == 1:
        return 2 ** 32 - max(n, 1)
    if c == 2:
        return rng.choice([1, 7, 236, 255, 256, 65530, 0x10000000, 0x7FFFFFF0, 0xFFFFFF00])
    if c == 3:
        return rng.randrange(0, 2 ** 32 - max(n, 1) + 1)
    return rng.choice([0, 3, 20, 25, 40, 50, 100])      # overlapping small addresses: stale replies can match


# ------------------------------------------------------------------ coq terms
def ev_term(ev):
    k = ev[0]
    if k == 'R':
        return 'SOp (ERead %s %s %s)' % (coqrun.z(ev[1]), coqrun.z(ev[2]), coqrun.z(ev[3]))
    if k == 'W':
        return 'SOp (EWrite %s %s %s %s)' % (coqrun.z(ev[1]), coqrun.z(ev[2]), coqrun.zlist(ev[3]), coqrun.coq_bool(ev[4]))
    if k == 'D':
        return 'SDeliver %d%%nat' % ev[1]
    if k == 'P':
        return 'SOp (EPkt %s %s)' % (CHN[ev[1]], coqrun.zlist(ev[2]))
    if k == 'X':
        return 'SOp EDisc'
    raise ValueError(ev)


def case_term(case, events=None, policy=()):
    """events: the top-level events; policy: [n, request]: the listener of the n-th notification issued that request"""
    wins = '[' + '; '.join('(%d, %d, %d)' % tuple(w) for w in case['windows']) + ']'
    evs = case['events'] if events is None else events
    pol = '[' + '; '.join('(%d, %s)' % (n, ev_term(op)[4:]) for n, op in policy) + ']'
    return 'rrun_case %s %s [%s] %s' % (coqrun.zlist(case['plan']), pol, '; '.join(ev_term(e) for e in evs), wins)


def dev_term(ev):
    k = ev[0]
    if k == 'DR':
        return 'DSOp (DRead %d %d %d %s)' % (ev[1], ev[2], ev[3], coqrun.z(ev[4]))
    if k == 'DW':
        return 'DSOp (DWrite %d %d %s %s)' % (ev[1], ev[2], coqrun.zlist(ev[3]), coqrun.z(ev[4]))
    if k == 'D':
        return 'DSDeliver %d%%nat' % ev[1]
    t = ev_term(ev)
    assert t.startswith('SOp ')
    return 'DSOp (DEv %s)' % t[4:]


def deck_case_term(case, events):
    wins = '[' + '; '.join('(%d, %d, %d)' % tuple(w) for w in case['windows']) + ']'
    return 'drun_case true %d %s [%s] %s' % (c06_mem.DECK_ID, coqrun.zlist(case['plan']),
                                            '; '.join(dev_term(e) for e in events), wins)


def is_deck_case(case):
    return any(e[0] in ('DR', 'DW') for e in case['events'])


def windows_of(events):
    ws = []
    for e in c06_mem.all_ops(events):
        if e[0] == 'DW':
            w = [c06_mem.DECK_ID, max(0, e[1] + e[2] - 2), len(e[3]) + 4]
            if w not in ws:
                ws.append(w)
        elif e[0] == 'DR':
            pass
        elif e[0] == 'W':
            lo = max(0, e[2] - 2)
            w = [e[1], lo, min(len(e[3]) + 4, 2 ** 32 - lo)]
            if w not in ws:
                ws.append(w)
        elif e[0] == 'R':
            w = [e[1], e[2], min(e[3], 8)]
            if w[2] and w not in ws:
                ws.append(w)
    return ws[:12]


def run_impl(case):
    """Execute the case on the real code; the integers the model's run_case must produce."""
    rig = c06_mem.Rig(case['plan'])
    rig.early = bool(case.get('early'))
    out = []
    for ev in case['events']:
        out += rig.do(ev)
    out += [10] + rig.enc_client() + [11, rig.served, len(rig.log)]
    for (i, a, n) in case['windows']:
        out += rig.window(i, a, n)
    return out, rig


# ------------------------------------------------------------------ generation (online: needs the log length)
def gen_case(rng, style, early=False):
    """style: 'clean' (no refusals, no forged packets), 'faulty' (everything).  early: the reply to a request packet sent by
    the caller's thread is dispatched before the call returns."""
    nid = rng.choice([1, 1, 2, 3])
    ids = rng.sample(IDS, nid)
    plan = []
    if style != 'clean':
        p = rng.choice([0.0, 0.05, 0.15])
        plan = [rng.randrange(1, 256) if rng.random() < p else 0 for _ in range(60)]
    rig = c06_mem.Rig(plan)
    rig.early = early
    events = []
    delivered = set()
    steps = rng.randrange(5, 34)

    def do(ev):
        events.append(ev)
        rig.do(ev)
        delivered.update(rig.early_done)

    for _ in range(steps):
        undel = [k for k in range(len(rig.log)) if k not in delivered]
        c = rng.random()
        if c < 0.12 or not rig.log and c < 0.5:
            do(_gen_op(rng, ids, 'R', 2 if style != 'clean' else 0))
        elif c < 0.30 or not rig.log:
            do(_gen_op(rng, ids, 'W', 2 if style != 'clean' else 0))
        elif c < 0.62 and undel:
            k = undel[0]
            delivered.add(k)
            do(['D', k])
        elif c < 0.72 and undel:
            k = undel[-1]
            delivered.add(k)
            do(['D', k])
        elif c < 0.86:
            k = rng.randrange(len(rig.log) + 1)         # duplicates, late ones, one index past the end
            if k < len(rig.log):
                delivered.add(k)
            do(['D', k])
        elif c < 0.93 and style != 'clean':
            do(_forged(rng, rig, ids))
        elif c < 0.96:
            do(['X'])
        else:
            k = rng.randrange(len(rig.log))
            delivered.add(k)
            do(['D', k])
            do(['D', k])
    # drain: deliver what was never delivered, oldest first
    for _ in range(80):
        undel = [k for k in range(len(rig.log)) if k not in delivered]
        if not undel:
            break
        delivered.add(undel[0])
        do(['D', undel[0]])
    return {'plan': plan, 'events': events, 'windows': windows_of(events), 'early': early}


BASES = [0x10000000, 0x20000000, 0x30000000]


def gen_deck_case(rng, style, early=False):
    """histories through the deck layer: DeckMemory.read / write on decks with different bases (one read and one
    write may be outstanding at the same time), requests on other memories, replies delivered late / twice / out of
    order, refusals, disconnects"""
    plan = []
    if style != 'clean':
        p = rng.choice([0.0, 0.05, 0.15])
        plan = [rng.randrange(1, 256) if rng.random() < p else 0 for _ in range(60)]
    rig = c06_mem.Rig(plan)
    rig.early = early
    events, delivered = [], set()
    tok = [0]

    def do(ev):
        events.append(ev)
        rig.do(ev)
        delivered.update(rig.early_done)

    for _ in range(rng.randrange(4, 26)):
        undel = [k for k in range(len(rig.log)) if k not in delivered]
        c = rng.random()
        if c < 0.16 or not rig.log and c < 0.5:
            n = rng.choice(R_LENS[:12]) if rng.random() < 0.8 else rng.randrange(0, 90)
            ev = ['DR', rng.choice(BASES), rng.choice([0, 8, 0x40, 0x41, 100, 0xFFF0]), n,
                  tok[0] if rng.random() < 0.65 else -1 - tok[0]]           # negative: no failure callback
            tok[0] += 1
            _deck_react(rng, ev, tok)
            do(ev)
        elif c < 0.32 or not rig.log:
            n = rng.choice(W_LENS[:12]) if rng.random() < 0.8 else rng.randrange(0, 90)
            ev = ['DW', rng.choice(BASES), rng.choice([0, 8, 0x40, 0x41, 100, 0xFFF0]),
                  [rng.randrange(256) for _ in range(n)], tok[0] if rng.random() < 0.65 else -1 - tok[0]]
            tok[0] += 1
            _deck_react(rng, ev, tok)
            do(ev)
        elif c < 0.37:
            do(_gen_op(rng, [1, 2], rng.choice('RW'), 0))
        elif c < 0.66 and undel:
            k = rng.choice(undel[:3])          # the oldest few: replies of the read and the write interleave
            delivered.add(k)
            do(['D', k])
        elif c < 0.74 and undel:
            k = undel[-1]
            delivered.add(k)
            do(['D', k])
        elif c < 0.90:
            k = rng.randrange(len(rig.log) + 1)
            if k < len(rig.log):
                delivered.add(k)
            do(['D', k])
        elif c < 0.94 and style != 'clean':
            do(_forged(rng, rig, [c06_mem.DECK_ID, 1]))
        elif c < 0.97:
            do(['X'])
    for _ in range(60):
        undel = [k for k in range(len(rig.log)) if k not in delivered]
        if not undel:
            break
        delivered.add(undel[0])
        do(['D', undel[0]])
    return {'plan': plan, 'events': events, 'windows': windows_of(events), 'early': early}


def _deck_react(rng, ev, tok):
    """with some probability the caller's deck callback issues the next deck request from inside: the next block
    (write -> write), a read back (write -> read), the next read, a write of what was read, a retry after a failure"""
    if rng.random() > 0.3:
        return
    on = rng.choice(['ok', 'ok', 'fail', 'any'])
    if on == 'fail' and ev[4] < 0:
        return                                  # no failure callback: nothing runs
    if rng.random() < 0.35:
        op = list(ev[:4]) + [tok[0]]            # the same request again (retry / next round)
    elif rng.random() < 0.5:
        op = ['DR', rng.choice(BASES), rng.choice([0, 8, 0x40]), rng.choice([5, 20, 30]), tok[0]]
    else:
        op = ['DW', rng.choice(BASES), rng.choice([0, 8, 0x40]), [rng.randrange(256) for _ in range(rng.choice([3, 25, 40]))], tok[0]]
    tok[0] += 1
    ev.append({'on': on, 'op': op})


def _gen_op(rng, ids, kind, depth, same=None):
    """a read or write; with some probability it carries a reaction: a request the listener issues from inside the
    notification (a retry of the same request, or another request, mostly on the same memory)"""
    i = rng.choice(ids) if same is None or rng.random() < 0.2 else same
    if kind == 'R':
        n = rng.choice(R_LENS) if rng.random() < 0.8 else rng.randrange(0, 130)
        ev = ['R', i, _addr(rng, n), n]
    else:
        n = rng.choice(W_LENS) if rng.random() < 0.8 else rng.randrange(0, 130)
        ev = ['W', i, _addr(rng, n), [rng.randrange(256) for _ in range(n)], rng.random() < 0.25]
    if depth > 0 and rng.random() < 0.3:
        on = rng.choice(['ok', 'fail', 'fail', 'any'])
        if rng.random() < 0.4:
            op = list(ev)                                   # retry
            if rng.random() < 0.3 and depth > 1:
                op.append({'on': rng.choice(['ok', 'fail', 'any']), 'op': _gen_op(rng, ids, rng.choice('RW'), 0, i)})
        else:
            op = _gen_op(rng, ids, rng.choice('RW'), depth - 1, i)
        ev.append({'on': on, 'op': op})
    return ev


def _forged(rng, rig, ids):
    c = rng.randrange(8)
    i = rng.choice(ids)
    le = lambda a: [a & 255, (a >> 8) & 255, (a >> 16) & 255, (a >> 24) & 255]
    if c == 0:
        return ['P', rng.choice([1, 2, 3]), []]
    if c == 1:
        return ['P', rng.choice([1, 2]), [i] + [rng.randrange(256) for _ in range(rng.randrange(0, 5))]]
    if c == 2:
        return ['P', 3, [i] + le(0) + [0]]
    if c == 3:
        return ['P', rng.choice([1, 2]), [rng.choice([3, 4, 200])] + le(0) + [0]]     # memory nobody asked about
    if c == 4:
        return ['P', rng.choice([1, 2]), [i] + le(rng.choice([0, 20, 25, 12345])) + [rng.randrange(1, 256)]]
    if c == 5:
        return ['P', 1, [i] + le(rng.choice([0, 20, 40])) + [0] + [rng.randrange(256) for _ in range(rng.choice([0, 3, 20, 24]))]]
    if c == 6:
        return ['P', 2, [i] + le(rng.choice([0, 25, 50])) + [0] + [7] * rng.randrange(0, 3)]
    # answer shaped like the one the pending request waits for
    rr = getattr(rig.mem, '_read_requests', {})
    if i in rr:
        a = rr[i]._current_addr
        return ['P', 1, [i] + le(a & 0xFFFFFFFF) + [0] + [rng.randrange(256) for _ in range(rng.choice([0, 5, 20]))]]
    return ['P', 2, [i] + le(rng.choice([0, 25])) + [0]]


def nontrivial(case):
    if case.get('kind') == 'tester':
        return any(b != (case['start'] + j) & 0xFF for j, b in enumerate(case['data'])) or not case['data']
    if case.get('kind') == 'info':
        evs = case['events']
        return any(d[0] == 1 for d in case['dev']) or sum(1 for e in evs if e[0] == 'F') > 1 or any(e[0] == 'X' for e in evs)
    evs = list(c06_mem.all_ops(case['events']))
    cross = any((e[0] in ('R', 'DR') and e[3] > 20) or (e[0] in ('W', 'DW') and len(e[3]) > 25) for e in evs)
    ds = [e[1] for e in evs if e[0] == 'D']
    dup = len(ds) != len(set(ds))
    err = any(case['plan'][:sum(1 for e in evs if e[0] in ('R', 'W', 'DR', 'DW')) * 5])
    drop = any(e[0] == 'X' for e in evs)
    return cross or dup or err or drop


def corpus_cases():
    out = []
    for p in sorted(glob.glob(os.path.join(coqrun.VERIF, 'corpus', 'C06', '*.json'))):
        c = json.load(open(p))
        c.setdefault('plan', [])
        c['windows'] = [] if c.get('kind') == 'info' else windows_of(c['events'])
        c['_file'] = os.path.basename(p)
        out.append(c)
    return out


# ------------------------------------------------------------------ tie
def tie(ctx):
    cases = [dict(c) for c in corpus_cases()]
    n_gen = ctx.scale(700, 9000)
    for k in range(n_gen):
        cases.append(gen_case(ctx.rng, 'clean' if k % 4 == 0 else 'faulty', early=(k % 4 == 1)))
    # the deck layer: random histories + the systematic ones of the oracle
    n_deck = ctx.scale(250, 3000)
    for k in range(n_deck):
        cases.append(gen_deck_case(ctx.rng, 'clean' if k % 4 == 0 else 'faulty', early=(k % 4 == 1)))
    for c in deck_systematic_cases():
        c = dict(c)
        c['windows'] = windows_of(c['events'])
        cases.append(c)
    # systematic single transfers at every chunk boundary (in order, every reply twice)
    for n in R_LENS:
        evs = [['R', 1, 3, n]]
        for k in range(n // 20 + 2):
            evs += [['D', k], ['D', k]]
        cases.append({'plan': [], 'events': evs, 'windows': windows_of(evs)})
    for n in W_LENS:
        evs = [['W', 2, 5, [(7 * j + n) % 256 for j in range(n)], False]]
        for k in range(n // 25 + 2):
            evs += [['D', k], ['D', k]]
        cases.append({'plan': [], 'events': evs, 'windows': windows_of(evs)})
    # complete small scope: every schedule of `depth` deliveries over the first `width` replies (multiplicities,
    # delays, reorderings) after a fixed set of requests: two queued writes (the second flushing or not) and a read
    # of one memory, starting at the same address so that stale acknowledgements match
    depth, width = (5, 5) if ctx.thorough else (4, 4)
    import itertools
    n_enum = 0
    for fl in (False, True):
        base = [['W', 1, 0, [(3 * j + 1) % 256 for j in range(30)], False], ['W', 1, 0, [9, 8, 7], fl], ['R', 1, 0, 25]]
        for sched in itertools.product(range(width), repeat=depth):
            evs = base + [['D', k] for k in sched]
            cases.append({'plan': [], 'events': evs, 'windows': [[1, 0, 34]]})
            n_enum += 1
    # link drop after every k-th reply of a transfer, then the same requests again
    for (op, m) in ((['R', 1, 3, 45], 3), (['W', 2, 5, [(7 * j) % 256 for j in range(60)], False], 3)):
        for k in range(m + 1):
            evs = [op] + [['D', j] for j in range(k)] + [['X'], op] + [['D', j] for j in range(k + m + 1)]
            cases.append({'plan': [], 'events': evs, 'windows': windows_of(evs)})
    terms, exp, anomalies = [], [], []
    n_nested = 0
    # memory enumeration / refresh against a byte-exact device
    n_info = ctx.scale(220, 2500)
    for k in range(n_info):
        cases.append(c06_infojudge.gen_info_case(ctx.rng, 'clean' if k % 3 == 0 else 'faulty', early=(k % 4 == 1)))
    sysinfo = c06_infojudge.systematic_info_cases()
    cases += sysinfo if ctx.thorough else sysinfo[::3]
    # MemoryTester.new_data against tester_new_data TFixed (the per-byte loop and its completion)
    n_tester = 0
    for k in range(ctx.scale(150, 1500)):
        start = ctx.rng.choice([0, 7, 250, 65530])
        n = ctx.rng.choice([0, 1, 2, 5, 20, 33])
        data = [(start + j) & 0xFF for j in range(n)]
        for _ in range(ctx.rng.choice([0, 0, 1, 2])):
            if n:
                data[ctx.rng.choice([0, n // 2, n - 1, ctx.rng.randrange(n)])] ^= ctx.rng.choice([1, 0x80, 0xFF])
        cbset = ctx.rng.random() < 0.85
        cases.append({'kind': 'tester', 'plan': [], 'events': [], 'start': start, 'data': data, 'cb': cbset})
        n_tester += 1
    for c in cases:
        if c.get('kind') == 'tester':
            terms.append('tenc (tester_new_data TFixed %d %s %s true)' % (c['start'], coqrun.zlist(c['data']), coqrun.coq_bool(c['cb'])))
            exp.append(_tester_impl(c))
            continue
        if c.get('kind') == 'info':
            ints, rig = c06_infojudge.run_info_impl(c)
            terms.append(c06_infojudge.info_case_term(c, rig.top))
            exp.append(ints)
            if rig.anomalies and len(anomalies) < 5:
                anomalies.append({'what': 'send_packet called with arguments the protocol does not need', 'events': c['events'][:12],
                                  'impl': rig.anomalies[:2]})
            continue
        ints, rig = run_impl(c)
        terms.append(deck_case_term(c, rig.flat) if is_deck_case(c) else case_term(c, rig.top, rig.policy))
        exp.append(ints)
        n_nested += len(rig.policy)
        if rig.obs_after_nested and len(anomalies) < 5:
            anomalies.append({'what': 'the handler went on sending / notifying after a listener that issued a request '
                                      'from inside the notification returned (listeners must be called last)',
                              'events': c['events'][:12]})
        if rig.anomalies and len(anomalies) < 5:
            anomalies.append({'what': 'send_packet called with arguments the protocol does not need '
                                      '(port 4, channel 1/2, expected_reply = first five bytes, timeout 1, <= 30 bytes)',
                              'events': c['events'][:12], 'impl': rig.anomalies[:2]})
    dis = list(anomalies)
    nbad = 0
    for bi, mv in compare_cases(terms, exp):
        nbad += 1
        if len(dis) < 6:
            e = exp[bi]
            pos = None
            if mv is not None:
                pos = next((k for k in range(min(len(mv), len(e))) if mv[k] != e[k]), min(len(mv), len(e)))
            dis.append({'what': 'memory subsystem: model and implementation differ', 'plan': cases[bi]['plan'][:40],
                        'events': cases[bi]['events'], 'first_difference_at': pos,
                        'model': None if mv is None else mv[max(0, pos - 12):pos + 12],
                        'impl': e if pos is None else e[max(0, pos - 12):pos + 12]})
    if nbad:
        dis.append({'what': 'total disagreeing histories', 'count': nbad})
    keys = set()
    dist = {'events': 0, 'reads': 0, 'writes': 0, 'flushing_writes': 0, 'deliveries': 0, 'duplicate_deliveries': 0,
            'forged_packets': 0, 'disconnects': 0, 'refusal_slots_in_plans': 0, 'max_len': 0}
    for c, e in zip(cases, exp):
        if nontrivial(c):
            keys.add(runner_sha(c))
        evs = c['events']
        dist['events'] += len(evs)
        dist['reads'] += sum(1 for x in evs if x[0] == 'R')
        dist['writes'] += sum(1 for x in evs if x[0] == 'W')
        dist['flushing_writes'] += sum(1 for x in evs if x[0] == 'W' and x[4])
        ds = [x[1] for x in evs if x[0] == 'D']
        dist['deliveries'] += len(ds)
        dist['duplicate_deliveries'] += len(ds) - len(set(ds))
        dist['forged_packets'] += sum(1 for x in evs if x[0] == 'P')
        dist['disconnects'] += sum(1 for x in evs if x[0] == 'X')
        dist['refusal_slots_in_plans'] += sum(1 for s in c['plan'] if s)
        dist['max_len'] = max([dist['max_len']] + [x[3] for x in evs if x[0] == 'R'] + [len(x[3]) for x in evs if x[0] == 'W'])
        # stale deliveries: marker 9 followed by freshness flag 0 on a 'D' event
    dist['stale_deliveries_in_first_300'] = sum(_count_stale(c) for c in cases[:300])
    dist['enumerated_schedules'] = n_enum
    dist['memory_tester_listener_cases'] = n_tester
    dist['enumeration_histories'] = sum(1 for c in cases if c.get('kind') == 'info')
    dist['refresh_calls'] = sum(1 for c in cases for e in c['events'] if e[0] == 'F')
    dist['one_wire_memories'] = sum(1 for c in cases if c.get('kind') == 'info' for d in c['dev'] if d[0] == 1)
    dist['deck_layer_histories'] = sum(1 for c in cases if is_deck_case(c))
    dist['deck_reads'] = sum(1 for c in cases for e in c['events'] if e[0] == 'DR')
    dist['deck_writes'] = sum(1 for c in cases for e in c['events'] if e[0] == 'DW')
    dist['requests_issued_from_inside_a_notification'] = n_nested
    return {
        'evaluations': len(cases),
        'distinct_nontrivial': len(keys),
        'rule': 'closed-loop histories on the real Memory object vs run_case of the model, compared integer by integer '
                '(digest per history, differing histories re-evaluated in full); non-trivial: some length crosses a chunk '
                'boundary (read > 20, write > 25) or a reply is delivered twice or a request is refused or the link drops',
        'samples': [{'plan': c['plan'][:8], 'events': c['events'][:10]} for c in cases[len(cases) // 2:len(cases) // 2 + 3]],
        'distribution': dist,
        'exhaustive': False,
        'small_scope_schedules': n_enum,
        'disagreements': dis,
    }


def dg61(values):
    h = 7
    for v in values:
        h = (h * 1000003 + v + 1) & 2305843009213693951
    return h


def compare_cases(terms, exp, tag='c06'):
    """model vs implementation per history by the 61-bit digest `dg61` of Model.v; differing ones in full"""
    dg = coqrun.eval_terms(HEADER, ['dg61 (%s)' % t for t in terms], tag=tag, shard=max(8, -(-len(terms) // 32)), timeout=900)
    bad = [i for i, (d, e) in enumerate(zip(dg, exp)) if d != dg61(e)]
    out = []
    if bad:
        full = coqrun.eval_terms(HEADER, [terms[i] for i in bad[:6]], tag=tag + 'f', shard=1, timeout=900)
        out = list(zip(bad[:6], full)) + [(i, None) for i in bad[6:]]
    return out


def _tester_impl(c):
    import cflib.crazyflie.mem as memmod
    logging_off = __import__('logging').getLogger('cflib.crazyflie.mem.memory_tester')
    logging_off.setLevel(100)
    t = memmod.MemoryTester(id=3, type=0x15, size=0x1000, mem_handler=None)
    calls = []
    if c['cb']:
        t._update_finished_cb = lambda el: calls.append(1 if el.readValidationSucess else 0)
    t.new_data(t, c['start'], bytearray(c['data']))
    return [1 if t._update_finished_cb else 0, 1 if t.readValidationSucess else 0] + calls


def _count_stale(case):
    rig = c06_mem.Rig(case['plan'])
    n = 0
    for ev in case['events']:
        z = rig.do(ev)
        if ev[0] == 'D' and z[1] == 0:
            n += 1
    return n


def runner_sha(case):
    import hashlib
    return hashlib.sha1(json.dumps([case['plan'], case['events'], case.get('start'), case.get('data'), case.get('dev')], sort_keys=True).encode()).hexdigest()


# ------------------------------------------------------------------ oracle (property text on observables)
class Judge:
    """Runs a history on the real code and checks the property text with bookkeeping of its own."""

    def __init__(self, case):
        self.case = case
        self.rig = c06_mem.Rig(case.get('plan', []))
        self.rig.want_pre = True
        self.rig.early = bool(case.get('early'))
        self.fail = None
        self.req = {}            # uid -> request as the caller knows it + what was observed for it
        self.rpend = {}          # id -> uid of the accepted read that is not notified yet
        self.wq = {}             # id -> [uids] in call order (superseded ones removed)
        self.seen = 0
        self.handover = {}       # id -> uid that must be notified before the current event ends
        self.delivered = set()
        self.log_uid = []        # uid this bookkeeping attributes the n-th request packet (= n-th reply) to
        self.expect = {}
        self.in_x = False        # the event being executed is a link drop
        self.dead = set()        # uids of requests made on a dead link
        self.x_write_phase = False
        self.dops = {}           # deck layer: token -> the DeckMemory.read / write call and what was observed for it
        self.dout = {'r': None, 'w': None}     # token of the outstanding deck read / write
        self.drefusal = None     # the manager must refuse the deck call of this event ('operation ongoing')

    def flag(self, cls, detail, expected=None, observed=None, k=None):
        if self.fail is None:
            evs = self.case['events'] if k is None else self.case['events'][:k + 1]
            self.fail = {'class': cls, 'case': {'plan': self.case.get('plan', [])[:60], 'events': evs,
                                                'early': bool(self.case.get('early'))},
                         'expected': expected, 'observed': observed, 'detail': detail}

    def image_of(self, i):
        return {a: b for (j, a), b in self.rig.image.items() if j == i}

    def is_fresh(self, ev):
        """does the delivered reply answer a packet of the request that is still the active one of its memory"""
        if ev[0] == 'P':
            return False
        if ev[0] != 'D' or not (0 <= ev[1] < len(self.rig.log)):
            return True
        u = self.log_uid[ev[1]] if ev[1] < len(self.log_uid) else None
        if u is None:
            return False
        r = self.req[u]
        if r['kind'] == 'r':
            return self.rpend.get(r['id']) == u
        return (self.wq.get(r['id']) or [None])[0] == u

    def taint(self, ev):
        """A reply that does not answer a packet of the active request of its memory reaches the code.  Replies are
        matched by memory and address, so only a status-0 reply carrying exactly the address the active request is
        waiting for can be mistaken for its answer (F06b); any other one must be ignored and taints nothing."""
        rig = self.rig
        if ev[0] == 'D':
            if not (0 <= ev[1] < len(rig.log)):
                return
            chan, rep, how = rig.log[ev[1]][0], rig.log[ev[1]][1], 'stale'
        else:
            chan, rep, how = ev[1], ev[2], 'forged'
        if len(rep) < 6 or rep[5] != 0:
            return
        i = rep[0]
        a = rep[1] | rep[2] << 8 | rep[3] << 16 | rep[4] << 24
        if chan == 1 and i in self.rpend:
            r = self.req[self.rpend[i]]
            if r.get('last_a') == a:
                r['tainted'].add(how)
        if chan == 2 and self.wq.get(i):
            r = self.req[self.wq[i][0]]
            if r.get('last_a') == a:
                r['tainted'].add(how)

    def begin_deck_op(self, k, ev, u0):
        kind = 'r' if ev[0] == 'DR' else 'w'
        tok = ev[4]
        d = {'kind': kind, 'base': ev[1], 'addr': ev[2], 'uid': u0, 'state': 'pending'}
        self.dops[tok] = d
        if self.dout[kind] is not None:
            d['state'] = 'refused'
            self.drefusal = tok
            return
        self.dout[kind] = tok
        if kind == 'r':
            self.begin_op(k, ['R', c06_mem.DECK_ID, ev[1] + ev[2], ev[3]], u0)
        else:
            self.begin_op(k, ['W', c06_mem.DECK_ID, ev[1] + ev[2], ev[3], True], u0)
        if u0 in self.req:
            self.req[u0]['deck'] = tok

    def check_deck_note(self, k, kind, tok, a, data):
        d = self.dops.get(tok)
        if d is None or d['state'] != 'pending':
            self.flag('deck_notified_twice', 'deck request %r (%s) notified (again): %s' % (tok, d and d['state'], kind), k=k)
            return
        d['state'] = 'done'
        if self.dout[d['kind']] == tok:
            self.dout[d['kind']] = None
        r = self.req.get(d['uid'])
        want_kind = {'drok': ('r', 'rok'), 'drfail': ('r', 'rfail'), 'dwok': ('w', 'wok'), 'dwfail': ('w', 'wfail')}[kind]
        if d['kind'] != want_kind[0] or r is None or r.get('deck') != tok or r['state'] != 'done' or r.get('result') != want_kind[1]:
            self.flag('deck_notification_without_completion', 'deck callback %s for request %r, but the transfer it '
                      'stands for has not ended that way' % (kind, tok), k=k)
            return
        if a != d['addr']:
            self.flag('deck_%s_notification_wrong_address' % ('read' if d['kind'] == 'r' else 'write'), '%s of deck request %r (base 0x%X, address 0x%X) reports address '
                      '0x%X' % (kind, tok, d['base'], d['addr'], a & 0xFFFFFFFFFFFF), d['addr'], a, k)
        if kind == 'drok' and data != r['note'][4]:
            self.flag('deck_read_data_not_passed_through', 'deck read %r hands over other bytes than the transfer returned' % tok, k=k)

    def begin_op(self, k, ev, u0):
        """bookkeeping of a read()/write() call at the moment it is made (top level or from inside a listener)"""
        if self.in_x:
            # a request made from inside a notification of the link drop: a request on a link that is already gone (like
            # one made a moment later); outside the property's quantifier, it never reaches a device: not judged
            self.dead.add(u0)
            if ev[0] == 'W' and ev[4] and not self.x_write_phase:
                # made while the read-failed listeners run: the queues are still there, flush_queue supersedes
                q = self.wq.get(ev[1], [])
                for u in q[1:]:
                    self.req[u]['state'] = 'superseded'
                del q[1:]
            return
        if ev[0] == 'R':
            if ev[1] in self.rpend:
                self.expect[u0] = 'refused'
            else:
                self.expect[u0] = 'accepted'
                self.req[u0] = {'kind': 'r', 'id': ev[1], 'addr': ev[2], 'len': ev[3], 'state': 'pending',
                                'tainted': set(), 'wserved': False, 'off': 0, 'npk': 0}
                self.rpend[ev[1]] = u0
        else:
            q = self.wq.setdefault(ev[1], [])
            if ev[4]:
                for u in q[1:]:
                    self.req[u]['state'] = 'superseded'
                del q[1:]
            self.req[u0] = {'kind': 'w', 'id': ev[1], 'addr': ev[2], 'data': list(ev[3]), 'state': 'pending',
                            'tainted': set(), 'sent': 0, 'npk': 0, 'snapshot': None}
            q.append(u0)

    def end_op(self, k, ev, u0, u1):
        if u0 in self.dead:
            if u1 == u0:
                self.dead.discard(u0)        # refused: no request, the uid goes to the next one
            return
        if ev[0] != 'R':
            if u1 == u0:
                self.flag('write_refused_without_reason', 'write() returned False', True, False, k)
            return
        if self.expect.get(u0) == 'refused' and u1 != u0:
            self.flag('read_accepted_while_one_pending', 'read() returned True with a read pending on the memory', k=k)
        if self.expect.get(u0) == 'accepted' and u1 != u0 + 1:
            self.flag('read_refused_without_reason', 'read() returned False although no read is pending on this '
                      'memory: a request record was left behind', True, False, k)

    def step(self, k, ev):
        rig = self.rig
        if ev[0] == 'D' and 0 <= ev[1] < len(rig.log):
            self.delivered.add(ev[1])
        if not self.is_fresh(ev):
            self.taint(ev)
        self.in_x = ev[0] == 'X'
        self.x_write_phase = False
        rig.do(ev)
        self.delivered.update(rig.early_done)
        if rig.locked():
            cls = 'lock_left_held'
            # a write acknowledgement (replayed or forged) for a memory whose queue is empty
            if ev[0] == 'D' and 0 <= ev[1] < len(rig.log) and rig.log[ev[1]][0] == 2 and not self.wq.get(rig.log[ev[1]][1][0]):
                cls = 'dup_final_write_ack'
            if ev[0] == 'P' and ev[1] == 2 and ev[2] and not self.wq.get(ev[2][0]):
                cls = 'dup_final_write_ack'
            self.flag(cls, 'the write lock is still held after the event', 'free', 'held', k)
        if rig.last_hung:
            self.flag('blocks_on_lock', 'the call blocks for ever on the write lock', 'served', 'blocked', k)
        for item in rig.stream[self.seen:]:
            if item[0] == 's':
                self.check_packet(k, item[1], item[2], item[3])
            elif item[0] == 'early':
                self.delivered.add(item[1])
            elif item[0] == 'op':
                self.begin_op(k, item[1], item[2])
            elif item[0] == 'opret':
                # accepted? (an early reply may complete the request and its listener make another one before the
                # call returns: the uid counter is not a reliable witness then)
                self.end_op(k, item[1], item[2], (item[2] + 1 if item[4] else item[2]) if len(item) > 4 else item[3])
            elif item[0] == 'dop':
                self.begin_deck_op(k, item[1], item[2])
            elif item[0] == 'dopret':
                if item[1][0] == 'DR':
                    self.end_op(k, ['R', c06_mem.DECK_ID], item[2],
                                (item[2] + 1 if item[4] else item[2]) if len(item) > 4 else item[3])
            elif item[0] == 'dn':
                self.check_deck_note(k, item[1], item[2], item[3], item[4])
            else:
                if len(item) > 3 and item[3]:
                    self.flag('notification_with_lock_held', 'the listeners of %r run while the write lock is held: a '
                              'request made from there blocks for ever' % (item[1][:4],), 'lock free', 'held', k)
                self.check_note(k, ev, item[1], item[2] if len(item) > 2 else None)
        self.seen = len(rig.stream)
        if self.drefusal is not None:
            if not rig.last_raised:
                self.flag('deck_request_accepted_while_one_outstanding', 'the manager took a second deck %s while one '
                          'is outstanding' % ev[0], k=k)
            self.drefusal = None
        elif rig.last_raised and (ev[0] in ('DR', 'DW') or 'operation ongoing' in rig.last_exc):
            what = 'read' if 'Read' in rig.last_exc else 'write'
            self.flag('deck_request_refused_without_reason', 'DeckMemory.%s raised %s although no deck %s is outstanding '
                      '(made from inside a deck callback if the event is a delivery): a callback record is still there'
                      % (what, rig.last_exc, what), 'served', 'raised', k)
        elif rig.last_raised and "'NoneType' object is not callable" in rig.last_exc and \
                any(t < 0 and d['kind'] == 'w' for t, d in self.dops.items()):
            self.flag('deck_write_failed_without_callback_raises', 'a deck write made without write_failed_cb fails: the '
                      'manager calls None (%s); the handler is left half way%s' % (rig.last_exc,
                      ', the requests still to be failed by the link drop get no notification' if ev[0] == 'X' else ''),
                      'no exception', 'raised', k)
        elif rig.last_raised and ev[0] != 'P':
            self.flag('handler_raises', 'an exception left %r' % (ev[:2],), 'no exception', 'raised', k)
        for tok, d in self.dops.items():
            r0 = self.req.get(d['uid'])
            if d['state'] == 'pending' and tok < 0 and r0 is not None and r0['state'] == 'done' \
                    and r0.get('result') in ('rfail', 'wfail') and r0.get('deck') == tok:
                d['state'] = 'done'            # failed, the caller passed no failure callback: nothing is owed
                if self.dout[d['kind']] == tok:
                    self.dout[d['kind']] = None
                continue
            if d['state'] == 'pending' and (d['uid'] not in self.req or self.req[d['uid']]['state'] == 'done'):
                self.flag('deck_request_not_notified', 'the transfer of deck request %r ended, its callbacks were not called' % tok, k=k)
        for i, u in self.handover.items():
            if self.req[u]['state'] == 'pending':
                self.flag('write_started_before_predecessor_finished', 'a packet of the next queued write on memory %d was '
                          'sent while write %d is neither done nor failed' % (i, u), k=k)
        self.handover = {}
        if ev[0] == 'X':
            left = [u for u, r in self.req.items() if r['state'] == 'pending']
            if left:
                self.flag('not_failed_on_disconnect', 'requests %r got no notification when the link dropped' % left, k=k)
            self.rpend.clear()
            self.wq.clear()
            self.dout = {'r': None, 'w': None}
    def check_packet(self, k, chan, data, pre):
        if self.in_x:
            if len(data) >= 5:
                self.log_uid.append(None)       # handed to a link that is gone: belongs to no judged request
            return
        if len(data) > 30:
            self.flag('packet_too_long', 'request packet of %d bytes' % len(data), '<= 30', len(data), k)
        if len(data) < 5:
            self.flag('packet_malformed', 'request packet without id/address', k=k)
            return
        self.log_uid.append(None)
        i = data[0]
        a = data[1] | data[2] << 8 | data[3] << 16 | data[4] << 24
        if chan == 1:
            u = self.rpend.get(i)
            if u is None or len(data) != 6:
                self.flag('read_packet_without_request', 'read request for a memory with no pending read', k=k)
                return
            r = self.req[u]
            n = data[5]
            if n > 20:
                self.flag('read_chunk_too_long', 'read request for %d bytes' % n, '<= 20', n, k)
            if not r['tainted']:
                want = (r['addr'] + r['off'], min(20, r['len'] - r['off']))
                if (a, n) != want or (r['npk'] > 0 and n == 0):
                    self.flag('read_chunk_out_of_sequence', 'read [%d,+%d): packet asks for [%d,+%d), expected [%d,+%d)'
                              % (r['addr'], r['len'], a, n, want[0], want[1]), list(want), [a, n], k)
                r['off'] += n
            r['npk'] += 1
            r['last_a'] = a
            self.log_uid[-1] = u
        elif chan == 2:
            q = self.wq.get(i)
            if not q:
                self.flag('write_packet_without_request', 'write packet for a memory with an empty queue', k=k)
                return
            chunk = data[5:]
            ru = q[0]
            r = self.req[ru]
            off = a - r['addr']
            fits = off == r['sent'] and r['data'][off:off + len(chunk)] == chunk \
                and (len(chunk) > 0 or (r['npk'] == 0 and not r['data']))
            if not fits and len(q) > 1:
                # the next queued write may start once the oldest one is finished (its notification follows)
                self.handover[i] = q[0]
                ru = q[1]
                r = self.req[ru]
                off = a - r['addr']
                fits = off == 0 and r['data'][:len(chunk)] == chunk and r['npk'] == 0 and (len(chunk) > 0 or not r['data'])
            if not fits:
                self.flag('write_chunk_not_from_head', 'write packet at %d (%d bytes) is not the next piece of the oldest '
                          'queued write of memory %d' % (a, len(chunk), i), k=k)
                return
            if len(chunk) > 25:
                self.flag('write_chunk_too_long', '%d data bytes in one packet' % len(chunk), '<= 25', len(chunk), k)
            if r['npk'] == 0:
                r['snapshot'] = pre
            self.log_uid[-1] = ru
            r['sent'] = off + len(chunk)
            r['npk'] += 1
            r['last_a'] = a
            if i in self.rpend:
                self.req[self.rpend[i]]['wserved'] = True

    def check_note(self, k, ev, note, img=None):
        kind, u = note[0], note[1]
        if self.in_x and kind in ('wok', 'wfail'):
            self.x_write_phase = True
        if u in self.dead:
            return
        r = self.req.get(u)
        if r is None:
            self.flag('notification_for_unknown_request', repr(note[:4]), k=k)
            return
        if r['state'] != 'pending':
            self.flag('notified_twice' if r['state'] == 'done' else 'superseded_request_notified',
                      'request %d (%s) notified again: %r' % (u, r['state'], note[:4]), 'exactly one notification', note[0], k)
            return
        r['state'] = 'done'
        r['result'] = kind
        r['note'] = note
        i = r['id']
        if note[2] != i or note[3] != r['addr'] or kind[0] != r['kind']:
            self.flag('notification_wrong_arguments', repr(note[:4]), k=k)
        if r['kind'] == 'r':
            if self.rpend.get(i) == u:
                del self.rpend[i]
            if kind == 'rok' and 'forged' not in r['tainted'] and not r['wserved']:
                # the bytes held at the moment of the notification (a listener may issue a write from inside it)
                held = (lambda x: img.get(x, c06_mem.test_mem(i, x))) if img is not None else (lambda x: self.rig.byte(i, x))
                want = [held(r['addr'] + j) for j in range(r['len'])]
                if note[4] != want:
                    cls = 'stale_reply_accepted_by_later_request' if r['tainted'] else 'read_data_wrong'
                    self.flag(cls, 'read of [%d,+%d) on memory %d returned %d bytes that are not the bytes held there'
                              % (r['addr'], r['len'], i, len(note[4])), want[:40], note[4][:40], k)
        else:
            q = self.wq.get(i, [])
            if not q or q[0] != u:
                self.flag('write_out_of_order', 'write %d notified while %r is the oldest queued write' % (u, q[:1]), k=k)
                if u in q:
                    q.remove(u)
            else:
                q.pop(0)
            if kind == 'wok' and 'forged' not in r['tainted']:
                got = img if img is not None else self.image_of(i)
                if r['snapshot'] is None:
                    self.flag('write_done_without_packets', 'write %d reported done, no packet was sent for it' % u, k=k)
                    return
                want = dict(r['snapshot'])
                for j, b in enumerate(r['data']):
                    want[r['addr'] + j] = b
                # the next queued write starts before the callback: the image this write left is the one its
                # first packet found
                nxt = self.req[q[0]] if q else None
                if nxt is not None and nxt['npk'] == 1 and self.handover.get(i) == u:
                    got = nxt['snapshot']
                if got != want:
                    cls = 'stale_reply_accepted_by_later_request' if r['tainted'] else 'write_image_wrong'
                    bad = sorted(x for x in set(got) | set(want) if got.get(x) != want.get(x))[:5]
                    self.flag(cls, 'write of %d bytes at %d on memory %d reported done; image differs at %r'
                              % (len(r['data']), r['addr'], i, bad), k=k)

    def finish(self):
        """Deliver every reply not yet delivered (in order), then ask for one more read and write per memory."""
        rig = self.rig
        for _ in range(400):
            und = [j for j in range(len(rig.log)) if j not in self.delivered]
            if not und or self.fail:
                break
            self.case['events'].append(['D', und[0]])
            self.step(len(self.case['events']) - 1, self.case['events'][-1])
        if self.fail:
            return
        left = [u for u, r in self.req.items() if r['state'] == 'pending']
        if left:
            self.flag('request_never_completes', 'every reply was delivered, requests %r have no notification' % left)
            return
        ids = sorted({r['id'] for r in self.req.values()} - ({c06_mem.DECK_ID} if self.dops else set())) or [1]
        rig.plan = []          # the probe is answered without refusals
        if self.dops:
            t0 = max([abs(t) for t in self.dops]) + 2
            base = len(rig.log)
            probe = [['DR', BASES[0], 0x10, 45, t0], ['DW', BASES[1], 5, [(13 * j) % 256 for j in range(30)], t0 + 1],
                     ['D', base + 1], ['D', base], ['D', base + 3], ['D', base + 2], ['D', base + 4]]
            for ev in probe:
                self.case['events'].append(ev)
                self.step(len(self.case['events']) - 1, ev)
                if self.fail:
                    return
            got = [self.dops[t0]['state'], self.dops[t0 + 1]['state']]
            if got != ['done', 'done']:
                self.flag('deck_not_served_after_history', 'after the history a deck read and a deck write end as %r' % got,
                          ['done', 'done'], got)
                return
        for i in ids[:3]:
            base = len(rig.log)
            probe = [['R', i, 3, 45], ['D', base], ['D', base + 1], ['D', base + 2],
                     ['W', i, 5, [(11 * j + i) % 256 for j in range(30)], False], ['D', base + 3], ['D', base + 4]]
            n0 = len(rig.notes)
            for ev in probe:
                self.case['events'].append(ev)
                self.step(len(self.case['events']) - 1, ev)
                if self.fail:
                    return
            got = [n[1][0] for n in rig.notes[n0:]]
            if got != ['rok', 'wok']:
                self.flag('not_served_after_history', 'after the history a read and a write on memory %d produce %r' % (i, got),
                          ['rok', 'wok'], got)
                return


def _markers(body):
    """top-level markers of the encoded observations of one event"""
    out = []
    k = 0
    while k < len(body):
        t = body[k]
        out.append(t)
        if t == 1:
            k += 3 + body[k + 2]
        elif t in (2, 3):
            k += 5 + body[k + 4]
        elif t in (4, 5):
            k += 4
        elif t == 6:
            k += 2
        else:
            k += 1
    return out


def judge(case, finish=True):
    c = {'plan': list(case.get('plan', [])), 'events': [list(e) for e in case['events']], 'early': bool(case.get('early'))}
    j = Judge(c)
    for k, ev in enumerate(list(c['events'])):
        j.step(k, ev)
        if j.fail:
            return j.fail
    if finish:
        j.finish()
    return j.fail


def systematic_cases(deep):
    """single transfers at every chunk boundary: in order, every reply twice, refusal at the k-th request,
    link drop after the k-th reply; queues of writes with and without flush"""
    out = []
    addrs = [0, 3, 2 ** 32 - 101] + ([255, 65530] if deep else [])
    for n in R_LENS:
        for a in addrs:
            a = min(a, 2 ** 32 - max(n, 1))
            m = max(1, -(-n // 20))
            base = [['R', 1, a, n]]
            out.append({'plan': [], 'events': base + [['D', k] for k in range(m)]})
            out.append({'plan': [], 'events': base + [x for k in range(m) for x in (['D', k], ['D', k])]})
            if a == 3:
                for k in range(m):
                    out.append({'plan': [0] * k + [13], 'events': base + [['D', j] for j in range(k + 1)]})
                    out.append({'plan': [], 'events': base + [['D', j] for j in range(k)] + [['X']] + [['D', j] for j in range(k + 1)]})
    for n in W_LENS:
        for a in addrs:
            a = min(a, 2 ** 32 - max(n, 1))
            m = max(1, -(-n // 25))
            data = [(5 * j + n) % 256 for j in range(n)]
            base = [['W', 2, a, data, False]]
            out.append({'plan': [], 'events': base + [['D', k] for k in range(m)]})
            out.append({'plan': [], 'events': base + [x for k in range(m) for x in (['D', k], ['D', k])]})
            if a == 3:
                for k in range(m):
                    out.append({'plan': [0] * k + [5], 'events': base + [['D', j] for j in range(k + 1)] + [['D', k]]})
                    out.append({'plan': [], 'events': base + [['D', j] for j in range(k)] + [['X']] + [['D', j] for j in range(k + 1)]})
    # queues
    for fl in ([False, False, False], [False, True, False], [False, False, True], [True, True, True]):
        evs = [['W', 1, 10 * j, [j + 1] * (30 + 25 * j), fl[j]] for j in range(3)]
        evs += [x for k in range(10) for x in (['D', k], ['D', k])]
        out.append({'plan': [], 'events': evs})
        out.append({'plan': [0, 9], 'events': evs})
    # requests issued from inside a notification (re-entrant listeners): retry of a refused write / read, a follow-up
    # request from the success notification, with and without another write queued behind
    d60 = [(j + 1) % 256 for j in range(60)]
    for plan in ([5], [0, 5], [0, 0, 5]):
        w = ['W', 1, 100, d60, False, {'on': 'fail', 'op': ['W', 1, 100, d60, False]}]
        out.append({'plan': plan, 'events': [w] + [['D', k] for k in range(8)]})
        out.append({'plan': plan, 'events': [w, ['W', 1, 10, [9] * 30, False]] + [['D', k] for k in range(10)]})
        r = ['R', 1, 3, 45, {'on': 'fail', 'op': ['R', 1, 3, 45]}]
        out.append({'plan': plan, 'events': [r] + [['D', k] for k in range(8)]})
    w = ['W', 2, 0, d60, False, {'on': 'ok', 'op': ['W', 2, 30, d60, True, {'on': 'ok', 'op': ['R', 2, 0, 90]}]}]
    out.append({'plan': [], 'events': [w] + [['D', k] for k in range(12)]})
    r = ['R', 2, 0, 41, {'on': 'ok', 'op': ['R', 2, 41, 41, {'on': 'any', 'op': ['W', 2, 0, d60, False]}]}]
    out.append({'plan': [], 'events': [r] + [['D', k] for k in range(12)]})
    # requests made from the notifications of a link drop (retry listeners), with one and several requests pending
    for k in (0, 1):
        w = ['W', 1, 100, d60, False, {'on': 'fail', 'op': ['W', 1, 100, d60, False]}]
        r = ['R', 1, 3, 45, {'on': 'fail', 'op': ['R', 1, 3, 45]}]
        r2 = ['R', 2, 0, 30, {'on': 'any', 'op': ['W', 2, 0, d60, False]}]
        w2 = ['W', 2, 0, [5] * 30, False, {'on': 'fail', 'op': ['R', 1, 0, 20]}]
        tail = [['D', j] for j in range(k)] + [['X']] + [['D', j] for j in range(12)]
        out.append({'plan': [], 'events': [w] + tail})
        out.append({'plan': [], 'events': [r] + tail})
        out.append({'plan': [], 'events': [r, w, r2, w2, ['W', 1, 10, [9] * 30, False]] + tail})
        out.append({'plan': [], 'events': [w2, r2] + tail + [r, w] + [['D', j] for j in range(12, 24)]})
    # a late duplicate of a reply to an earlier read, with an address other than the awaited one (higher, lower),
    # delivered during a later read of the same memory: must be ignored
    for (a1, a2, n2) in ((20, 0, 40), (40, 0, 60), (0, 20, 40), (25, 5, 45)):
        evs = [['R', 1, a1, 20], ['D', 0], ['R', 1, a2, n2], ['D', 0], ['D', 1], ['D', 2], ['D', 3], ['D', 4]]
        out.append({'plan': [], 'events': evs})
    for (a1, a2) in ((25, 0), (0, 25)):
        evs = [['W', 1, a1, [7] * 25, False], ['D', 0], ['W', 1, a2, d60, False], ['D', 0], ['D', 1], ['D', 2], ['D', 3]]
        out.append({'plan': [], 'events': evs})
    # EARLY replies: every reply to a packet sent by the caller's thread is dispatched before the call returns
    for n in R_LENS[:9]:
        out.append({'plan': [], 'early': True, 'events': [['R', 1, 3, n], ['R', 1, 3, n]] + [['D', k] for k in range(8)]})
    for n in W_LENS[:9]:
        d = [(5 * j + n) % 256 for j in range(n)]
        out.append({'plan': [], 'early': True, 'events': [['W', 2, 3, d, False], ['W', 2, 3, d, True]] + [['D', k] for k in range(8)]})
    out.append({'plan': [9], 'early': True, 'events': [['R', 1, 3, 45], ['R', 1, 3, 45], ['D', 1], ['D', 2], ['D', 3]]})
    out.append({'plan': [9], 'early': True, 'events': [['W', 1, 3, d60, False], ['W', 1, 3, d60, False], ['D', 1], ['D', 2], ['D', 3]]})
    # interleaved memories
    evs = [['R', 1, 0, 50], ['W', 1, 0, list(range(60)), False], ['R', 2, 0, 50], ['W', 2, 7, list(range(40)), False]]
    evs += [['D', k] for k in (3, 2, 1, 0, 4, 5, 6, 7, 8, 9, 10)]
    out.append({'plan': [], 'events': evs})
    return out


def deck_systematic_cases():
    """one deck read and one deck write outstanding at the same time on decks with different bases, replies of the
    two interleaved in every order class; a read (write) after a write (read) at another base; refusals"""
    A, B, C = BASES
    out = []
    d60 = [(5 * j + 3) % 256 for j in range(60)]
    rd = [['D', 0], ['D', 4]]            # read of 30 bytes: requests 0 and (after its first reply) one more
    # read on A delayed, write to B completes in between (and the other way round)
    out.append({'plan': [], 'events': [['DR', A, 0x40, 30, 0], ['DW', B, 8, d60, 1], ['D', 1], ['D', 2], ['D', 3], ['D', 0], ['D', 4]]})
    out.append({'plan': [], 'events': [['DW', B, 8, d60, 0], ['DR', A, 0x40, 30, 1], ['D', 1], ['D', 2], ['D', 0], ['D', 3], ['D', 4]]})
    out.append({'plan': [], 'events': [['DR', A, 0x40, 30, 0], ['DW', B, 8, d60, 1], ['D', 0], ['D', 1], ['D', 2], ['D', 3], ['D', 4]]})
    # sequential: write to B after a read on A has completed, read on C after a write to B
    out.append({'plan': [], 'events': [['DR', A, 0x40, 30, 0], ['D', 0], ['D', 1], ['DW', B, 8, d60, 1], ['D', 2], ['D', 3], ['D', 4],
                                       ['DR', C, 0, 45, 2], ['D', 5], ['D', 6], ['D', 7]]})
    # refusals: the write / the read is refused while the other one is outstanding
    out.append({'plan': [0, 9], 'events': [['DR', A, 0x40, 30, 0], ['DW', B, 8, d60, 1], ['D', 1], ['D', 0], ['D', 2]]})
    out.append({'plan': [9], 'events': [['DR', A, 0x40, 30, 0], ['DW', B, 8, d60, 1], ['D', 0], ['D', 1], ['D', 2], ['D', 3]]})
    # second read while one is outstanding: refused by the manager; link drop with both outstanding
    out.append({'plan': [], 'events': [['DR', A, 0, 45, 0], ['DR', B, 0, 5, 1], ['DW', B, 0, d60, 2], ['DW', A, 0, [1], 3],
                                       ['X'], ['DR', B, 8, 5, 4], ['D', 2], ['D', 0]]})
    # the optional failure callbacks left out (negative tokens): the request fails at every chunk (error status) or by
    # link loss; afterwards a read and a write on the same manager must be served
    for k in (0, 1):
        out.append({'plan': [0] * k + [9], 'events': [['DR', A, 0x40, 30, -1]] + [['D', j] for j in range(k + 1)]
                    + [['DR', A, 0x40, 30, 2], ['D', k + 1], ['D', k + 2], ['DW', B, 8, d60, -3], ['D', k + 3], ['D', k + 4], ['D', k + 5]]})
        out.append({'plan': [], 'events': [['DR', A, 0x40, 30, -1]] + [['D', j] for j in range(k)] + [['X']]
                    + [['DR', B, 0, 5, -2], ['D', k + 1], ['DR', B, 0, 5, 3], ['D', k + 2]]})
    for k in (0, 1, 2):
        out.append({'plan': [0] * k + [9], 'events': [['DW', B, 8, d60, -1]] + [['D', j] for j in range(k + 1)]
                    + [['DW', B, 8, d60, 2], ['D', k + 1], ['D', k + 2], ['D', k + 3], ['DR', A, 0, 5, -3], ['D', k + 4]]})
    out.append({'plan': [], 'events': [['DW', B, 8, d60, -1], ['W', 1, 0, [1, 2, 3], False], ['R', 2, 0, 5], ['X'],
                                       ['DW', B, 8, [1], 2], ['D', 3]]})
    # deck requests made from inside deck callbacks: next block, read back, next read, write of what was read, retry
    chain = [(['DW', B, 8, d60, 0, {'on': 'ok', 'op': ['DW', B, 68, d60, 1]}], []),
             (['DW', B, 8, d60, 0, {'on': 'ok', 'op': ['DR', B, 8, 30, 1]}], []),
             (['DR', A, 0x40, 30, 0, {'on': 'ok', 'op': ['DR', A, 0x5E, 30, 1]}], []),
             (['DR', A, 0x40, 30, 0, {'on': 'ok', 'op': ['DW', B, 8, d60, 1]}], []),
             (['DW', B, 8, d60, 0, {'on': 'fail', 'op': ['DW', B, 8, d60, 1]}], [9]),
             (['DW', B, 8, d60, 0, {'on': 'fail', 'op': ['DW', B, 8, d60, 1]}], [0, 9]),
             (['DR', A, 0x40, 30, 0, {'on': 'fail', 'op': ['DR', A, 0x40, 30, 1]}], [9])]
    for ev, plan in chain:
        out.append({'plan': plan, 'events': [ev] + [['D', j] for j in range(10)]})
    return out


def high_level_cases():
    """MemoryTester and DeckMemoryManager on the real Memory: the pattern is read back and written exactly."""
    fails = []
    n = 0
    import cflib.crazyflie.mem as memmod
    for (start, size) in [(0, 0x40), (7, 20), (3, 21), (250, 100), (0, 1)]:
        rig = c06_mem.Rig([])
        rig.cur = []
        # device image = the tester's pattern
        for a in range(start, start + size):
            rig.image[(9, a)] = a & 0xFF
        t = memmod.MemoryTester(id=9, type=0x15, size=0x1000, mem_handler=rig.mem)
        t.uid = 0
        rig.mem.mem_read_cb.add_callback(t.new_data)
        rig.mem.mem_write_cb.add_callback(t.write_done)
        done = []
        t.read_data(start, size, lambda m: done.append('r'))
        k = 0
        while k < len(rig.log) and k < 50:
            rig.cur = []
            rig.deliver(rig.log[k][0], rig.log[k][1])
            k += 1
        n += 1
        if done != ['r'] or not t.readValidationSucess:
            fails.append({'class': 'memory_tester_read', 'case': {'hl': 'tester_read', 'start': start, 'size': size},
                          'expected': 'pattern validated', 'observed': [done, t.readValidationSucess]})
        rig.image.clear()
        t.write_data(start, size, lambda m, a: done.append('w'))
        while k < len(rig.log) and k < 100:
            rig.cur = []
            rig.deliver(rig.log[k][0], rig.log[k][1])
            k += 1
        want = {(9, a): a & 0xFF for a in range(start, start + size)}
        if done != ['r', 'w'] or rig.image != want:
            fails.append({'class': 'memory_tester_write', 'case': {'hl': 'tester_write', 'start': start, 'size': size},
                          'expected': 'pattern written', 'observed': [done, len(rig.image)]})
    # deck memory manager: mapped read / write
    for (base, addr, size) in [(0x10000000, 0, 45), (0x20000000, 123, 25), (0x10000000, 5, 0x60)]:
        rig = c06_mem.Rig([])
        rig.cur = []
        d = memmod.DeckMemoryManager(id=6, type=0x19, size=0x10000000, mem_handler=rig.mem)
        d.uid = 0
        rig.mem.mem_read_cb.add_callback(d._new_data)
        rig.mem.mem_write_cb.add_callback(d._write_done)
        got = []
        d._read(base, addr, size, lambda a, data: got.append((a, list(data))), None)
        k = 0
        while k < len(rig.log) and k < 50:
            rig.cur = []
            rig.deliver(rig.log[k][0], rig.log[k][1])
            k += 1
        n += 1
        want = [(addr, [c06_mem.test_mem(6, base + addr + j) for j in range(size)])]
        if got != want:
            fails.append({'class': 'deck_memory_read', 'case': {'hl': 'deck_read', 'base': base, 'addr': addr, 'size': size},
                          'expected': want, 'observed': got})
        data = [(3 * j + 1) % 256 for j in range(size)]
        wrote = []
        d._write(base, addr, bytearray(data), lambda a: wrote.append(a), None, None)
        while k < len(rig.log) and k < 100:
            rig.cur = []
            rig.deliver(rig.log[k][0], rig.log[k][1])
            k += 1
        want = {(6, base + addr + j): b for j, b in enumerate(data)}
        if len(wrote) != 1 or rig.image != want:
            fails.append({'class': 'deck_memory_write', 'case': {'hl': 'deck_write', 'base': base, 'addr': addr, 'size': size},
                          'expected': 'image == data', 'observed': [wrote, len(rig.image)]})
    # progress callback of a write: called with non-decreasing percentages ending at 100, for every length
    # (0 included); the write completes and the lock is free afterwards
    for size in (0, 1, 25, 26, 60):
        rig = c06_mem.Rig([])
        rig.cur = []
        mobj = rig.new_mem(3)
        prog = []
        n += 1
        observed = None
        try:
            rig.mem.write(mobj, 7, bytearray((j * 5) % 256 for j in range(size)), progress_cb=lambda msg, p: prog.append(p))
            k = 0
            while k < len(rig.log) and k < 20:
                rig.cur = []
                rig.deliver(rig.log[k][0], rig.log[k][1])
                k += 1
        except BaseException as e:
            observed = 'raised ' + type(e).__name__
        done = [x[1][0] for x in rig.notes]
        if observed is None and (done != ['wok'] or rig.locked() or prog != sorted(prog) or prog[-1:] != [100]):
            observed = {'notifications': done, 'lock_held': rig.locked(), 'progress': prog}
        if observed is not None or rig.locked():
            cls = 'zero_length_write_progress_cb' if size == 0 else 'write_progress_cb'
            fails.append({'class': cls, 'case': {'hl': 'write_progress', 'size': size},
                          'expected': 'write completes, progress ends at 100, lock free',
                          'observed': [observed, {'lock_held': rig.locked()}],
                          'detail': 'Memory.write(mem, 7, %d bytes, progress_cb=f) followed by its acknowledgements' % size})
    return n, fails


def oracle(ctx, deep=False):
    fails = []
    n = 0
    cases = corpus_cases() + systematic_cases(deep or ctx.thorough) + deck_systematic_cases()
    cases += c06_infojudge.systematic_info_cases()
    rng = ctx.rng
    for k in range(ctx.scale(250, 3000) * (3 if deep else 1)):
        cases.append(c06_infojudge.gen_info_case(rng, 'clean' if k % 3 == 0 else 'faulty', early=(k % 4 == 1)))
    for k in range(ctx.scale(200, 2500) * (3 if deep else 1)):
        cases.append(gen_deck_case(rng, 'clean' if k % 3 == 0 else 'faulty', early=(k % 4 == 1)))
    for k in range(ctx.scale(500, 6000) * (3 if deep else 1)):
        cases.append(gen_case(rng, 'clean' if k % 3 == 0 else 'faulty', early=(k % 4 == 1)))
    keys = set()
    for c in cases:
        n += 1
        if c.get('kind') == 'info':
            f = c06_infojudge.judge_info(c)
            if f:
                fails.append(f)
            continue
        f = judge(c)
        if nontrivial(c):
            keys.add(runner_sha(c))
        if f:
            f = dict(f)
            f['case'] = _shrink(f['case'], f['class'])
            fails.append(f)
    hn, hf = high_level_cases()
    n += hn
    fails += hf
    # the element layer: every element API that wraps Memory.read / write, with corrupted data, refusals, link drops
    for sc in c06_elements.all_scenarios(deep or ctx.thorough):
        n += 1
        f = c06_elements.judge_element(sc)
        if f:
            fails.append(f)
    return {'evaluations': n, 'failures': fails, 'distinct_nontrivial': 0,
            'rule': 'property text judged on the real code with independent bookkeeping: packet limits, chunks from the '
                    'oldest queued write only, each request notified at most once / exactly once after drain or disconnect, '
                    'lock free after every event, exact data / image when every delivered reply answers the active request, '
                    'a further read and write served after every history; plus MemoryTester and DeckMemoryManager end to end'}


def _shrink(case, cls):
    """Greedy event removal keeping the same failure class (replies are addressed by index: only events after the
    last request are candidates, then whole prefixes)."""
    evs = case['events']
    plan = case.get('plan', [])

    def fails(e, p):
        try:
            f = judge({'plan': p, 'events': e, 'early': case.get('early')}, finish=cls in ('request_never_completes', 'not_served_after_history'))
        except Exception:
            return False
        return f is not None and f['class'] == cls
    if not fails(evs, plan):
        return case
    if not any(plan) or fails(evs, []):
        plan = []
    changed = True
    while changed and len(evs) > 1:
        changed = False
        for k in range(len(evs) - 1, -1, -1):
            if k >= len(evs):
                continue
            cand = evs[:k] + evs[k + 1:]
            if fails(cand, plan):
                evs = cand
                changed = True
    return {'plan': plan[:60], 'events': evs, 'early': bool(case.get('early'))}


def replay(payload, ctx):
    c = payload['case']
    if 'hl' in c:
        _, hf = high_level_cases()
        hf = [f for f in hf if f['case'] == c]
        return hf[0] if hf else None
    if c.get('kind') == 'info':
        return c06_infojudge.judge_info(c)
    if c.get('kind') == 'elem':
        return c06_elements.judge_element(c)
    return judge(c, finish=True)
