"""C04 — parameter writes/reads typed correctly and never cross-attributed.

Tie (V): generated cases (TOC, observers, device contents, 1-4 user threads with API calls, a schedule chosen
among the enabled steps: user call / updater thread step / packet delivery / unsolicited value change) are
executed on the REAL Crazyflie/Param/_ParamUpdater/_IncomingPacketHandler objects under the cooperative
scheduler of fakes/c04_sched.py; after every step the observations (queue puts, wire packets, callbacks with
arguments, raised exception kind) and the observable state (queue, wait_lock, _lock_pattern, values cache,
is_updated, number of pending closures, device store / persistent store / link contents) are flattened to
integers and compared with coq/C04/Model.v evaluated by vm_compute on the same event list (digest per case).

Oracle: the property text checked directly on those executions, without the model (independent encoders).
"""
import json
import os
import struct

from core import coqrun

ID = 'C04'
PROPERTY_FILE = 'C04/Property.v'
LEVEL = 'other'
ALLOWED_AXIOMS = ()
HEADER = 'From CF Require Import Common.Bytes C04.Model C04.Trace.\nOpen Scope Z_scope.\n'
VERIF = coqrun.VERIF

TYPES = [0, 1, 2, 3, 8, 9, 10, 11, 6, 7]
TYCON = {0: 'TI8', 1: 'TI16', 2: 'TI32', 3: 'TI64', 8: 'TU8', 9: 'TU16', 10: 'TU32', 11: 'TU64', 6: 'TF32', 7: 'TF64'}
WIDTH = {0: 1, 1: 2, 2: 4, 3: 8, 8: 1, 9: 2, 10: 4, 11: 8, 6: 4, 7: 8}
SIGNED = {0, 1, 2, 3}
FLOAT = {6, 7}

TRUSTED_BASE = [
    'coq/C04/Model.v is hand-written from cflib/crazyflie/param.py and the dispatch loop of cflib/crazyflie/__init__.py; '
    'tied on every run by differential evaluation of generated event lists (observations and state after every step)',
    'harness/fakes/c04_sched.py: cooperative scheduler (rebinds Lock/Event/Queue in cflib.crazyflie.param and Thread.start '
    'inside the harness process) and the parameter-server fake; the Gallina device model dev_recv is compared with the fake '
    'on every step',
    'CPython struct packing of binary32/binary64 is a bit cast (floats are bit patterns in the model); the oracle computes '
    'expected float bytes with numpy independently',
]
ASSUMPTIONS = [
    'granularity: a thread runs from one blocking operation (Queue.get, Lock.acquire, link.receive_packet) to the next; '
    'an API call of a user thread is atomic (none of the modelled calls blocks once the parameters are initialised)',
    'the device answers every request exactly once, echoes command and id, sends values of the declared width, and knows '
    'every id of the TOC; the link is FIFO; user callbacks do not raise and do not touch the callback registry',
    'protocol version >= 4 in the transition system (16-bit index); the 8-bit index is covered for set_value only',
    'values handed to set_value are of the parameter kind (Python int / numeric string for integer types, float '
    'representable in the declared format for float/double); int(3.7) truncation and binary64->binary32 rounding are not modelled',
    'dispatch iterates over a snapshot of the registrations (F07 repaired) and the misc closures compare the parameter id (F04 repaired)',
    'several sessions on one Param object: a session may end at any point; the updater thread, woken by close(), is assumed to '
    'reach its idle point (dropping a request it held) before the next open_link',
]
PROVED = ('Over the model: set_value queues index || value in the declared type for all ten type codes (unique encoding, '
          'round trip), out-of-range / read-only / unknown raise with the state unchanged; for every event list (all '
          'interleavings of user calls, updater steps, deliveries, unsolicited notifications): wire = prefix of the queue-put '
          'order, at most one unanswered request and the awaited reply is the only reply in flight, every delivered value '
          'lands in the cache and is handed exactly once to each registered observer, cache = device value whenever no value '
          'packet for that parameter is in flight, and a misc reply is handed to the callback of the request it answers and '
          'to no other provided no two pending requests share command and parameter.')
NOT_PROVED = ('TOC download is outside the model (C03); disconnect/close while '
              'requests are pending; protocol version < 4 state machine; float rounding; byte-code level preemption. Two '
              'pending misc requests for the same command and the same parameter share the first reply (known finding F04b).')

# ------------------------------------------------------------------------------------------------ generation


def _rint(rng, ty):
    w = WIDTH[ty]
    if ty in SIGNED:
        lo, hi = -(1 << (8 * w - 1)), (1 << (8 * w - 1)) - 1
    else:
        lo, hi = 0, (1 << (8 * w)) - 1
    return lo, hi


def gen_bytes(rng, ty):
    """a device-side value of type ty as bytes (no NaN patterns)"""
    w = WIDTH[ty]
    if ty in FLOAT:
        return list(_flt_bits(rng, ty).to_bytes(w, 'little'))
    k = rng.randrange(6)
    if k == 0:
        v = 0
    elif k == 1:
        v = (1 << (8 * w)) - 1
    elif k == 2:
        v = 1 << (8 * w - 1)
    elif k == 3:
        v = 2          # first byte == ENOENT
    else:
        v = rng.randrange(1 << (8 * w))
    return list(v.to_bytes(w, 'little'))


def _flt_bits(rng, ty):
    w = WIDTH[ty]
    if ty == 6:
        pool = [0, 0x80000000, 0x3F800000, 0xBFC00000, 0x7F800000, 0xFF800000, 1, 0x7F7FFFFF, 0x00800000, 0x40490FDB]
        ebits, mbits = 8, 23
    else:
        pool = [0, 1 << 63, 0x3FF0000000000000, 0xBFF8000000000000, 0x7FF0000000000000, 0xFFF0000000000000, 1,
                0x7FEFFFFFFFFFFFFF, 0x400921FB54442D18, 0x3FB999999999999A]
        ebits, mbits = 11, 52
    if rng.random() < 0.5:
        return rng.choice(pool)
    while True:
        b = rng.randrange(1 << (8 * w))
        e = (b >> mbits) & ((1 << ebits) - 1)
        if e != (1 << ebits) - 1:
            return b


def gen_setval(rng, ty):
    """['i', int, as_str] or ['f', bits, as_str]"""
    as_str = rng.random() < 0.3
    if ty in FLOAT:
        return ['f', _flt_bits(rng, ty), as_str]
    lo, hi = _rint(rng, ty)
    k = rng.randrange(10)
    if k == 0:
        v = lo
    elif k == 1:
        v = hi
    elif k == 2:
        v = lo - 1
    elif k == 3:
        v = hi + 1
    elif k == 4:
        # small values and bytes that look like an errno / status code (ENOENT 2, EIO 5, ENOMEM 12, EINVAL 22, ...): the echo of a
        # written value must never be taken for an error code
        v = rng.choice([0, 1, -1, 2, 2, 3, 4, 5, 12, 13, 22, 28, 110])
        if v > hi:
            v = 2
    elif k == 5:
        v = rng.choice([hi + 1 + rng.randrange(1 << 70), lo - 1 - rng.randrange(1 << 70), 1 << (8 * WIDTH[ty]), -(1 << (8 * WIDTH[ty]))])
    elif k == 6:
        v = rng.choice([256, 255, 65536, 65535, -129, 128, 32768, -32769, 1 << 31, 1 << 32, 1 << 63, 1 << 64])
    else:
        v = rng.randint(lo, hi)
    return ['i', v, as_str]


def derived_names(toc, grouped=None):
    """unknown complete names DERIVED from the known ones of a table ('g<group>.n<name>'): as literal strings 'S:<text>'"""
    def cn(e):
        return 'g%d.n%d' % (e[2], e[1])
    known = set(cn(e) for e in toc)
    out = []
    for e in toc:
        k = cn(e)
        g, n = k.split('.')
        out += [k + '.bak', k + '.', '.' + k, k + '.min.max', g + '..' + n, '.' + n, g + '.', '.', '', g, n, g + n, k.replace('.', ''),
                k.upper(), k.capitalize(), ' ' + k, k + ' ', g + ' .' + n, g + '. ' + n, k[:-1] if len(n) > 1 else k + 'x', k + '0', k[1:],
                'x' + k, k + '\n', g + '.' + n + '.' + g + '.' + n]
        for e2 in toc:
            if e2[2] != e[2]:
                out.append('g%d.n%d' % (e[2], e2[1]))        # known group + known name of another group
    return ['S:' + x for x in dict.fromkeys(out) if x not in known]


def gen_names_case(rng):
    """API calls with names derived from known ones: nothing may be transmitted, the call raises as HEAD does"""
    case = gen_case(rng, small=True)
    toc = case['cfg']['toc']
    names = derived_names(toc)
    tag = iter(range(500, 999))
    for ops in case['threads']:
        for _ in range(rng.randint(2, 5)):
            nmx = rng.choice(names)
            r = rng.random()
            pos = rng.randrange(len(ops) + 1)
            if r < 0.45:
                op = ['set', nmx, ['i', rng.choice([0, 3, 255, 70000]), rng.random() < 0.3]]
            elif r < 0.65:
                op = ['read', nmx]
            else:
                op = ['misc', rng.choice([3, 3, 4, 5]), nmx, next(tag)]      # get_default_value of an unknown name: direct sweep only
            if ops and ops[0] == ['readall'] and pos == 0:
                pos = 1
            ops.insert(pos, op)
    case['gen'].update({'stray': 0})
    return case


def _direct_unknown_names():
    """every by-name entry point of Param with every derived name of a small table: nothing is queued or sent and the call raises
    (persistent_store reports False through its callback instead, as HEAD does)"""
    import logging
    from fakes.c04_sched import Harness
    logging.disable(logging.CRITICAL)
    fails = []
    toc = [[0, 0, 0, 8, 0, 1], [1, 1, 0, 9, 0, 1], [2, 2, 1, 6, 1, 0], [300, 12, 2, 8, 0, 1]]
    cfg = {'toc': toc, 'cb_param': [], 'cb_group': [], 'cb_all': [], 'dev_enoent': [],
           'dev_init': {e[0]: bytes(WIDTH[e[3]]) for e in toc}, 'dev_default': {e[0]: bytes(WIDTH[e[3]]) for e in toc}}
    n = 0
    h = Harness(cfg)
    try:
        h.cf.param.is_updated = True
        h.cf.param._initialized.set()
        for e in toc:
            h.cf.param.values.setdefault('g%d' % e[2], {})['n%d' % e[1]] = '0'
        prm = h.cf.param
        for s_ in derived_names(toc):
            name = s_[2:]
            got = []
            calls = {
                'set_value': lambda: prm.set_value(name, 3),
                'get_value': lambda: prm.get_value(name),
                'request_param_update': lambda: prm.request_param_update(name),
                'get_default_value': lambda: prm.get_default_value(name, lambda *a: got.append(a)),
                'persistent_store': lambda: prm.persistent_store(name, lambda *a: got.append(a)),
                'persistent_clear': lambda: prm.persistent_clear(name, lambda *a: got.append(a)),
                'persistent_get_state': lambda: prm.persistent_get_state(name, lambda *a: got.append(a)),
            }
            for api, call in calls.items():
                n += 1
                h.drain()
                h.updater.request_queue.clear()
                del got[:]
                raised, res = None, None
                try:
                    res = call()
                except Exception as ex:   # noqa
                    raised = type(ex).__name__
                log = h.drain()
                queued = h.updater.request_queue.qsize()
                refused = raised is not None or (api == 'persistent_store' and got == [(name, False)])
                if queued or any(o[0] in ('tx', 'enq') for o in log) or not refused:
                    fails.append({'class': 'unknown_param_request_transmitted' if api != 'set_value' else 'unknown_param_write_transmitted',
                                  'case': {'direct': 'names', 'api': api, 'name': name},
                                  'expected': 'refused without transmission', 'observed': {'raised': raised, 'queued': queued, 'result': repr(res)[:60],
                                                                                        'callback': repr(got)[:80]},
                                  'detail': '%s(%r) on a table that has no such parameter' % (api, name)})
                # the closure get_default_value leaves behind for an unknown name (HEAD raises after registering it) is dropped here
                for cb in list(getattr(prm, '_misc_callbacks', [])):
                    prm._remove_misc_callback(cb)
    finally:
        h.close()
        logging.disable(logging.NOTSET)
    return n, fails


def gen_aligned_case(rng):
    """misc requests outstanding for parameters X while the device sends MISC_VALUE_UPDATED notifications for OTHER parameters
    whose index is  command | (X_lo << 8)  and whose first value byte is X_hi, for every misc command: stripped of their command
    byte such notifications would read as the reply to the outstanding request"""
    xs = rng.sample([0, 1, 2, 3, 7, 0x0103, 0x0205, 255], rng.randint(1, 2))
    toc, n = [], 0
    ids = set(xs)
    for x in xs:
        toc.append([x, n, n % 3, rng.choice(TYPES), 0, 1])
        n += 1
    aligned = []
    for x in xs:
        for cmd in rng.sample([3, 4, 5, 6], rng.randint(2, 4)):
            i = cmd | ((x & 0xFF) << 8)
            if i in ids:
                continue
            ids.add(i)
            toc.append([i, n, n % 3, rng.choice([9, 9, 10, 6, 1, 2, 8, 7]), 0, int(rng.random() < 0.5)])
            n += 1
            aligned.append([i, (x >> 8) & 0xFF])
    rng.shuffle(toc)
    for k, e in enumerate(toc):
        e[1] = k
        e[2] = k % 3
    cbn = iter(range(1000, 2000))
    cfg = {'toc': toc, 'cb_param': [[rng.randrange(len(toc)), next(cbn)]], 'cb_group': [], 'cb_all': [next(cbn)],
           'dev_init': {str(e[0]): gen_bytes(rng, e[3]) for e in toc}, 'dev_default': {str(e[0]): gen_bytes(rng, e[3]) for e in toc},
           'dev_enoent': [e[0] for e in toc if rng.random() < 0.1]}
    tag = iter(range(1, 1000))
    xnames = [e[1] for e in toc if e[0] in xs]
    threads = [[['readall']]]
    used = set()
    for t in range(rng.randint(1, 2)):
        ops = threads[0] if t == 0 else []
        for _ in range(rng.randint(2, 5)):
            nm, cmd = rng.choice(xnames), rng.choice([3, 4, 5, 6])
            if (cmd, nm) in used:
                continue
            used.add((cmd, nm))
            ops.append(['misc', cmd, nm, next(tag)])
        if t:
            threads.append(ops)
    return {'cfg': cfg, 'threads': threads, 'sched': None,
            'gen': {'burst': rng.random() < 0.6, 'drain': True, 'notify': 0.3, 'stray': 0, 'budget': 70, 'aligned': aligned}}


def gen_cache_case(rng):
    """a single-session case whose parameter table reaches Param through the real TocFetcher: cache hit in the read-only or the
    read-write cache directory on a file in HEAD's on-disk format, or download; indices 0..n-1; read-only and read-write,
    extended (persistent or not) and plain parameters; sets aimed at the read-only ones"""
    case = gen_case(rng, small=True)
    cfg = case['cfg']
    toc = cfg['toc']
    remap = {}
    for k, e in enumerate(toc):
        remap[e[0]] = k
        e[0] = k
        e[4] = int(rng.random() < 0.45)
    for key in ('dev_init', 'dev_default'):
        cfg[key] = {str(remap[int(i)]): v for i, v in cfg[key].items()}
    cfg['dev_enoent'] = [remap[i] for i in cfg['dev_enoent']]
    cfg['ext_nonpers'] = [e[0] for e in toc if not e[5] and rng.random() < 0.3]
    cfg['toc_source'] = {'kind': rng.choice(['cache_ro', 'cache_ro', 'cache_rw', 'cache_rw', 'download']), 'crc': rng.randrange(1, 1 << 32)}
    ro_names = [e[1] for e in toc if e[4]]
    for ops in case['threads']:
        for op in ops:
            if op[0] == 'set' and ro_names and rng.random() < 0.5:
                op[1] = rng.choice(ro_names)
                op[2] = gen_setval(rng, next(e[3] for e in toc if e[1] == op[1]))
    if ro_names:
        case['threads'][-1].append(['set', ro_names[0], gen_setval(rng, next(e[3] for e in toc if e[1] == ro_names[0]))])
    case['threads'][0] = [['readall']] + [op for op in case['threads'][0] if op[0] != 'readall']
    case['gen'].update({'stray': 0, 'drain': True})
    return case


def gen_case(rng, small=False):
    n = rng.randint(2, 4 if small else 6)
    ids = set()
    while len(ids) < n:
        ids.add(rng.choice([rng.randrange(8), rng.randrange(300), rng.randrange(65536), 255, 256, 65535]))
    ids = list(ids)
    rng.shuffle(ids)
    toc = []
    for k in range(n):
        ty = rng.choice(TYPES)
        toc.append([ids[k], k, rng.randrange(3), ty, int(rng.random() < 0.2), int(rng.random() < 0.65)])
    cbn = iter(range(1000, 2000))
    cfg = {
        'toc': toc,
        'cb_param': [[rng.randrange(n), next(cbn)] for _ in range(rng.randrange(4))],
        'cb_group': [[rng.randrange(3), next(cbn)] for _ in range(rng.randrange(3))],
        'cb_all': [next(cbn) for _ in range(rng.randrange(3))],
        'dev_init': {str(e[0]): gen_bytes(rng, e[3]) for e in toc},
        'dev_default': {str(e[0]): gen_bytes(rng, e[3]) for e in toc},
        'dev_enoent': [e[0] for e in toc if rng.random() < 0.12],
    }
    nthreads = rng.randint(1, 4)
    tag = iter(range(1, 1000))
    threads = []
    same_key_ok = rng.random() < 0.35
    used_keys = set()
    for t in range(nthreads):
        ops = []
        if t == 0 and rng.random() < 0.8:
            # connection setup requests all values; a `connected` callback runs before that, so user requests may come first
            ops.append(['readall'] if rng.random() < 0.85 else ['read', rng.randrange(n)])
        for _ in range(rng.randint(1, 3 if small else 6)):
            r = rng.random()
            k = rng.randrange(n)
            name = k if rng.random() < 0.93 else 50 + rng.randrange(3)      # unknown name
            ty = toc[k][3] if name < 50 else 8
            if r < 0.35:
                ops.append(['set', name, gen_setval(rng, ty)])
            elif r < 0.5:
                ops.append(['read', name])
            else:
                cmd = rng.choice([3, 4, 4, 5, 6, 6])
                if name >= 50 and cmd == 6:
                    name = k
                if not same_key_ok:
                    for _try in range(6):
                        if (cmd, name) not in used_keys:
                            break
                        cmd, name = rng.choice([3, 4, 5, 6]), rng.randrange(n)
                    if (cmd, name) in used_keys:
                        ops.append(['read', name])
                        continue
                used_keys.add((cmd, name))
                cb = next(tag)
                if cmd in (3, 5) and rng.random() < 0.25:
                    cb = None
                ops.append(['misc', cmd, name, cb])
        threads.append(ops)
    return {'cfg': cfg, 'threads': threads, 'sched': None,
            'gen': {'burst': rng.random() < 0.5, 'drain': rng.random() < 0.85, 'notify': rng.choice([0, 0.05, 0.15]),
                    'stray': rng.choice([0, 0, 0.06, 0.12]),
                    'budget': 40 if small else 90}}


# ------------------------------------------------------------------------------------------------ execution

def _py_value(spec, ty):
    kind, v, as_str = spec
    if kind == 'f':
        x = struct.unpack('<f' if ty == 6 else '<d', v.to_bytes(WIDTH[ty], 'little'))[0]
        return repr(x) if as_str else x
    return str(v) if as_str else v


def _cfg_for_harness(cfg):
    c = dict(cfg)
    c['dev_init'] = {int(k): bytes(v) for k, v in cfg['dev_init'].items()}
    c['dev_default'] = {int(k): bytes(v) for k, v in cfg['dev_default'].items()}
    return c


def _enc_pkt(chan, data):
    return [chan, len(data)] + list(data)


def _enc_obs(o):
    k = o[0]
    if k == 'enq':
        return [1] + _enc_pkt(o[1], o[2])
    if k == 'tx':
        return [2] + _enc_pkt(o[1], o[2])
    if k == 'rx':
        return [3] + _enc_pkt(o[1], o[2])
    if k == 'raise':
        return [4, o[1]]
    if k == 'upd':
        return [5, o[1], o[2]] + o[3]
    if k == 'all':
        return [6]
    if k == 'misc':
        return [7, o[1], o[2]] + o[3]
    return [99]


def _enc_snap(cfg, sn):
    out = [len(sn['queue'])]
    for (c, d) in sn['queue']:
        out += _enc_pkt(c, d)
    out += [sn['hand'], sn['lock']]
    out += [-1] if sn['pat'] is None else [len(sn['pat'])] + list(sn['pat'])
    out += [sn['updated'], sn['nclos']]
    for v in sn['values']:
        out += [0] if v is None else [1] + v
    store = dict(sn['store'])
    stored = dict(sn['stored'])
    for e in cfg['toc']:
        b = store.get(e[0], b'')
        out += [len(b)] + list(b)
    for e in cfg['toc']:
        b = stored.get(e[0], b'')
        out += [int(e[0] in stored), len(b)] + list(b)
    out.append(len(sn['out']))
    for (c, d) in sn['out']:
        out += _enc_pkt(c, d)
    return out


def _toc_read_order(toc):
    """order in which request_update_of_all_params walks Toc.toc (dict of groups, insertion order)"""
    groups = []
    for e in toc:
        if e[2] not in groups:
            groups.append(e[2])
    return [e for g in groups for e in toc if e[2] == g]


def model_events(cfg, op):
    """Coq events (strings) of one API call"""
    toc = {e[1]: e for e in cfg['toc']}
    if op[0] == 'readall':
        return ['EvRead %d' % e[1] for e in _toc_read_order(cfg['toc'])]
    from fakes.c04_sched import name_code

    def nm(x):
        return coqrun.z(name_code(x[2:]) if isinstance(x, str) else x)
    if op[0] == 'read':
        return ['EvRead %s' % nm(op[1])]
    if op[0] == 'set':
        kind, v, _ = op[2]
        return ['EvSet %s (%s %s)' % (nm(op[1]), 'VInt' if kind == 'i' else 'VFlt', coqrun.z(v))]
    if op[0] == 'misc':
        return ['EvMisc %d %s %s' % (op[1], nm(op[2]), 'None' if op[3] is None else '(Some %d)' % op[3])]
    raise ValueError(op)


def execute(case, rng=None, harness=None):
    """Run a case on the implementation (on `harness` if given: one session of a multi-session history).  If case['sched'] is None a schedule is generated with rng (and stored
    in the returned record); otherwise the stored schedule is followed (stops early if a step is not enabled).
    Returns dict(steps=[{ev, model, obs, snap}], sched=[...], problems=[...])."""
    import logging
    from fakes.c04_sched import Harness, HarnessError
    logging.disable(logging.CRITICAL)
    cfg = case['cfg']
    toc_by_name = {e[1]: e for e in cfg['toc']}
    own = harness is None
    steps, sched, problems = [], [], []
    cache_dir = None
    hcfg = _cfg_for_harness(cfg)
    if own and 'toc_source' in cfg:
        # the parameter table of this session comes through the real TocFetcher: from a cache file written here, literally, in the
        # on-disk format of HEAD (fakes.c04_sched.cache_file_text), or downloaded
        import shutil
        from fakes.c04_sched import cache_file_text
        src = dict(cfg['toc_source'])
        cache_dir = os.path.join(VERIF, '.build', 'c04_cache_%d_%d' % (os.getpid(), next(_cache_nr)))
        shutil.rmtree(cache_dir, ignore_errors=True)
        os.makedirs(cache_dir)
        ext_np = set(cfg.get('ext_nonpers', []))
        table = [(e[0], e[1], e[2], e[3], e[4], bool(e[5]) or e[0] in ext_np) for e in cfg['toc']]
        if src['kind'] in ('cache_ro', 'cache_rw'):
            with open(os.path.join(cache_dir, '%08X.json' % src['crc']), 'w') as f:
                f.write(cache_file_text(table))
        src['dir'] = cache_dir
        hcfg['toc_source'] = src
    try:
        h = Harness(hcfg) if own else harness
    except Exception:
        if cache_dir:
            import shutil
            shutil.rmtree(cache_dir, ignore_errors=True)
        raise
    if cache_dir:
        kind = cfg['toc_source']['kind']
        if kind != 'download' and h.table_was_downloaded:
            problems.append({'what': 'the cache file in the format of HEAD was not accepted (table downloaded instead)'})
        if kind == 'download':
            fn = os.path.join(cache_dir, '%08X.json' % cfg['toc_source']['crc'])
            written = open(fn).read() if os.path.exists(fn) else None
            if written != cache_file_text(table):
                problems.append({'what': 'the cache file written after a download differs from the recorded on-disk format of HEAD',
                                 'written': (written or '')[:400]})
    gen = case.get('gen') or {}
    try:
        threads = []
        for ops in case['threads']:
            real = []
            for op in ops:
                if op[0] == 'set':
                    ty = toc_by_name[op[1]][3] if op[1] in toc_by_name else 8
                    real.append(('set', op[1], _py_value(op[2], ty)))
                elif op[0] == 'readall':
                    real.append(('readall',))
                elif op[0] == 'read':
                    real.append(('read', op[1]))
                else:
                    real.append(('misc', op[1], op[2], op[3]))
            threads.append(real)
        # 'readall' is the real request_update_of_all_params
        if not hasattr(h, '_orig_op'):
            h._orig_op = h.op
        orig_op = h._orig_op

        def op2(o):
            if o[0] == 'readall':
                return lambda: h.cf.param.request_update_of_all_params()
            return orig_op(o)
        h.op = op2
        issuers = [h.start_issuer(ops) for ops in threads]
        h.drain()

        flags = []      # parallel to h.dev.out: True for packets injected as strays

        tail = gen.get('tail_thread')       # a thread whose calls are all issued at the very end and left unanswered
        tail_open = [case.get('sched') is not None]

        def enabled():
            ev = []
            for t, it in enumerate(issuers):
                if t == tail and not tail_open[0]:
                    continue
                if it.k < len(it.ops):
                    o = case['threads'][t][it.k]
                    if o[0] == 'set' and not h.cf.param.is_updated:
                        continue
                    ev.append(['I', t])
            if h.can_uget() or h.can_usend():
                ev.append(['U'])
            if h.can_deliver():
                ev.append(['D'])
            return ev

        def do(ev):
            if ev[0] == 'I':
                it = issuers[ev[1]]
                o = case['threads'][ev[1]][it.k]
                mod = model_events(cfg, o)
                h.ev_issue(it)
                desc = ['I', ev[1], o]
            elif ev[0] == 'U':
                mod = ['EvUGet'] if h.can_uget() else ['EvUSend']
                h.ev_updater()
                desc = ['U', mod[0]]
            elif ev[0] == 'D':
                mod = ['EvDeliver']
                h.ev_deliver()
                desc = ['D']
            elif ev[0] == 'S':
                mod = ['XStray (%d, %s)' % (ev[1], coqrun.zlist(ev[2]))]
                h.dev.out.append((ev[1], bytes(ev[2])))
                desc = ['S', ev[1], ev[2]]
            else:
                mod = ['EvNotify %d %s' % (ev[1], coqrun.zlist(ev[2]))]
                h.ev_notify(ev[1], ev[2])
                desc = ['N', ev[1], ev[2]]
            stray_delivered = False
            if ev[0] == 'D':
                stray_delivered = flags.pop(0)
            while len(flags) < len(h.dev.out):
                flags.append(ev[0] == 'S')
            sn = h.snapshot()
            obs_ = h.drain()
            for o_ in [x for x in obs_ if x[0] == 'mutated']:
                problems.append({'what': 'a callback altered the received packet that the other callbacks of the port are handed as well',
                                 'received': list(o_[2]), 'after_dispatch': list(o_[3]), 'index': len(steps)})
            obs_ = [x for x in obs_ if x[0] != 'mutated']
            steps.append({'ev': desc, 'model': mod, 'obs': obs_, 'snap': sn, 'stray': stray_delivered})
            if sn['dead']:
                problems.append({'what': 'a thread died', 'detail': sn['dead']})
            if sn['init_event'] != sn['updated']:
                problems.append({'what': '_initialized differs from is_updated'})

        if case.get('sched') is not None:
            for ev in case['sched']:
                en = enabled()
                if ev[0] not in ('N', 'S') and ev not in en:
                    problems.append({'what': 'scheduled step not enabled', 'step': ev, 'index': len(steps)})
                    break
                do(ev)
                sched.append(ev)
        else:
            budget = gen.get('budget', 90)
            if issuers[0].k < len(issuers[0].ops) and case['threads'][0][0][0] != 'set':
                do(['I', 0])
                sched.append(['I', 0])
            while len(steps) < budget:
                en = enabled()
                issuing = [e for e in en if e[0] == 'I']
                if not issuing and not gen.get('drain', True) and rng.random() < 0.3:
                    break
                if rng.random() < gen.get('stray', 0) and cfg['toc']:
                    # a duplicated / late read or write reply for a parameter other than the one being awaited
                    pat = h.updater._lock_pattern
                    cand = [e for e in cfg['toc'] if pat is None or bytes(pat[:2]) != struct.pack('<H', e[0]) or len(pat) == 3]
                    if not cand:
                        continue
                    e = rng.choice(cand)
                    chan = rng.choice([1, 2])
                    ev = ['S', chan, list(struct.pack('<H', e[0])) + ([0] if chan == 1 else []) + gen_bytes(rng, e[3])]
                elif rng.random() < gen.get('notify', 0) and cfg['toc']:
                    e = rng.choice(cfg['toc'])
                    ev = ['N', e[0], gen_bytes(rng, e[3])]
                    al = gen.get('aligned')
                    if al and rng.random() < 0.75:
                        # adversarial alignment: without its command byte the notification reads as a misc reply
                        # [command, index of a parameter with a request outstanding, ...]
                        i_, first = rng.choice(al)
                        e = next(x for x in cfg['toc'] if x[0] == i_)
                        b = gen_bytes(rng, e[3])
                        b[0] = first
                        if len(b) > 1 and rng.random() < 0.5:
                            b[1] = rng.choice([2, 42, 0, 1])
                        if e[3] in FLOAT:
                            b[-1] = 0x40        # keep it a finite number (NaN payloads do not survive str() / float())
                        ev = ['N', e[0], b]
                elif not en:
                    break
                elif gen.get('burst') and issuing and rng.random() < 0.7:
                    ev = rng.choice(issuing)
                else:
                    ev = rng.choice(en)
                do(ev)
                sched.append(ev)
            if gen.get('drain', True):
                k = 0
                while k < 400:
                    en = [e for e in enabled() if e[0] != 'I']
                    if not en:
                        break
                    ev = en[0]
                    do(ev)
                    sched.append(ev)
                    k += 1
            if tail is not None:
                tail_open[0] = True
                while ['I', tail] in enabled():
                    do(['I', tail])
                    sched.append(['I', tail])
                for _ in range(gen.get('tail_updater_steps', 0)):
                    if ['U'] in enabled():
                        do(['U'])
                        sched.append(['U'])
    except HarnessError as e:
        problems.append({'what': 'harness error', 'detail': str(e)})
    finally:
        if own:
            h.close()
            logging.disable(logging.NOTSET)
        if cache_dir:
            import shutil
            shutil.rmtree(cache_dir, ignore_errors=True)
    return {'steps': steps, 'sched': sched, 'problems': problems}


# ------------------------------------------------------------------------------------------------ several sessions, one Param

def _quiet(sn):
    return not sn['queue'] and not sn['hand'] and not sn['lock'] and sn['pat'] is None and not sn['nclos'] and not sn['out']


def gen_sess_case(rng):
    """2-3 sessions on one Crazyflie/Param object; the tables differ: indices permuted, types changed, names removed / added,
    read-only and persistent flags flipped.  A name n is the same string 'g<n%3>.n<n>' in every session; the operations of
    every session use names of ALL sessions (so names remembered from an earlier session are used again)."""
    nn = rng.randint(3, 6)
    names = list(range(nn))
    pool_ids = [rng.randrange(6), rng.randrange(300), 255, 256, 65535] + rng.sample(range(0, 40), 8)
    sessions = []
    prev = None
    cbn = iter(range(1000, 2000))
    cbs = {'cb_param': [[rng.randrange(nn), next(cbn)] for _ in range(rng.randrange(3))],
           'cb_group': [[rng.randrange(3), next(cbn)] for _ in range(rng.randrange(2))],
           'cb_all': [next(cbn) for _ in range(rng.randrange(2))]}
    tag = iter(range(1, 1000))
    nsess = rng.randint(2, 3)
    pending_mode = rng.random() < 0.5
    requery = []
    keep_ids = False
    for k in range(nsess):
        if prev is None:
            present = [n for n in names if rng.random() < 0.85] or [0]
            ids = rng.sample(sorted(set(pool_ids)), len(present))
            toc = [[ids[j], n, n % 3, rng.choice(TYPES), int(rng.random() < 0.15), int(rng.random() < 0.7)] for j, n in enumerate(present)]
        else:
            toc = []
            present = [e[1] for e in prev if rng.random() < 0.8] + [n for n in names if n not in [e[1] for e in prev] and rng.random() < 0.7]
            present = present or [names[0]]
            old = {e[1]: e for e in prev}
            mode = 'same' if keep_ids else rng.choice(['shift', 'permute', 'same'])
            if keep_ids:        # the stale callbacks match on command and index: keep names and indices, vary the rest
                present = [e[1] for e in prev] + [n for n in names if n not in [e[1] for e in prev] and rng.random() < 0.5]
                keep_ids = False
            old_ids = [e[0] for e in prev]
            if mode == 'shift':
                ids = list(range(len(present)))
            elif mode == 'permute':
                ids = rng.sample(sorted(set(old_ids + pool_ids)), len(present))
            else:
                free = [i for i in sorted(set(pool_ids)) if i not in old_ids]
                ids = []
                for n in present:
                    i = old[n][0] if n in old and old[n][0] not in ids else next(x for x in free + list(range(100, 200)) if x not in ids)
                    ids.append(i)
            for j, n in enumerate(present):
                o = old.get(n)
                ty = o[3] if o and rng.random() < 0.5 else rng.choice(TYPES)
                ro = (1 - o[4]) if o and rng.random() < 0.3 else (o[4] if o else int(rng.random() < 0.15))
                toc.append([ids[j], n, n % 3, ty, ro, int(rng.random() < 0.7)])
        prev = toc
        cfg = dict(cbs)
        cfg.update({'toc': toc, 'fixed_groups': 1,
                    'dev_init': {str(e[0]): gen_bytes(rng, e[3]) for e in toc},
                    'dev_default': {str(e[0]): gen_bytes(rng, e[3]) for e in toc},
                    'dev_enoent': [e[0] for e in toc if rng.random() < 0.1]})
        tocn = {e[1]: e for e in toc}
        threads = []
        used = set(requery)
        for t in range(rng.randint(1, 2)):
            ops = [['readall']] if t == 0 else []
            for _ in range(rng.randint(2, 5)):
                n = rng.choice(names)
                ty = tocn[n][3] if n in tocn else rng.choice(TYPES)
                r = rng.random()
                if r < 0.55:
                    spec = gen_setval(rng, ty)
                    if n not in tocn:
                        spec = ['i', rng.choice([0, 1, 70000, -1, 255]), False]
                    ops.append(['set', n, spec])
                elif r < 0.65:
                    ops.append(['read', n])
                else:
                    cmd = rng.choice([3, 4, 5, 6])
                    if n not in tocn and cmd == 6:
                        cmd = 4
                    if (cmd, n) in used:
                        continue
                    used.add((cmd, n))
                    ops.append(['misc', cmd, n, next(tag)])
            threads.append(ops)
        g = {'burst': rng.random() < 0.4, 'drain': rng.random() < 0.45, 'notify': rng.choice([0, 0.05]), 'stray': 0,
             'budget': rng.choice([8, 15, 30, 50])}
        if requery:
            # every request that was pending when the previous session was cut is asked again (same command, same name)
            threads.append([['misc', c_, n_, next(tag)] for (c_, n_) in requery if n_ in tocn and (c_ == 6 or tocn[n_][5])])
            requery = []
        if pending_mode and k + 1 < nsess:
            # 2-5 default-value / persistent requests with callbacks, same and different parameters, unanswered at the cut
            pers = [e for e in toc if e[5]] or toc
            burst = []
            for _ in range(rng.randint(2, 5)):
                e = rng.choice(pers if rng.random() < 0.8 else toc)
                c_ = rng.choice([3, 4, 5, 6]) if e[5] else 6
                if any(b[1] == c_ and b[2] == e[1] for b in burst):
                    continue            # same command AND same parameter twice is the known finding F04b, not the subject here
                burst.append(['misc', c_, e[1], next(tag)])
            threads.append(burst)
            g.update({'tail_thread': len(threads) - 1, 'tail_updater_steps': rng.randrange(3), 'drain': True})
            requery = [(b[1], b[2]) for b in burst]
            keep_ids = True
        sessions.append({'cfg': cfg, 'threads': threads, 'sched': None, 'gen': g})
    return {'kind': 'sess', 'sessions': sessions}


def execute_sess(case, rng=None):
    """the sessions of a case, one after the other, on ONE Harness (one Crazyflie, one Param, one updater thread);
    a session may be cut at any point (requests queued, on the wire, misc callbacks pending)"""
    import logging
    from fakes.c04_sched import Harness, HarnessError
    logging.disable(logging.CRITICAL)
    recs = []
    h = None
    try:
        for k, sc in enumerate(case['sessions']):
            cfgh = _cfg_for_harness(sc['cfg'])
            if h is None:
                h = Harness(cfgh)
            else:
                if recs[-1]['problems']:
                    break
                try:
                    h.reconnect(cfgh)
                except HarnessError as e:
                    recs.append({'steps': [], 'sched': [], 'problems': [{'what': 'harness error at reconnect', 'detail': str(e)}]})
                    break
            recs.append(execute(sc, rng, harness=h))
    finally:
        if h is not None:
            h.close()
        logging.disable(logging.NOTSET)
    return recs


def sess_term(case, recs):
    return 'sess_trace [%s]' % '; '.join(
        '(%s, [%s])' % (coq_cfg(sc['cfg']), '; '.join('[' + '; '.join(m if m.startswith('XStray') else 'XE (%s)' % m for m in st['model']) + ']'
                                                     for st in rec['steps']))
        for sc, rec in zip(case['sessions'], recs))


def sess_trace(case, recs):
    out = []
    for sc, rec in zip(case['sessions'], recs):
        out += impl_trace(sc['cfg'], rec)[0]
    return out


def shrink_sess_disagreement(case, rounds=8, width=40):
    """delta-debugging of a session history on which model and implementation differ: API calls are removed one at a time
    (and trailing sessions dropped) as long as the re-generated run still differs; returns the smallest history found with its
    schedule, or None"""
    import copy
    import random as _random

    def differs(cands):
        terms, exps, recss = [], [], []
        for c in cands:
            recs = execute_sess(c, _random.Random(7))
            recss.append(recs)
            terms.append(sess_term(c, recs))
            exps.append(sess_trace(c, recs))
        bad = set(bi for bi, _ in compare_cases(terms, exps, 'c04k', max(4, len(terms) // 16 + 1)))
        return [(i in bad) for i in range(len(cands))], recss

    def strip(c):
        c = copy.deepcopy(c)
        for sc in c['sessions']:
            sc['sched'] = None
            sc['gen'] = dict(sc.get('gen') or {}, notify=0, stray=0)
        return c
    cur = strip(case)
    ok, recss = differs([cur])
    if not ok[0]:
        return None
    best_recs = recss[0]
    for _ in range(rounds):
        cands = []
        if len(cur['sessions']) > 2:
            c = copy.deepcopy(cur)
            c['sessions'].pop()
            cands.append(c)
        for si, sc in enumerate(cur['sessions']):
            for ti, ops in enumerate(sc['threads']):
                for oi in range(len(ops)):
                    c = copy.deepcopy(cur)
                    del c['sessions'][si]['threads'][ti][oi]
                    cands.append(c)
        cands = cands[:width]
        if not cands:
            break
        ok, recss = differs(cands)
        hit = next((i for i, x in enumerate(ok) if x), None)
        if hit is None:
            break
        cur, best_recs = cands[hit], recss[hit]
    return {'sessions': [{'cfg': sc['cfg'], 'threads': sc['threads'], 'sched': rec['sched']}
                         for sc, rec in zip(cur['sessions'], best_recs)],
            'calls': sum(len(ops) for sc in cur['sessions'] for ops in sc['threads'])}


def check_sess(case, recs):
    """the property text, session by session: each session is judged against the table and device connected in it"""
    fails = []
    owner = {}
    for k, sc in enumerate(case['sessions']):
        for ops in sc['threads']:
            for op in ops:
                if op[0] == 'misc' and op[3] is not None:
                    owner[op[3]] = (k, op[1], op[2])
    for k, (sc, rec) in enumerate(zip(case['sessions'], recs)):
        for si, st in enumerate(rec['steps']):
            for o in st['obs']:
                if o[0] == 'misc' and o[1] in owner and owner[o[1]][0] < k:
                    rx = next((x for x in st['obs'] if x[0] == 'rx'), None)
                    fails.append({'class': 'earlier_session_callback_invoked', 'step_index': si, 'expected': None,
                                  'observed': {'callback': o[1], 'name': o[2], 'packet': list(rx[2]) if rx else None},
                                  'detail': 'session %d: the callback of request (cmd %d, name %d) issued in session %d, never answered '
                                            'before the link dropped, was invoked with a packet of the device of session %d'
                                            % (k + 1, owner[o[1]][1], owner[o[1]][2], owner[o[1]][0] + 1, k + 1)})
        for f in check_run(sc, rec):
            f = dict(f)
            f['detail'] = 'session %d of %d on one Param object: %s' % (k + 1, len(case['sessions']), f['detail'])
            if k > 0 and f['class'] != 'misc_reply_shared_by_requests_for_same_param':     # F04b is the same finding in any session
                f['class'] = 'later_session_' + f['class']
            fails.append(f)
    return fails


def impl_trace(cfg, rec):
    out = [1]
    cuts = []
    for st in rec['steps']:
        cuts.append(len(out))
        out.append(len(st['obs']))
        for o in st['obs']:
            out += _enc_obs(o)
        out += _enc_snap(cfg, st['snap'])
    return out, cuts


def coq_cfg(cfg, idmatch=True):
    def amap(m):
        return '[' + '; '.join('(%d, %s)' % (int(k), coqrun.zlist(v)) for k, v in m.items()) + ']'
    toc = '[' + '; '.join('mkElem %d %d %d %s %s %s' % (e[0], e[1], e[2], TYCON[e[3]], coqrun.coq_bool(e[4]), coqrun.coq_bool(e[5]))
                          for e in cfg['toc']) + ']'
    pairs = lambda l: '[' + '; '.join('(%d, %d)' % (a, b) for a, b in l) + ']'  # noqa
    return '(mkCfg %s %s %s %s %s %s %s %s)' % (toc, pairs(cfg['cb_param']), pairs(cfg['cb_group']), coqrun.zlist(cfg['cb_all']),
                                               amap(cfg['dev_init']), amap(cfg['dev_default']), coqrun.zlist(cfg['dev_enoent']),
                                               coqrun.coq_bool(idmatch))


def coq_term(cfg, rec):
    groups = '[' + '; '.join('[' + '; '.join(m if m.startswith('XStray') else 'XE (%s)' % m for m in st['model']) + ']'
                             for st in rec['steps']) + ']'
    return 'case_trace %s %s' % (coq_cfg(cfg), groups)


# ------------------------------------------------------------------------------------------------ extended-type phase

HEADER_X = 'From CF Require Import Common.Bytes C04.Model C04.Trace C04.ExtModel.\nOpen Scope Z_scope.\n'


def gen_ext_case(rng):
    n = rng.randint(2, 6)
    ids = set()
    while len(ids) < n:
        ids.add(rng.choice([rng.randrange(8), rng.randrange(300), rng.randrange(65536), 255, 256, 65535]))
    ids = list(ids)
    rng.shuffle(ids)
    toc = [[ids[k], k, rng.randrange(3), rng.choice(TYPES), 0, int(rng.random() < 0.65)] for k in range(n)]
    if not any(e[5] for e in toc):
        toc[0][5] = 1
    cfg = {'toc': toc, 'cb_param': [], 'cb_group': [], 'cb_all': [], 'dev_enoent': [],
           'dev_init': {str(e[0]): gen_bytes(rng, e[3]) for e in toc},
           'dev_default': {str(e[0]): gen_bytes(rng, e[3]) for e in toc},
           'ext': {str(e[0]): rng.choice([0, 1, 1, 1, 2, 255]) for e in toc if e[5]}}
    return {'kind': 'ext', 'cfg': cfg, 'sched': None,
            'gen': {'other': rng.choice([0, 0.1, 0.25]), 'stray': rng.choice([0, 0, 0.1, 0.2]), 'drain': rng.random() < 0.9}}


def execute_ext(case, rng=None):
    """one run of the extended-type phase on the real _ExtendedTypeFetcher; steps: ['G'] queue get, ['X'] lock taken and
    request sent, ['D'] deliver, ['O', chan, bytes] the device sends something else, ['S', chan, bytes] a duplicated
    extended-type reply of an already answered (or never requested) parameter"""
    import logging
    from fakes.c04_sched import Harness, HarnessError
    logging.disable(logging.CRITICAL)
    cfg = case['cfg']
    h = Harness(_cfg_for_harness(cfg))
    steps, sched, problems = [], [], []
    gen = case.get('gen') or {}
    try:
        ext_ids = h.start_ext()
        h.drain()
        flags = []      # parallel to dev.out: 'R' real reply, 'O', 'S'
        answered = []

        def enabled():
            ev = []
            if h.ext_can_get():
                ev.append(['G'])
            if h.ext_can_send():
                ev.append(['X'])
            if h.dev.out:
                ev.append(['D'])
            return ev

        def do(ev):
            kind = None
            if ev[0] == 'G':
                mod = 'FX FGet'
                h.sched.resume(h.fetcher)
            elif ev[0] == 'X':
                mod = 'FX FSend'
                h.sched.resume(h.fetcher)
            elif ev[0] == 'D':
                mod = 'FX FDeliver'
                kind = flags.pop(0)
                if kind == 'R':
                    answered.append(int.from_bytes(h.dev.out[0][1][1:3], 'little'))
                h.ev_deliver()
            elif ev[0] == 'O':
                mod = 'FX (FOther (%d, %s))' % (ev[1], coqrun.zlist(ev[2]))
                h.dev.out.append((ev[1], bytes(ev[2])))
            else:
                mod = 'FStray (%d, %s)' % (ev[1], coqrun.zlist(ev[2]))
                h.dev.out.append((ev[1], bytes(ev[2])))
            while len(flags) < len(h.dev.out):
                flags.append({'X': 'R', 'O': 'O', 'S': 'S'}[ev[0]])
            sn = h.ext_snapshot()
            steps.append({'ev': ev, 'model': mod, 'obs': h.drain(), 'snap': sn, 'delivered': kind})
            if sn['dead']:
                problems.append({'what': 'a thread died', 'detail': sn['dead']})

        if case.get('sched') is not None:
            for ev in case['sched']:
                if ev[0] in ('G', 'X', 'D') and ev not in enabled():
                    problems.append({'what': 'scheduled step not enabled', 'step': ev, 'index': len(steps)})
                    break
                do(ev)
                sched.append(ev)
        else:
            while len(steps) < 80:
                en = enabled()
                r = rng.random()
                inflight = h.fetcher._req_param
                if r < gen.get('other', 0):
                    e = rng.choice(cfg['toc'])
                    if inflight >= 0 and rng.random() < 0.6:
                        e = next(x for x in cfg['toc'] if x[0] == inflight)
                    idb = list(struct.pack('<H', e[0]))
                    k = rng.randrange(5)
                    if k <= 1:      # MISC_VALUE_UPDATED; first value byte often 1 (= "persistent")
                        v = gen_bytes(rng, e[3])
                        if rng.random() < 0.5:
                            v[0] = 1
                        ev = ['O', 3, [1] + idb + v]
                    elif k == 2:    # reply to another misc command
                        ev = ['O', 3, [rng.choice([3, 4, 5, 6])] + idb + [rng.choice([0, 1, 2])]]
                    elif k == 3:
                        ev = ['O', rng.choice([1, 2]), idb + [0] + gen_bytes(rng, e[3])]
                    else:
                        ev = ['O', 3, [rng.choice([0, 1, 7])] + idb[:rng.randrange(3)]]
                elif r < gen.get('other', 0) + gen.get('stray', 0):
                    cand = [i for i in answered] + [e[0] for e in cfg['toc'] if not e[5]]
                    if not cand:
                        continue
                    ev = ['S', 3, [2] + list(struct.pack('<H', rng.choice(cand))) + [rng.choice([0, 1])]]
                elif not en:
                    break
                else:
                    ev = rng.choice(en)
                do(ev)
                sched.append(ev)
            if gen.get('drain', True):
                k = 0
                while enabled() and k < 200:
                    ev = enabled()[0]
                    do(ev)
                    sched.append(ev)
                    k += 1
    except HarnessError as e:
        problems.append({'what': 'harness error', 'detail': str(e)})
    finally:
        h.close()
        logging.disable(logging.NOTSET)
    return {'steps': steps, 'sched': sched, 'problems': problems, 'ext_ids': ext_ids if 'ext_ids' in dir() else []}


def ext_trace(cfg, rec):
    out = [1]
    for st in rec['steps']:
        obs = []
        for o in st['obs']:
            if o[0] == 'tx':
                obs.append([1, int.from_bytes(o[2][1:3], 'little')])
            elif o[0] == 'rx':
                obs.append([2] + _enc_pkt(o[1], o[2]))
            elif o[0] == 'done':
                obs.append([3])
            elif o[0] in ('upd', 'all'):
                continue        # Param's own handling of notifications: not part of this model
            else:
                obs.append([99])
        out.append(len(obs))
        for o in obs:
            out += o
        sn = st['snap']
        out += [len(sn['queue'])] + sn['queue'] + [sn['hand'], sn['lock'], sn['req'], sn['count']]
        out += [sum(1 for x in rec['steps'][:rec['steps'].index(st) + 1] for o in x['obs'] if o[0] == 'done')]
        out += sn['pers']
        out.append(len(sn['out']))
        for (c, d) in sn['out']:
            out += _enc_pkt(c, d)
    return out


def ext_term(cfg, rec):
    ids = [e[0] for e in _toc_read_order(cfg['toc']) if e[5]]
    dev = '[' + '; '.join('(%d, %d)' % (int(k), v) for k, v in cfg['ext'].items()) + ']'
    c = '(mkXC %s %s true)' % (coqrun.zlist(ids), dev)
    return '(if wf_xcfg %s then 1 else 0) :: ftrace %s %s (fstart %s) [%s]' % (
        c, c, coqrun.zlist([e[0] for e in cfg['toc']]), c, '; '.join(st['model'] for st in rec['steps']))


def check_ext_run(case, rec):
    """the property text on one extended-type phase: requests one at a time in table order, each reply given to the request it
    answers and to no other, the phase completes exactly once, when the last request has been answered"""
    cfg = case['cfg']
    fails = []

    def fail(cls, detail, expected=None, observed=None, step=None):
        fails.append({'class': cls, 'detail': detail, 'expected': expected, 'observed': observed, 'step_index': step})
    want_ids = [e[0] for e in _toc_read_order(cfg['toc']) if e[5]]
    sent, answered, done = [], [], 0
    for si, st in enumerate(rec['steps']):
        for o in st['obs']:
            if o[0] == 'tx':
                i = int.from_bytes(o[2][1:3], 'little')
                if len(sent) > len(answered):
                    fail('ext_request_sent_before_reply', 'request for id %d sent while id %d is unanswered' % (i, sent[-1]), step=si)
                sent.append(i)
                if sent != want_ids[:len(sent)]:
                    fail('ext_request_order_wrong', 'requests on the wire', expected=want_ids[:len(sent)], observed=list(sent), step=si)
            elif o[0] == 'done':
                done += 1
                if not (st['delivered'] == 'R' and len(answered) + 1 == len(want_ids)):
                    fail('ext_phase_completed_early', 'the done callback fired with %d of %d requests answered, while delivering a %s packet'
                         % (len(answered) + (st['delivered'] == 'R'), len(want_ids),
                            {'R': 'reply', 'O': 'non-reply', 'S': 'duplicated reply', None: 'no'}[st['delivered']]), step=si)
        if st['delivered'] == 'R':
            answered.append(sent[len(answered)] if len(answered) < len(sent) else -1)
        exp = [int(e[0] in answered and cfg['ext'][str(e[0])] == 1) for e in cfg['toc']]
        if st['snap']['pers'] != exp:
            fail('ext_persistent_flag_wrong', 'persistent flags after %d answered requests (delivered: %s)' % (len(answered), st['delivered']),
                 expected=exp, observed=st['snap']['pers'], step=si)
    last = rec['steps'][-1]['snap'] if rec['steps'] else None
    if last and not last['out'] and not last['queue'] and not last['hand']:
        if len(answered) == len(want_ids) and done != 1:
            fail('ext_phase_not_completed_once', 'done callback calls', expected=1, observed=done)
        if len(answered) < len(want_ids) and not last['lock']:
            fail('ext_phase_stalled', 'only %d of %d requests answered and nothing in flight' % (len(answered), len(want_ids)))
    if done > 1:
        fail('ext_phase_not_completed_once', 'done callback calls', expected=1, observed=done)
    return fails


# ------------------------------------------------------------------------------------------------ updater thread vs link changes

HEADER_R = 'From CF Require Import Common.Bytes C04.Trace C04.Race.\nOpen Scope Z_scope.\n'


def _pat_z(b):
    return -1 if b is None else int.from_bytes(bytes(b) + b'\x01', 'little')


def gen_race_case(rng):
    """tables of 2-3 sessions (all uint8, persistent; indices shifted / permuted, names removed / added) and a policy for the
    schedule; the schedule itself is drawn while the case runs (it depends on what is enabled)"""
    nn = rng.randint(3, 5)
    tables = []
    for k in range(rng.randint(2, 3)):
        present = [n for n in range(nn) if rng.random() < 0.85] or [0]
        ids = rng.sample(range(0, 7), len(present))
        toc = [[ids[j], n, n % 3, 8, 0, 1] for j, n in enumerate(present)]
        tables.append({'toc': toc, 'fixed_groups': 1, 'cb_param': [], 'cb_group': [], 'cb_all': [],
                       'dev_init': {str(e[0]): [rng.randrange(256)] for e in toc},
                       'dev_default': {str(e[0]): [rng.randrange(256)] for e in toc}, 'dev_enoent': []})
    return {'kind': 'race', 'tables': tables, 'fine': rng.random() < 0.4, 'sched': None,
            'gen': {'hold': rng.choice(['queued', 'A_locked', 'A_free', 'S', 'awaiting', 'random']),
                    'between': rng.random() < 0.3, 'len': rng.randint(12, 34)}}


def _race_op(rng, cfg, tag):
    e = rng.choice(cfg['toc'])
    r = rng.random()
    if r < 0.45:
        return ['set', e[1], ['i', rng.randrange(256), False]]
    if r < 0.75:
        return ['read', e[1]]
    return ['misc', rng.choice([3, 4, 5, 6]), e[1], next(tag)]


def execute_race(case, rng=None):
    """events: ['I', op] API call (main thread: none of them blocks), ['U'] updater thread step, ['R'] deliver next packet,
    ['X'] link down (real disconnected callbacks), ['C'] link up to the next table (real connection_requested callbacks)"""
    import logging
    from fakes.c04_sched import Harness, HarnessError, find_packet
    logging.disable(logging.CRITICAL)
    tables = [_cfg_for_harness(t) for t in case['tables']]
    steps, sched, problems = [], [], []
    h = Harness(tables[0], fine=bool(case.get('fine')))
    try:
        def ready():
            h.cf.param.is_updated = True          # the value download of connection setup is not part of these cases
            h.cf.param._initialized.set()
        ready()
        h.drain()
        st = {'sess': 0, 'up': True, 'tbl': 0, 'seq_of': {}, 'sess_of': {}, 'next': 0, 'held': -1, 'wire': [], 'fly': [],
              'pos_at_down': {}, 'held_at_down': {}}
        tag = iter(range(1, 1000))

        def enabled():
            ev = []
            if st['up']:
                ev.append('I')
                if h.dev.out:
                    ev.append('R')
                ev.append('X')
            elif st['tbl'] + 1 < len(tables):
                ev.append('C')
            if h.updater_enabled():
                ev.append('U')
            return ev

        def snap():
            u = h.updater
            pos = h.updater_pos()
            return {'link': int(st['up']), 'pc': {'G': 0, 'A': 1, 'S': 2}.get(pos, 9), 'held': st['held'] if pos in 'AS' else -1,
                    'lock': int(u.wait_lock.l), 'pat': _pat_z(u._lock_pattern),
                    'queue': [st['seq_of'].get(id(find_packet(x)), -2) for x in u.request_queue.pending()],
                    'wire': list(st['wire']), 'fly': list(st['fly']), 'sess': st['sess'],
                    'dead': [inf['exc'] for inf in h.sched.info.values() if inf['done'] and inf['exc']]}

        def do(ev):
            model = None
            h.last_put = None
            lock_before = int(h.updater.wait_lock.l)
            delivered = None
            if ev[0] == 'I':
                h.op(tuple(ev[1][:2]) + ((_py_value(ev[1][2], 8),) if ev[1][0] == 'set' else tuple(ev[1][2:])))()
                if h.last_put is not None:
                    pk = h.last_put
                    st['seq_of'][id(pk)] = st['next']
                    st['sess_of'][st['next']] = st['sess']
                    st['keep'] = st.get('keep', []) + [pk]
                    st['next'] += 1
                    model = 'UIssue %d' % _pat_z(pk.data[:3] if pk.channel == 3 else pk.data[:2])
            elif ev[0] == 'U':
                if h.updater_pos() == 'G':
                    st['held'] = st['seq_of'].get(id(find_packet(h.updater.request_queue.pending()[0])), -2)
                h.last_tx = None
                h.link.last_tx = None
                h.ev_updater()
                if h.link.last_tx is not None:
                    q = st['seq_of'].get(id(h.link.last_tx), -2)
                    st['wire'].append([st['sess'], q])
                    st['fly'].append(q)
                model = 'UStep'
            elif ev[0] == 'R':
                delivered = st['fly'].pop(0) if st['fly'] else -2
                h.ev_deliver()
                model = 'UReply'
            elif ev[0] == 'X':
                st['pos_at_down'][st['sess']] = h.updater_pos()
                st['held_at_down'][st['sess']] = st['held'] if h.updater_pos() in 'AS' else -1
                h.link_down()
                st['up'] = False
                st['sess'] += 1
                st['fly'] = []
                model = 'UDown'
            else:
                st['tbl'] += 1
                h.link_up(tables[st['tbl']])
                ready()
                st['up'] = True
                model = 'UUp'
            sn = snap()
            steps.append({'ev': ev, 'model': model, 'obs': h.drain(), 'snap': sn, 'delivered': delivered, 'lock_before': lock_before})
            if sn['dead']:
                problems.append({'what': 'a thread died', 'detail': sn['dead']})

        if case.get('sched') is not None:
            for ev in case['sched']:
                if ev[0] not in enabled():
                    problems.append({'what': 'scheduled step not enabled', 'step': ev, 'index': len(steps)})
                    break
                do(ev)
                sched.append(ev)
        else:
            gen = case['gen']

            def go(ev):
                if ev[0] in enabled():
                    do(ev)
                    sched.append(ev)
                    return True
                return False
            cfg0 = case['tables'][0]
            hold = gen['hold']
            if hold != 'random':
                # bring the updater to the chosen point of its loop with a request of session 0, then drop the link
                if hold in ('A_locked', 'awaiting'):
                    go(['I', _race_op(rng, cfg0, tag)]), go(['U']), go(['U'])
                    if case.get('fine'):
                        go(['U'])
                if hold != 'awaiting':
                    go(['I', _race_op(rng, cfg0, tag)])
                if hold in ('A_locked', 'A_free', 'S'):
                    go(['U'])
                if hold == 'S' and case.get('fine'):
                    go(['U'])
                if rng.random() < 0.5:
                    go(['I', _race_op(rng, cfg0, tag)])
                go(['X'])
                if gen['between']:
                    go(['U'])
                go(['C'])
            while len(steps) < gen['len']:
                en = enabled()
                if not en:
                    break
                w = {'I': 3, 'U': 4, 'R': 3, 'X': 1, 'C': 6}
                ev = rng.choices(en, [w[x] for x in en])[0]
                go(['I', _race_op(rng, case['tables'][st['tbl']], tag)] if ev == 'I' else [ev])
            k = 0
            while k < 60 and (h.updater_enabled() or (st['up'] and h.dev.out)):
                go(['U'] if h.updater_enabled() else ['R'])
                k += 1
    except HarnessError as e:
        problems.append({'what': 'harness error', 'detail': str(e)})
    finally:
        h.close()
        logging.disable(logging.NOTSET)
    return {'steps': steps, 'sched': sched, 'problems': problems}


def race_trace(rec):
    out = []
    for st in rec['steps']:
        if st['model'] is None:
            continue
        sn = st['snap']
        out += [sn['link'], sn['pc'], sn['held'], sn['lock'], sn['pat'], len(sn['queue'])] + sn['queue']
        out += [len(sn['wire'])] + [x for w in sn['wire'] for x in w] + [len(sn['fly'])] + sn['fly']
    return out


def race_term(case, rec):
    return 'utrace (mkRC true %s) u0 [%s]' % (coqrun.coq_bool(bool(case.get('fine'))),
                                              '; '.join(st['model'] for st in rec['steps'] if st['model'] is not None))


def check_race(case, rec):
    """no request issued in one session on the wire of another; no reply of an earlier session releases the lock; wire order =
    issue order"""
    fails = []
    sess_of, nxt = {}, 0
    pos_at_down, held_at_down = {}, {}
    last_seq = -1
    for si, st in enumerate(rec['steps']):
        sn = st['snap']
        if st['ev'][0] == 'I' and st['model'] is not None:
            sess_of[nxt] = sn['sess']
            nxt += 1
        if st['ev'][0] == 'X':
            prev = rec['steps'][si - 1]['snap'] if si else None
            pos_at_down[sn['sess'] - 1] = prev['pc'] if prev else 0
            held_at_down[sn['sess'] - 1] = prev['held'] if prev else -1
        if st['ev'][0] == 'U' and any(o[0] == 'tx' for o in st['obs']):
            ws, q = sn['wire'][-1]
            tx = next(o for o in st['obs'] if o[0] == 'tx')
            if sess_of.get(q) != ws:
                k = sess_of.get(q)
                window = pos_at_down.get(k) == 2 and held_at_down.get(k) == q
                fails.append({'class': 'earlier_session_request_sent_in_send_window' if window else 'earlier_session_request_sent',
                              'step_index': si, 'expected': 'dropped', 'observed': {'channel': tx[1], 'data': list(tx[2]), 'issued_in_session': k,
                                                                                     'sent_in_session': ws},
                              'detail': 'request #%s, built from the table of session %s, was sent on the link of session %s (the updater '
                                        'thread was %s when the link dropped)' % (q, k, ws, {0: 'idle', 1: 'holding it at wait_lock.acquire()',
                                                                                         2: 'holding it at the send lock'}.get(pos_at_down.get(k), '?'))})
            if q <= last_seq:
                fails.append({'class': 'wire_order_differs_from_issue_order', 'step_index': si, 'expected': None, 'observed': sn['wire'],
                              'detail': 'request #%s went out after request #%s' % (q, last_seq)})
            last_seq = max(last_seq, q)
        if st['ev'][0] == 'R' and st['delivered'] is not None and st['delivered'] >= 0:
            if sess_of.get(st['delivered']) != sn['sess'] and st['lock_before'] == 1 and sn['lock'] == 0:
                q = st['delivered']
                k = sess_of.get(q)
                # consequence of F04h only if THIS reply answers a request that had passed the session check and was parked at
                # the send lock when its link dropped; any other reply of an earlier session releasing the lock is a violation
                window = pos_at_down.get(k) == 2 and held_at_down.get(k) == q
                fails.append({'class': 'earlier_session_request_sent_in_send_window' if window else 'earlier_session_reply_released_lock',
                              'step_index': si, 'expected': None, 'observed': None,
                              'detail': 'the reply to request #%s of session %s released the updater lock in session %s%s'
                                        % (q, k, sn['sess'], ' (that request was parked at the send lock when the link dropped and was sent '
                                                             'on the new link: same reply pattern as the request now awaited)' if window else '')})
    return fails


# ------------------------------------------------------------------------------------------------ corpus

def corpus_cases():
    d = os.path.join(VERIF, 'corpus', 'C04')
    out = []
    if os.path.isdir(d):
        for f in sorted(os.listdir(d)):
            if f.endswith('.json'):
                c = json.load(open(os.path.join(d, f)))
                out.append((f, c['case'] if 'case' in c else c))
    return out


class _First:
    """schedule policy of the deterministic sweeps: always the first enabled step"""

    def random(self):
        return 0.99

    def choice(self, l):
        return l[0]

    def randrange(self, *a):
        return 0


ERRNO_LIKE = [0, 1, 2, 3, 4, 5, 11, 12, 13, 16, 22, 28, 110]


def sweep_cases():
    """every 8-bit type (and, for comparison, a 16-bit one) in a protocol >= 4 session: each small / errno-like value is written and
    read back, one request at a time; device values and defaults that look like a status byte as well"""
    cases = []
    for ty8 in (8, 0):
        toc = [[3, 0, 0, ty8, 0, 1], [258, 1, 1, ty8, 0, 1], [2, 2, 2, 9, 0, 1]]
        cfg = {'toc': toc, 'cb_param': [[0, 1000], [1, 1001]], 'cb_group': [[2, 1002]], 'cb_all': [1003],
               'dev_init': {'3': [2], '258': [5], '2': [2, 0]}, 'dev_default': {'3': [2], '258': [22], '2': [2, 0]}, 'dev_enoent': []}
        ops = [['readall']]
        for v in ERRNO_LIKE:
            ops += [['set', 0, ['i', v, False]], ['read', 0], ['set', 1, ['i', v, True]], ['set', 2, ['i', v, False]]]
        cases.append({'cfg': cfg, 'threads': [ops], 'sched': None,
                      'gen': {'burst': False, 'drain': True, 'notify': 0, 'stray': 0, 'budget': 700, 'serial': True}})
    return cases


import itertools
_cache_nr = itertools.count()
_runs = {}
_xruns = {}
_sruns = {}
_rruns = {}


def _executions(ctx):
    """corpus + generated cases, executed once per check run (shared by tie and oracle)"""
    key = (ctx.seed, ctx.tier)
    if key in _runs:
        return _runs[key]
    runs = []
    xruns = []
    sruns = []
    rruns = []
    for name, case in corpus_cases():
        case = dict(case)
        if case.get('kind') == 'ext':
            xruns.append((case, execute_ext(case, ctx.rng), 'corpus:' + name))
            continue
        if case.get('kind') == 'sess':
            sruns.append((case, execute_sess(case, ctx.rng), 'corpus:' + name))
            continue
        if case.get('kind') == 'race':
            rruns.append((case, execute_race(case, ctx.rng), 'corpus:' + name))
            continue
        rec = execute(case, ctx.rng)
        runs.append((case, rec, 'corpus:' + name))
    for k in range(ctx.scale(150, 3000)):
        case = gen_ext_case(ctx.rng)
        rec = execute_ext(case, ctx.rng)
        case['sched'] = rec['sched']
        xruns.append((case, rec, 'gen'))
    _xruns[key] = xruns
    for k in range(ctx.scale(60, 1500)):
        case = gen_sess_case(ctx.rng)
        recs = execute_sess(case, ctx.rng)
        for sc, rec in zip(case['sessions'], recs):
            sc['sched'] = rec['sched']
        case['sessions'] = case['sessions'][:len(recs)]
        sruns.append((case, recs, 'gen'))
    _sruns[key] = sruns
    for k in range(ctx.scale(100, 2000)):
        case = gen_race_case(ctx.rng)
        rec = execute_race(case, ctx.rng)
        case['sched'] = rec['sched']
        rruns.append((case, rec, 'gen'))
    _rruns[key] = rruns
    for case in sweep_cases():
        rec = execute(case, _First())
        case['sched'] = rec['sched']
        runs.append((case, rec, 'sweep'))
    for k in range(ctx.scale(50, 1000)):
        case = gen_names_case(ctx.rng)
        rec = execute(case, ctx.rng)
        case['sched'] = rec['sched']
        runs.append((case, rec, 'names'))
    for k in range(ctx.scale(60, 1200)):
        case = gen_aligned_case(ctx.rng)
        rec = execute(case, ctx.rng)
        case['sched'] = rec['sched']
        runs.append((case, rec, 'aligned'))
    for k in range(ctx.scale(40, 800)):
        case = gen_cache_case(ctx.rng)
        rec = execute(case, ctx.rng)
        case['sched'] = rec['sched']
        runs.append((case, rec, 'cache'))
    n = ctx.scale(400, 8000)
    for k in range(n):
        case = gen_case(ctx.rng, small=(k % 4 == 0))
        rec = execute(case, ctx.rng)
        case['sched'] = rec['sched']
        runs.append((case, rec, 'gen'))
    _runs[key] = runs
    return runs


def _nontrivial(case, rec):
    tids = set(st['ev'][1] for st in rec['steps'] if st['ev'][0] == 'I')
    maxp = max([len(st['snap']['queue']) + st['snap']['hand'] + st['snap']['lock'] for st in rec['steps']] or [0])
    ntx = sum(1 for st in rec['steps'] for o in st['obs'] if o[0] == 'tx')
    return len(tids) >= 2 and maxp >= 2 and ntx >= 3


# ------------------------------------------------------------------------------------------------ tie

_M64 = (1 << 64) - 1


def _dg(values):
    h1, h2 = 7, 7
    for v in values:
        h1 = (h1 * 33 + v + 1) & _M64
        h2 = (h2 * 129 + v + 1) & _M64
    return (h1, h2)


def compare_cases(terms, expected, tag, shard, HEADER=HEADER):
    """like coqrun.compare_blocks, with the cheap digest `dg` of C04/Trace.v"""
    got = coqrun.eval_terms(HEADER, ['dg (%s)' % t for t in terms], tag=tag, shard=shard)
    bad = [i for i, (d, e) in enumerate(zip(got, expected)) if tuple(d) != _dg(e)]
    out = []
    if bad:
        full = coqrun.eval_terms(HEADER, [terms[i] for i in bad[:6]], tag=tag + 'f', shard=1)
        out = list(zip(bad[:6], full)) + [(i, None) for i in bad[6:]]
    return out

def _set_value_direct(ctx):
    """Param.set_value alone for both index widths (protocol version 3 and 7): queue content or raised kind."""
    import logging
    from fakes.c04_sched import Harness, exn_code, find_packet
    logging.disable(logging.CRITICAL)
    terms, exp, samples = [], [], []
    try:
        for ver in (3, 7):
            toc = []
            for k, ty in enumerate(TYPES):
                toc.append([k * 23 % 256 if ver == 3 else [0, 255, 256, 65535, 4660, 7, 300, 1, 2, 3][k], k, k % 3, ty, 0, 0])
            toc.append([200, 10, 0, 8, 1, 0])
            cfg = {'toc': toc, 'cb_param': [], 'cb_group': [], 'cb_all': [], 'dev_enoent': [], 'version': ver,
                   'dev_init': {e[0]: bytes(WIDTH[e[3]]) for e in toc}, 'dev_default': {e[0]: bytes(WIDTH[e[3]]) for e in toc}}
            h = Harness(cfg)
            try:
                h.cf.param.is_updated = True
                h.cf.param._initialized.set()
                tocs = '[' + '; '.join('mkElem %d %d %d %s %s false' % (e[0], e[1], e[2], TYCON[e[3]], coqrun.coq_bool(e[4])) for e in toc) + ']'
                for rep in range(ctx.scale(40, 400)):
                    for e in toc + [[0, 99, 0, 8, 0, 0]]:
                        spec = gen_setval(ctx.rng, e[3])
                        h.drain()
                        rq = h.updater.request_queue
                        rq.clear()
                        try:
                            h.cf.param.set_value(h.cname(e[1]), _py_value(spec, e[3]))
                            q = [find_packet(x) for x in rq.pending()]
                            got = [1] + _enc_pkt(q[0].channel, bytes(q[0].data)) if len(q) == 1 else [7, len(q)]
                        except Exception as ex:   # noqa
                            got = [0, exn_code(ex)] if not rq.qsize() else [8, exn_code(ex)]
                        terms.append('enc_setres (set_value %s %s %d (%s %s))' % (
                            tocs, coqrun.coq_bool(ver >= 4), e[1], 'VInt' if spec[0] == 'i' else 'VFlt', coqrun.z(spec[1])))
                        exp.append(got)
                        if len(samples) < 3 and got[0] == 1:
                            samples.append({'set_value': [ver, e[3], spec[1]], 'queued': got[1:]})
            finally:
                h.close()
    finally:
        logging.disable(logging.NOTSET)
    return terms, exp, samples


def tie(ctx):
    dis = []
    runs = _executions(ctx)
    terms, exp, meta = [], [], []
    dist = {'steps': 0, 'issue': 0, 'updater': 0, 'deliver': 0, 'notify': 0, 'stray': 0, 'raise': 0, 'set': 0, 'read': 0, 'misc': 0,
            'threads': {}, 'max_pending': {}, 'types': {}}
    seen = set()
    nontriv = 0
    for case, rec, src in runs:
        for p in rec['problems']:
            dis.append({'what': 'implementation run: ' + p['what'], 'case': case, 'detail': p})
        tr, cuts = impl_trace(case['cfg'], rec)
        terms.append(coq_term(case['cfg'], rec))
        exp.append(tr)
        meta.append((case, rec, cuts))
        h = _dg(tr)
        if h not in seen:
            seen.add(h)
            if _nontrivial(case, rec):
                nontriv += 1
        dist['steps'] += len(rec['steps'])
        for st in rec['steps']:
            k = st['ev'][0]
            dist[{'I': 'issue', 'U': 'updater', 'D': 'deliver', 'N': 'notify', 'S': 'stray'}[k]] += 1
            if k == 'I':
                o = st['ev'][2]
                dist[{'readall': 'read'}.get(o[0], o[0])] += 1
            dist['raise'] += sum(1 for o in st['obs'] if o[0] == 'raise')
        nt = str(len(case['threads']))
        dist['threads'][nt] = dist['threads'].get(nt, 0) + 1
        mp = str(max([len(st['snap']['queue']) + st['snap']['hand'] + st['snap']['lock'] for st in rec['steps']] or [0]))
        dist['max_pending'][mp] = dist['max_pending'].get(mp, 0) + 1
        for e in case['cfg']['toc']:
            dist['types'][TYCON[e[3]]] = dist['types'].get(TYCON[e[3]], 0) + 1
    for bi, mv in compare_cases(terms, exp, 'c04a', max(8, len(terms) // 16 + 1)):
        case, rec, cuts = meta[bi]
        d = {'what': 'parameter state machine: model and implementation differ', 'case': case}
        if mv is not None:
            k = next((i for i in range(min(len(mv), len(exp[bi]))) if mv[i] != exp[bi][i]), min(len(mv), len(exp[bi])))
            si = max([i for i, c in enumerate(cuts) if c <= k] or [0])
            d.update({'step_index': si, 'step': rec['steps'][si]['ev'] if si < len(rec['steps']) else None,
                      'offset': k, 'model': mv[max(0, k - 6):k + 12], 'impl': exp[bi][max(0, k - 6):k + 12],
                      'obs': repr(rec['steps'][si]['obs'])[:600] if si < len(rec['steps']) else None})
            if k == 0:
                d['what'] = 'generated configuration is not well-formed for the model (generator bug)'
        dis.append(d)
    # --- extended-type phase
    xruns = _xruns[(ctx.seed, ctx.tier)]
    xt, xe = [], []
    nx = 0
    for case, rec, src in xruns:
        for p in rec['problems']:
            dis.append({'what': 'implementation run (extended-type phase): ' + p['what'], 'case': case, 'detail': p})
        xt.append(ext_term(case['cfg'], rec))
        xe.append(ext_trace(case['cfg'], rec))
        kinds = set(st['ev'][0] for st in rec['steps'])
        if ('O' in kinds or 'S' in kinds) and sum(1 for st in rec['steps'] if st['ev'][0] == 'X') >= 2:
            nx += 1
        dist['ext_steps'] = dist.get('ext_steps', 0) + len(rec['steps'])
    for bi, mv in compare_cases(xt, xe, 'c04x', max(8, len(xt) // 16 + 1), HEADER_X):
        d = {'what': 'extended-type fetcher: model and implementation differ', 'case': xruns[bi][0]}
        if mv is not None:
            k = next((i for i in range(min(len(mv), len(xe[bi]))) if mv[i] != xe[bi][i]), min(len(mv), len(xe[bi])))
            d.update({'offset': k, 'model': mv[max(0, k - 6):k + 12], 'impl': xe[bi][max(0, k - 6):k + 12]})
        dis.append(d)
    nontriv += nx
    # --- several sessions on one Param object
    sruns = _sruns[(ctx.seed, ctx.tier)]
    st_, se_ = [], []
    nsess = 0
    for case, recs, src in sruns:
        for rec in recs:
            for p in rec['problems']:
                dis.append({'what': 'implementation run (sessions): ' + p['what'], 'case': case, 'detail': p})
        st_.append(sess_term(case, recs))
        se_.append(sess_trace(case, recs))
        nsess += len(recs)
        if len(recs) >= 2 and any(st['ev'][0] == 'I' and st['ev'][2][0] in ('set', 'misc') for st in recs[1]['steps']):
            nontriv += 1
    dist['sessions'] = nsess
    dist['session_histories'] = len(sruns)
    for bi, mv in compare_cases(st_, se_, 'c04s', max(8, len(st_) // 16 + 1)):
        d = {'what': 'sessions on one Param object: model (every session starts from init of its own table) and implementation differ',
             'case': sruns[bi][0]}
        if mv is not None:
            k = next((i for i in range(min(len(mv), len(se_[bi]))) if mv[i] != se_[bi][i]), min(len(mv), len(se_[bi])))
            d.update({'offset': k, 'model': mv[max(0, k - 6):k + 12], 'impl': se_[bi][max(0, k - 6):k + 12]})
        if not any('shrunk' in x for x in dis):
            try:
                sh = shrink_sess_disagreement(sruns[bi][0])
            except Exception as e:      # noqa — shrinking is best effort
                sh = {'error': repr(e)}
            if sh:
                d['shrunk'] = sh
        dis.append(d)
    # --- the updater thread across link changes
    rruns = _rruns[(ctx.seed, ctx.tier)]
    rt_, re_ = [], []
    for case, rec, src in rruns:
        for p in rec['problems']:
            dis.append({'what': 'implementation run (updater thread vs link changes): ' + p['what'], 'case': case, 'detail': p})
        rt_.append(race_term(case, rec))
        re_.append(race_trace(rec))
        if any(st['ev'][0] == 'X' and st['snap']['pc'] != 0 for st in rec['steps']):
            nontriv += 1
        dist['race_steps'] = dist.get('race_steps', 0) + len(rec['steps'])
        for st in rec['steps']:
            if st['ev'][0] == 'X':
                k = 'link_down_with_updater_at_' + {0: 'get', 1: 'wait_lock', 2: 'send_lock'}.get(st['snap']['pc'], '?')
                dist[k] = dist.get(k, 0) + 1
    for bi, mv in compare_cases(rt_, re_, 'c04r', max(8, len(rt_) // 16 + 1), HEADER_R):
        d = {'what': 'updater thread vs link changes: model (repaired updater) and implementation differ', 'case': rruns[bi][0]}
        if mv is not None:
            k = next((i for i in range(min(len(mv), len(re_[bi]))) if mv[i] != re_[bi][i]), min(len(mv), len(re_[bi])))
            d.update({'offset': k, 'model': mv[max(0, k - 6):k + 12], 'impl': re_[bi][max(0, k - 6):k + 12]})
        dis.append(d)
    # --- set_value alone, both index widths
    t2, e2, samples = _set_value_direct(ctx)
    for bi, mv in compare_cases(t2, e2, 'c04b', max(8, len(t2) // 16 + 1)):
        dis.append({'what': 'Param.set_value: model and implementation differ', 'term': t2[bi], 'model': mv, 'impl': e2[bi]})
    ex = next(((c, r) for c, r, s in runs if s == 'gen' and _nontrivial(c, r)), None)
    if ex:
        samples.append({'threads': ex[0]['threads'], 'schedule_head': ex[1]['sched'][:12], 'steps': len(ex[1]['steps'])})
    return {
        'evaluations': len(terms) + len(t2) + len(xt) + nsess + len(rt_),
        'distinct_nontrivial': nontriv,
        'rule': 'event-list cases: >= 2 user threads actually issued, >= 2 requests pending at some point (queue + in hand + '
                'on the wire) and >= 3 packets sent; distinct by digest of the full observation/state trace. After every step '
                'observations and observable state are compared with the model (digest computed inside Coq, differing cases '
                're-evaluated in full). Plus set_value alone on all ten type codes for both index widths.',
        'samples': samples,
        'distribution': dist,
        'exhaustive': False,
        'disagreements': dis[:12],
    }


# ------------------------------------------------------------------------------------------------ oracle

def _spec_bytes(ty, spec):
    """independent encoder: bytes the declared type must carry for the requested value, or None if out of range"""
    kind, v, _ = spec
    w = WIDTH[ty]
    if ty in FLOAT:
        import numpy as np
        x = struct.unpack('<f' if ty == 6 else '<d', v.to_bytes(w, 'little'))[0]
        return np.array([x], dtype='<f4' if ty == 6 else '<f8').tobytes()
    try:
        return int(v).to_bytes(w, 'little', signed=ty in SIGNED)
    except OverflowError:
        return None


def _spec_val(ty, b):
    """independent decoder -> canonical [kind, int]"""
    if len(b) != WIDTH[ty]:
        return ['badlen', len(b)]
    if ty in FLOAT:
        return [1, int.from_bytes(b, 'little')]
    return [0, int.from_bytes(b, 'little', signed=ty in SIGNED)]


def _spec_misc(cmd, ty, reply):
    """what the callback of a misc request must receive for this reply (protocol as documented in param.py)"""
    st = reply[3]
    w = WIDTH[ty]
    if cmd in (3, 5):
        return [0, int(st == 0)]
    if cmd == 6:
        if len(reply) == 4 and st == ENOENT_ and w != 1:
            return [1]
        if st == ENOENT_ and w == 1:
            return [1]          # protocol cannot distinguish: the client's reading is accepted
        return [2] + _spec_val(ty, reply[3:])
    if st == ENOENT_:
        return [1]
    if st == 1:
        return [3, 1] + _spec_val(ty, reply[4:4 + w]) + [1] + _spec_val(ty, reply[4 + w:])
    return [3, 0] + _spec_val(ty, reply[4:]) + [0]


ENOENT_ = 2


def check_run(case, rec):
    """The property text on one execution.  Returns a list of failures (class, expected, observed, detail)."""
    cfg = case['cfg']
    toc_n = {e[1]: e for e in cfg['toc']}
    toc_i = {e[0]: e for e in cfg['toc']}
    idx = {e[0]: k for k, e in enumerate(cfg['toc'])}
    fails = []

    def fail(cls, detail, expected=None, observed=None, step=None):
        fails.append({'class': cls, 'detail': detail, 'expected': expected, 'observed': observed, 'step_index': step})

    enq, tx = [], []
    outstanding = None
    requests = []           # misc requests with callback, in queue order: dict(cb, cmd, name, enq_index)
    cb_calls = {}           # cb -> list of (step, delivered pkt, name, result)
    all_fired = 0
    drained = False
    for si, st in enumerate(rec['steps']):
        ev, obs, sn = st['ev'], st['obs'], st['snap']
        kinds = [o[0] for o in obs]
        upd = [o for o in obs if o[0] == 'upd']
        all_fired += kinds.count('all')
        n_enq_before = len(enq)
        for o in obs:
            if o[0] == 'enq':
                enq.append((o[1], o[2]))
        # ---- API calls
        if ev[0] == 'I':
            op = ev[2]
            if 'tx' in kinds or 'rx' in kinds:
                fail('api_call_transmits_directly', 'a user call put a packet on the wire itself', step=si)
            if op[0] == 'set':
                e = toc_n.get(op[1])
                if e is None:
                    want = ('raise', 1)
                elif e[4]:
                    want = ('raise', 2)
                else:
                    b = _spec_bytes(e[3], op[2])
                    want = ('raise', 3) if b is None else ('enq', (2, struct.pack('<H', e[0]) + b))
                if want[0] == 'raise':
                    got = [o for o in obs if o[0] == 'raise']
                    if len(enq) != n_enq_before:
                        cls = {1: 'unknown_param_write_transmitted', 2: 'readonly_param_write_transmitted',
                               3: 'out_of_range_value_transmitted'}[want[1]]
                        fail(cls, 'set_value(%r, %r) must be refused without transmission' % (op[1], op[2][1]),
                             expected='raise', observed=enq[n_enq_before:], step=si)
                    elif len(got) != 1:
                        fail('refused_write_did_not_raise', 'set_value(%r, %r) must raise' % (op[1], op[2][1]), step=si)
                else:
                    if enq[n_enq_before:] != [want[1]] or 'raise' in kinds:
                        fail('write_wire_bytes_wrong', 'set_value on type code %d with %r' % (e[3], op[2][1]),
                             expected=[want[1][0], list(want[1][1])],
                             observed=[[c, list(d)] for c, d in enq[n_enq_before:]] + [o for o in obs if o[0] == 'raise'], step=si)
            elif op[0] == 'read' and op[1] not in toc_n:
                if len(enq) != n_enq_before:
                    fail('unknown_param_read_transmitted', 'request_param_update of an unknown name queued a request', step=si)
            elif op[0] == 'misc' and op[2] not in toc_n:
                if len(enq) != n_enq_before:
                    fail('unknown_param_request_transmitted', 'misc request %d for a name the connected device does not have was queued' % op[1],
                         expected='refused', observed=[[c_, list(d_)] for c_, d_ in enq[n_enq_before:]], step=si)
            elif op[0] == 'misc' and op[3] is not None and len(enq) == n_enq_before + 1:
                requests.append({'cb': op[3], 'cmd': op[1], 'name': op[2], 'enq_index': n_enq_before})
        # ---- wire discipline
        for o in obs:
            if o[0] == 'tx':
                if len(tx) >= len(enq) or enq[len(tx)] != (o[1], o[2]):
                    fail('wire_order_differs_from_issue_order', 'packet %d on the wire is not request %d of the queue' % (len(tx), len(tx)),
                         expected=None if len(tx) >= len(enq) else [enq[len(tx)][0], list(enq[len(tx)][1])], observed=[o[1], list(o[2])], step=si)
                if outstanding is not None:
                    fail('second_request_sent_before_reply', 'a request was sent while request %d was unanswered' % outstanding, step=si)
                outstanding = len(tx)
                tx.append((o[1], o[2]))
        delivered = None
        if ev[0] == 'D':
            delivered = next((o for o in obs if o[0] == 'rx'), None)
        if delivered is not None and st.get('stray') and outstanding is not None and tx[outstanding][0] in (1, 2) and \
                tx[outstanding][1][:2] == delivered[2][:2]:
            # by now the awaited request is for the same parameter: the protocol cannot tell this late duplicate from the
            # real answer, whatever the client does; nothing after this point can be judged
            return fails
        if delivered is not None and st.get('stray'):
            # a duplicated / late reply for a parameter that is not awaited: it must neither release the lock (checked
            # by the wire discipline above when the next request goes out early) nor be mistaken for a misc reply
            delivered = None
            if upd:
                fail('update_callbacks_wrong', 'update callbacks for a reply that answers no request', observed=upd, step=si)
                upd = []
        if delivered is not None:
            chan, data = delivered[1], delivered[2]
            is_notif = chan == 3 and data[:1] == b'\x01'
            if not is_notif:
                if outstanding is None:
                    fail('reply_without_request', 'device reply with nothing outstanding (harness)', step=si)
                outstanding = None
            # value-bearing packets
            val = None
            if chan == 1:
                val = (int.from_bytes(data[:2], 'little'), data[3:])
            elif chan == 2:
                val = (int.from_bytes(data[:2], 'little'), data[2:])
            elif is_notif:
                val = (int.from_bytes(data[1:3], 'little'), data[3:])
            if val is not None and val[0] in toc_i:
                e = toc_i[val[0]]
                want = _spec_val(e[3], val[1])
                got = sn['values'][idx[e[0]]]
                if got != want:
                    fail('cache_differs_from_device_value', 'after the reply for parameter id %d (type code %d)' % (e[0], e[3]),
                         expected=want, observed=got, step=si)
                exp_calls = sorted([[cb, e[1], want] for n, cb in cfg['cb_param'] if n == e[1]] +
                                   [[cb, e[1], want] for g, cb in cfg['cb_group'] if g == e[2]] +
                                   [[cb, e[1], want] for cb in cfg['cb_all']])
                got_calls = sorted([[o[1], o[2], o[3]] for o in upd])
                if exp_calls != got_calls:
                    fail('update_callbacks_wrong', 'each registered observer must get the device value exactly once',
                         expected=exp_calls, observed=got_calls, step=si)
            elif upd:
                fail('update_callbacks_wrong', 'update callbacks without a value packet', observed=upd, step=si)
        elif upd:
            fail('update_callbacks_wrong', 'update callbacks outside a delivery', observed=upd, step=si)
        for o in obs:
            if o[0] == 'misc' and ev[0] == 'D':
                cb_calls.setdefault(o[1], []).append((si, delivered, o[2], o[3]))
    last = rec['steps'][-1]['snap'] if rec['steps'] else None
    drained = bool(last) and not last['queue'] and not last['hand'] and not last['lock'] and not last['out']
    if last and last['lock'] and not last['out']:
        fail('updater_lock_never_released', 'the reply to request %s was delivered (link empty) but the updater still holds its '
             'lock with pattern %r: nothing will ever be sent again' % (outstanding, list(last['pat'] or b'')),
             observed={'queue': len(last['queue']), 'pattern': list(last['pat'] or b'')})
    if all_fired > 1:
        fail('all_updated_fired_twice', 'all_updated must fire once')
    if drained:
        store = dict(last['store'])
        for k, e in enumerate(cfg['toc']):
            if last['values'][k] is not None and last['values'][k] != _spec_val(e[3], store[e[0]]):
                fail('cache_differs_from_device_value', 'at quiescence, parameter id %d' % e[0],
                     expected=_spec_val(e[3], store[e[0]]), observed=last['values'][k])
    # ---- attribution of misc replies: wire order = queue order (checked above), so the reply to the request with
    #      queue index q is the (q+1)-th delivered packet that is not a notification
    deliv = []
    for si, st in enumerate(rec['steps']):
        if st['ev'][0] == 'D':
            rx = next((o for o in st['obs'] if o[0] == 'rx'), None)
            if rx and not (rx[1] == 3 and rx[2][:1] == b'\x01') and not st.get('stray'):
                deliv.append((si, rx))
    for r in requests:
        e = toc_n[r['name']]
        calls = cb_calls.get(r['cb'], [])
        q = r['enq_index']
        own = deliv[q] if q < len(deliv) else None
        wrong = False
        for (si, pk, name, res) in calls:
            if own is not None and si == own[0]:
                want = _spec_misc(r['cmd'], e[3], own[1][2])
                if res != want or name != r['name']:
                    fail('misc_reply_decoded_wrong', 'request #%d (cmd %d, type code %d)' % (q, r['cmd'], e[3]),
                         expected=want, observed=res, step=si)
                continue
            wrong = True
            data = pk[2] if pk else b''
            if pk and pk[1] == 3 and data[:1] == b'\x01':
                nid = int.from_bytes(data[1:3], 'little')
                fail('value_notification_consumed_as_misc_reply',
                     'callback of request #%d (cmd %d, param id %d) was invoked by the unsolicited MISC_VALUE_UPDATED notification for '
                     'parameter id %d (= cmd | id_lo << 8, first value byte = id_hi)' % (q, r['cmd'], e[0], nid),
                     expected='not called', observed=[list(data), res], step=si)
                continue
            pid = int.from_bytes(data[1:3], 'little') if len(data) >= 3 else -1
            if len(data) >= 3 and data[0] == r['cmd'] and pid == e[0]:
                fail('misc_reply_shared_by_requests_for_same_param',
                     'callback of request #%d (cmd %d, param id %d) was given the reply to another request for the same '
                     'command and parameter' % (q, r['cmd'], e[0]), observed=[list(data), res], step=si)
            else:
                fail('misc_reply_to_request_for_other_param',
                     'callback of request #%d (cmd %d, param id %d) was given the reply to a request for parameter id %d'
                     % (q, r['cmd'], e[0], pid), observed=[list(data), res], step=si)
        if drained and not wrong and len(calls) != 1 and not _any_misattribution(fails):
            fail('misc_reply_not_delivered_exactly_once', 'callback of request #%d called %d times' % (q, len(calls)),
                 expected=1, observed=len(calls))
    return fails


def _any_misattribution(fails):
    return any(f['class'] in ('misc_reply_shared_by_requests_for_same_param', 'misc_reply_to_request_for_other_param',
                              'value_notification_consumed_as_misc_reply')
               for f in fails)


def _direct_float_overflow():
    """values outside the float range must raise instead of being wrapped (checked on the real set_value)"""
    import logging
    from fakes.c04_sched import Harness
    logging.disable(logging.CRITICAL)
    fails = []
    cfg = {'toc': [[5, 0, 0, 6, 0, 0]], 'cb_param': [], 'cb_group': [], 'cb_all': [], 'dev_enoent': [],
           'dev_init': {5: bytes(4)}, 'dev_default': {5: bytes(4)}}
    h = Harness(cfg)
    try:
        h.cf.param.is_updated = True
        h.cf.param._initialized.set()
        for v in (1e39, -1e39, 3.5e38):
            h.updater.request_queue.clear()
            try:
                h.cf.param.set_value('g0.n0', v)
                raised = False
            except Exception:   # noqa
                raised = True
            if h.updater.request_queue.qsize() or not raised:
                fails.append({'class': 'out_of_range_value_transmitted', 'case': {'direct': 'float', 'value': v},
                              'detail': 'set_value(float parameter, %r) must raise, not transmit' % v})
    finally:
        h.close()
        logging.disable(logging.NOTSET)
    return fails


def oracle(ctx, deep=False):
    fails = []
    runs = list(_executions(ctx))
    if deep:
        for k in range(ctx.scale(600, 3000)):
            case = gen_case(ctx.rng, small=True)
            rec = execute(case, ctx.rng)
            case['sched'] = rec['sched']
            runs.append((case, rec, 'deep'))
    n = 0
    seen = set()
    # smallest cases first, so that the reported witness is small
    order = sorted(range(len(runs)), key=lambda i: (0 if runs[i][2].startswith('corpus') else 1, len(runs[i][1]['steps'])))
    for i in order:
        case, rec, src = runs[i]
        n += 1
        for f in check_run(case, rec):
            if f['class'] in seen:
                continue
            seen.add(f['class'])
            c = {'cfg': case['cfg'], 'threads': case['threads'], 'sched': rec['sched']}
            fails.append({'class': f['class'], 'case': c, 'expected': f.get('expected'), 'observed': f.get('observed'),
                          'detail': '%s (step %s; source %s)' % (f['detail'], f.get('step_index'), src)})
    xruns = list(_xruns[(ctx.seed, ctx.tier)])
    if deep:
        for k in range(ctx.scale(300, 1500)):
            case = gen_ext_case(ctx.rng)
            rec = execute_ext(case, ctx.rng)
            case['sched'] = rec['sched']
            xruns.append((case, rec, 'deep'))
    order = sorted(range(len(xruns)), key=lambda i: (0 if xruns[i][2].startswith('corpus') else 1, len(xruns[i][1]['steps'])))
    for i in order:
        case, rec, src = xruns[i]
        n += 1
        for f in check_ext_run(case, rec):
            if f['class'] in seen:
                continue
            seen.add(f['class'])
            fails.append({'class': f['class'], 'case': {'kind': 'ext', 'cfg': case['cfg'], 'sched': rec['sched']},
                          'expected': f.get('expected'), 'observed': f.get('observed'),
                          'detail': '%s (step %s; source %s)' % (f['detail'], f.get('step_index'), src)})
    sruns = list(_sruns[(ctx.seed, ctx.tier)])
    if deep:
        for k in range(ctx.scale(150, 600)):
            case = gen_sess_case(ctx.rng)
            recs = execute_sess(case, ctx.rng)
            for sc, rec in zip(case['sessions'], recs):
                sc['sched'] = rec['sched']
            case['sessions'] = case['sessions'][:len(recs)]
            sruns.append((case, recs, 'deep'))
    order = sorted(range(len(sruns)), key=lambda i: (0 if sruns[i][2].startswith('corpus') else 1, sum(len(r['steps']) for r in sruns[i][1])))
    for i in order:
        case, recs, src = sruns[i]
        n += len(recs)
        for f in check_sess(case, recs):
            if f['class'] in seen:
                continue
            seen.add(f['class'])
            c = {'kind': 'sess', 'sessions': [{'cfg': sc['cfg'], 'threads': sc['threads'], 'sched': rec['sched']}
                                              for sc, rec in zip(case['sessions'], recs)]}
            fails.append({'class': f['class'], 'case': c, 'expected': f.get('expected'), 'observed': f.get('observed'),
                          'detail': '%s (step %s; source %s)' % (f['detail'], f.get('step_index'), src)})
    rruns = list(_rruns[(ctx.seed, ctx.tier)])
    if deep:
        for k in range(ctx.scale(200, 800)):
            case = gen_race_case(ctx.rng)
            rec = execute_race(case, ctx.rng)
            case['sched'] = rec['sched']
            rruns.append((case, rec, 'deep'))
    order = sorted(range(len(rruns)), key=lambda i: (0 if rruns[i][2].startswith('corpus') else 1, len(rruns[i][1]['steps'])))
    for i in order:
        case, rec, src = rruns[i]
        n += 1
        for f in check_race(case, rec):
            if f['class'] in seen:
                continue
            seen.add(f['class'])
            c = {'kind': 'race', 'tables': case['tables'], 'fine': case.get('fine'), 'sched': rec['sched']}
            fails.append({'class': f['class'], 'case': c, 'expected': f.get('expected'), 'observed': f.get('observed'),
                          'detail': '%s (step %s; source %s)' % (f['detail'], f.get('step_index'), src)})
    fails += _direct_float_overflow()
    n_names, f_names = _direct_unknown_names()
    for f in f_names:
        if f['class'] + ':' + f['case']['api'] not in seen:
            seen.add(f['class'] + ':' + f['case']['api'])
            if not any(x['class'] == f['class'] for x in fails):
                fails.append(f)
    n += n_names
    return {'evaluations': n + 3, 'failures': fails,
            'rule': 'per execution: set_value bytes vs independent encoder (int.to_bytes / numpy), refusal without '
                    'transmission, wire order = queue order, one outstanding, cache and observer calls = device value at each '
                    'value packet and at quiescence, each misc callback called exactly once, during the delivery of the reply '
                    'to its own request, with the independently decoded result'}


def replay(payload, ctx):
    c = payload['case']
    if c.get('direct') == 'float':
        fs = _direct_float_overflow()
        return fs[0] if fs else None
    if c.get('direct') == 'names':
        fs = [f for f in _direct_unknown_names()[1] if f['case']['api'] == c['api'] and f['case']['name'] == c['name']]
        return fs[0] if fs else None
    if c.get('kind') == 'ext':
        case = {'kind': 'ext', 'cfg': c['cfg'], 'sched': c['sched']}
        rec = execute_ext(case, ctx.rng)
        fs = check_ext_run(case, rec)
    elif c.get('kind') == 'race':
        rec = execute_race(c, ctx.rng)
        fs = check_race(c, rec)
    elif c.get('kind') == 'sess':
        recs = execute_sess(c, ctx.rng)
        fs = check_sess(c, recs)
        rec = {'problems': [p for r in recs for p in r['problems']]}
    else:
        case = {'cfg': c['cfg'], 'threads': c['threads'], 'sched': c['sched']}
        rec = execute(case, ctx.rng)
        fs = check_run(case, rec)
    want = payload.get('class')
    for f in fs:
        if want is None or f['class'] == want:
            return f
    # The schedule may stop being enabled on a different tree: the case was then run as far as it goes and judged by
    # the oracle above; not reproducing the recorded failure means the replay passes (the divergence is only a note).
    if rec['problems']:
        ctx.notes.append('replay diverged from the recorded schedule: %r' % (rec['problems'][0],))
    return None
