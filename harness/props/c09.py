"""C09 — lighthouse geometry estimation recovers the true base-station poses.

Proved (coq/C09): sample matcher (all input lists, any time-stamp arithmetic), linkage decision + termination of
_estimate_remaining_bs_poses, outcome classification of `estimate`, exactness of the pose chaining over a group.
Tie: (T) the matcher model is regenerated from the source by harness/trans/c09_matcher.py and proved equal to the
hand model; (V) differential runs of the real matcher, the real _estimate_remaining_bs_poses and the real `estimate`
(IPPE replaced by exact one-axis poses) against the Coq models.
Sampled, not proved: IPPE + mirror vote + averaging + least-squares reach the truth within 1 mm / 1 mrad
(random rooms in the envelope, ground truth in the frame of the first sample)."""
import glob
import itertools
import json
import os

from core import coqrun

ID = 'C09'
PROPERTY_FILE = 'C09/Property.v'
LEVEL = 'other'
ALLOWED_AXIOMS = ()
VERIF = coqrun.VERIF

TRUSTED_BASE = [
    'C09/Model.v (matcher, linkage, estimate bookkeeping) is hand-written from lighthouse_sample_matcher.py and '
    'lighthouse_initial_estimator.py; the matcher part is additionally regenerated from the source on every run '
    '(C09/Gen_Matcher.v, proved equal to the hand model in C09/GenTie.v); all parts are compared with the real code '
    'on generated cases on every run',
    'the numeric steps (IPPE/SVD, mirror-solution vote, eigen-decomposition average, scipy least_squares) have no '
    'Coq model: their clause of the property is sampled against ground truth only',
    'ground-truth generator and error metric (harness/fakes/c09_rooms.py): numpy/scipy Rotation',
]
ASSUMPTIONS = [
    'time stamps enter the matcher only through the test `ts > current.timestamp + max_time_diff` (abstract relation '
    '`late` in the theorems; checked by the translator: no other use of the time stamp)',
    'Python dict = association list in insertion order; int keys compared by value',
    'in the abstract linkage model _avarage_poses of equal poses returns that pose (hypothesis avg_const of '
    'C09_linkage_exact_poses_partial; numerically true up to rounding, sampled by the exact-IPPE rooms)',
    'room envelope made precise in harness/fakes/c09_rooms.ENVELOPE: every station 1.5-4 m from every Crazyflie pose, '
    '>= 0.5 m higher, pose inside +-60/45 deg of the station axis, station >= 25 deg above the deck plane, tilt <= 0.15 rad',
]
PROVED = (
    'For every list of measurements, every time-stamp type and every outcome of the window test: match() returns one '
    'sample per maximal run (unique segmentation) that has >= min_nr distinct stations, in order, stamped with the '
    'run\'s first time stamp, keyed by station in order of first occurrence, each station holding the angles of its last '
    'measurement in the run; nothing invented or lost (and the empty-sample quirk for a negative window). '
    '_estimate_remaining_bs_poses terminates and raises iff some station is not linked to the reference through shared '
    'samples, else returns exactly the linked stations; `estimate` after _angles_to_poses: no-reference / cannot-link / '
    'crash-on-empty-sample / answer, classified exactly; reference = smallest id of the first sample with >= 2 stations; '
    'for consistent per-sample poses over any group the answer is the truth in the frame of that sample\'s Crazyflie. '
    'Decision logic with the numeric kernels as parameters (C09/Decide.v): if the true candidates of a station pair share '
    'one bucket and every bucket holding a non-true candidate is strictly smaller (not larger when it comes later: the '
    'first largest bucket wins), the vote returns exactly the true bucket; there is no count threshold on pairs '
    '(C09_every_seen_pair_voted_partial, C09_pair_count_threshold_refuted) '
    '(C09_vote_sufficient_partial); if true pairs are strictly nearest to the voted position and inside the outlier bound, '
    '_choose_solutions succeeds with a true pair (C09_choose_sufficient_partial); then the sample is kept with true poses '
    '(C09_angles_to_poses_sufficient_partial); every station gets its pose exactly once. Premise-failing configurations '
    'proved for F09b, F09e, near-coincident stations. '
    'LighthouseBsVectors.projection_pair_list/angle_list are functions of the current contents after any history of '
    'in-place updates and reads (C09_container_reads_are_pure; C09_length_keyed_cache_refuted). '
    'Per-pair aggregates are keyed by the pair: the lists voted on for (i, j) come from exactly the samples seeing i and j, '
    'for any unbounded ids (C09_pair_lists_are_own_partial, C09_pair_aggregates_do_not_mix_partial; '
    'C09_packed_pair_key_refuted for (bs1 << 4) | bs2). '
    'EXTENSION outside the quantifier: calls built from steps that touch no shared state return, under every '
    'interleaving, what they return alone (C09_local_steps_commute, C09_overlapping_estimates_independent; '
    'C09_shared_scratch_refuted for a class-level scratch cell). '
    'REFUTED (theorem C09_mirror_vote_refuted over the model of _find_most_likely_positions, C09/Vote.v): the cluster '
    'vote does not isolate the true relative station position even if every sample contains it exactly.')
NOT_PROVED = (
    'That IPPE (SVD homography), the mirror-solution cluster vote (accept_radius 0.8, OUTLIER_DETECTION_ERROR 0.5), '
    'quaternion averaging by eigen-decomposition and <= 100 evaluations of scipy least_squares reach the truth within '
    '1 mm / 1 mrad for every room of the envelope: validated by sampling only, and the sampling REFUTES it for about '
    '1.5 % of random rooms and ~50 % of axis-aligned symmetric rooms with level poses (known findings F09b/F09c/F09d/F09e: '
    'the mirror vote lumps mirror candidates with the true ones, or a bucket of mirror candidates outvotes the true one). '
    'Floating-point rounding, _angles_to_poses\' numeric success test and the solver are outside every theorem.')
EXPLANATION = 'partial: list/graph logic proved, numeric convergence sampled (with known counter-examples)'

# ---------------------------------------------------------------------------------------------- translator (T-tie)


def generate(ctx):
    import importlib
    import sys
    tdir = os.path.join(VERIF, 'harness', 'trans')
    if tdir not in sys.path:
        sys.path.insert(0, tdir)
    mod = importlib.import_module('c09_matcher')
    src = os.path.join(ctx.repo, 'cflib', 'localization', 'lighthouse_sample_matcher.py')
    text, info = mod.translate(open(src).read())
    out = os.path.join(coqrun.COQ_DIR, 'C09', 'Gen_Matcher.v')
    old = open(out).read() if os.path.exists(out) else None
    if old != text:
        with open(out, 'w') as f:
            f.write(text)
    return info


# ---------------------------------------------------------------------------------------------- matcher: cases

HEADER = '''From Coq Require Import QArith Qabs.
From CF Require Import Common.Bytes C09.Model C09.Vote C09.Decide C09.Container.
Open Scope Z_scope.
Definition flat_sample (s : Z * list (Z * Z)) : list Z :=
  fst s :: Z.of_nat (length (snd s)) :: flat_map (fun e => [fst e; snd e]) (snd s).
Definition flat_samples (l : list (Z * list (Z * Z))) : list Z := Z.of_nat (length l) :: flat_map flat_sample l.
Definition mk (l : list (Z * Z)) : list (@meas Z Z) :=
  map (fun p => Meas (fst (fst p)) (snd (fst p)) (snd p)) (combine l (map Z.of_nat (seq 0 (length l)))).
Definition run_match (d mn : Z) (l : list (Z * Z)) : list Z := flat_samples (match_samples (late_Z d) mn (mk l)).
Definition alpha : list (Z * Z) := flat_map (fun t => map (fun b => (t, b)) [0; 1]) [0; 1; 2; 3].
Fixpoint lists_of (n : nat) : list (list (Z * Z)) :=
  match n with O => [[]] | S k => flat_map (fun x => map (cons x) (lists_of k)) alpha end.
Definition run_all (d mn : Z) (n : nat) : list Z := concat (map (run_match d mn) (lists_of n)).
Definition near_q (a b : Z) : bool := Z.abs (a - b) <? 4.     (* positions in quarter metres: |d|/4 < 0.8 <-> |d| <= 3 *)
Definition run_vote (pl : list (list Z)) : Z * Z :=
  let b := vote near_q pl in (fold_right Z.add 0 b, Z.of_nat (length b)).
Definition qdist (a b : Q) : Q := Qabs (a - b)%Q.
Definition qlt (a b : Q) : bool := negb (Qle_bool b a).
Definition qmean (l : list Q) : Q := (fold_right Qplus 0%Q l / inject_Z (Z.of_nat (length l)))%Q.
Definition qrel (a b : Q) : Q := (b - a)%Q.
Definition encq (q : Q) : list Z := let r := Qred q in [Qnum r; Zpos (Qden r)].
Definition run_expected (ss : list (list (Z * list Q))) (i j : Z) : list Z :=
  encq (expected qdist qlt (4 # 5)%Q qmean qrel ss i j).
Definition enc_opt (o : option (list (Z * Q))) : list Z :=
  match o with None => [-1] | Some d => Z.of_nat (length d) :: flat_map (fun e => fst e :: encq (snd e)) d end.
Definition run_decide (ss : list (list (Z * list Q))) : list Z :=
  flat_map enc_opt (decide qdist qlt (4 # 5)%Q (1 # 2)%Q (100000 # 1)%Q qmean qrel 0%Q ss).
Definition run_container (ops : list cop) (l : list bsvec) : list Z :=
  flat_map (fun r => Z.of_nat (length r) :: r) (reads ops l).
Definition encp (e : Z * Z) : Z := fst e * 4294967296 + (snd e + 2147483648).
Definition enc_lres (r : lres (list (Z * Z))) : list Z :=
  match r with LOk bp => 1 :: sort_ids (map encp bp) | LRaise => [2] | LFuel => [3] end.
Definition run_link (ss : list (list (Z * Z))) (bp0 : list (Z * Z)) : list Z :=
  enc_lres (estimate_remaining Z.add Z.opp avg_hd choose_min ss bp0).
Definition a2p (s : list (Z * Z)) : list (Z * Z) :=
  map (fun k => (k, match dict_get k s with Some v => v | None => 0 end)) (angles_to_poses_keys (keys s)).
Definition enc_eres (r : @eres Z) : list Z :=
  match r with
  | ENoReference => [10] | ECannotLink => [11] | ECrash => [12] | EFuel => [13]
  | EOk bp cfs => 1 :: Z.of_nat (length bp) :: sort_ids (map encp bp) ++ Z.of_nat (length cfs) :: cfs
  end.
Definition run_est (ss : list (list (Z * Z))) : list Z :=
  enc_eres (estimate_tail Z.add Z.opp avg_hd choose_min (map a2p ss)).
'''


def _pairs(l):
    return '[' + '; '.join('(%s, %s)' % (coqrun.z(a), coqrun.z(b)) for a, b in l) + ']'


def _impl_match(case, as_float=False):
    from cflib.localization.lighthouse_sample_matcher import LighthouseSampleMatcher
    from cflib.localization.lighthouse_types import LhMeasurement
    conv = float if as_float else int
    ms = [LhMeasurement(timestamp=conv(ts), base_station_id=bs, angles=('angles', i))
          for i, (ts, bs) in enumerate(case['ms'])]
    try:
        out = LighthouseSampleMatcher.match(ms, max_time_diff=conv(case['d']), min_nr_of_bs_in_match=case['min'])
    except Exception as e:  # noqa
        return ['raise', type(e).__name__]
    res = []
    for s in out:
        ts = s.timestamp
        if isinstance(ts, float) and ts.is_integer():
            ts = int(ts)
        ent = []
        for k, v in s.angles_calibrated.items():
            if not (isinstance(v, tuple) and len(v) == 2 and v[0] == 'angles'):
                return ['invented-angles', repr(v)]
            ent.append([int(k), v[1]])
        res.append([ts, ent])
    return res


def _flat_match(res):
    out = [len(res)]
    for ts, ent in res:
        out += [ts, len(ent)]
        for k, v in ent:
            out += [k, v]
    return out


def _spec_match(case):
    """The property text, independent of the Coq model: maximal runs within the window of the run's first time stamp;
    per run the stations in order of first occurrence with the LAST angles; runs with < min stations dropped."""
    ms, d, mn = case['ms'], case['d'], case['min']
    runs = []
    for i, (ts, bs) in enumerate(ms):
        if runs and not (ts > runs[-1][0][1] + d):
            runs[-1].append((i, ts, bs))
        else:
            runs.append([(i, ts, bs)])
    out = []
    if ms and ms[0][0] > ms[0][0] + d and mn <= 0:      # negative window: the code emits an empty sample first
        out.append([ms[0][0], []])
    for r in runs:
        order = []
        last = {}
        for i, ts, bs in r:
            if bs not in last:
                order.append(bs)
            last[bs] = i
        if len(order) >= mn:
            out.append([r[0][1], [[b, last[b]] for b in order]])
    return out


ALPHA = [(t, b) for t in range(4) for b in range(2)]


def _exhaustive_groups(ctx):
    """(d, min, n) -> all lists of length n over 4 time stamps x 2 stations, in itertools.product order
    (= the order of `lists_of n` in the Coq header)."""
    L = ctx.scale(3, 5)
    return [(d, mn, n) for n in range(0, L + 1) for d in (0, 1) for mn in (0, 1, 2)]


def _group_cases(g):
    d, mn, n = g
    return [{'ms': [list(m) for m in ms], 'd': d, 'min': mn} for ms in itertools.product(ALPHA, repeat=n)]


def _random_matcher_cases(ctx, n_cases):
    cases = []
    # longer, mostly time-sorted with boundary gaps (gap == window), some unsorted, some negative windows
    for _ in range(n_cases):
        d = ctx.rng.choice([0, 1, 2, 2, 5, 20, -1])
        n = ctx.rng.randint(1, 14)
        ids = ctx.rng.sample(range(16), ctx.rng.randint(1, 5))
        t = ctx.rng.randint(0, 50)
        ms = []
        for _k in range(n):
            step = ctx.rng.choice([0, 0, 1, 1, max(d, 0), max(d, 0) + 1, max(d, 0) + 1, 2 * max(d, 0) + 3])
            if ctx.rng.random() < 0.05:
                step = -ctx.rng.randint(1, 3)
            t += step
            ms.append([t, ctx.rng.choice(ids)])
        cases.append({'ms': ms, 'd': d, 'min': ctx.rng.choice([0, 1, 2, 2, 3])})
    return cases


def _matcher_cases(ctx):
    """All cases as one list (used by the oracle)."""
    ex = []
    for g in _exhaustive_groups(ctx):
        if g[2] <= 4:
            ex += _group_cases(g)
    return ex + _random_matcher_cases(ctx, ctx.scale(600, 8000)), len(ex)


def _flat_or_marker(r):
    return _flat_match(r) if r[:1] not in (['raise'], ['invented-angles']) else [-999]


def _tie_matcher(ctx, dis, info):
    nontriv = set()

    def note(c, r):
        if r[:1] in (['raise'], ['invented-angles']):
            return
        if len(r) >= 2 and sum(len(e) for _, e in r) < len(c['ms']):     # >= 2 samples, something overwritten/filtered
            nontriv.add(json.dumps(c, sort_keys=True))
    # ---- small scope, exhaustive, enumerated inside Coq (no parsing): one digest per (window, min, length)
    groups = _exhaustive_groups(ctx)
    terms, exp = [], []
    n_ex = 0
    for g in groups:
        cs = _group_cases(g)
        n_ex += len(cs)
        e = []
        for c in cs:
            r = _impl_match(c)
            note(c, r)
            e += _flat_or_marker(r)
        terms.append('run_all %s %s %d' % (coqrun.z(g[0]), coqrun.z(g[1]), g[2]))
        exp.append(e)
    bad_groups = [bi for bi, _ in coqrun.compare_blocks(HEADER, terms, exp, tag='c09x', shard=4)]
    for bi in bad_groups[:2]:
        cs = _group_cases(groups[bi])[:400]
        vals = coqrun.eval_terms(HEADER, ['run_match %s %s %s' % (coqrun.z(c['d']), coqrun.z(c['min']), _pairs(c['ms']))
                                          for c in cs], tag='c09xf')
        for c, mv in zip(cs, vals):
            iv = _impl_match(c)
            ev = _flat_match(iv) if iv[:1] not in (['raise'], ['invented-angles']) else iv
            if mv != ev:
                dis.append({'what': 'LighthouseSampleMatcher.match: model and implementation differ (exhaustive small scope)',
                            'case': {'kind': 'matcher', **c}, 'model': mv, 'impl': ev})
                break
        else:
            dis.append({'what': 'LighthouseSampleMatcher.match: model and implementation differ (exhaustive small scope)',
                        'case': {'kind': 'matcher_group', 'd': groups[bi][0], 'min': groups[bi][1], 'len': groups[bi][2]},
                        'model': None, 'impl': None})
    # ---- random, longer lists
    cases = _random_matcher_cases(ctx, ctx.scale(600, 8000))
    impl = [_impl_match(c) for c in cases]
    B = 100
    terms, exp, idx = [], [], []
    for a in range(0, len(cases), B):
        blk = list(range(a, min(a + B, len(cases))))
        terms.append('concat [' + '; '.join('run_match %s %s %s' % (coqrun.z(cases[i]['d']), coqrun.z(cases[i]['min']),
                                                                    _pairs(cases[i]['ms'])) for i in blk) + ']')
        e = []
        for i in blk:
            note(cases[i], impl[i])
            e += _flat_or_marker(impl[i])
        exp.append(e)
        idx.append(blk)
    for bi, _mv in coqrun.compare_blocks(HEADER, terms, exp, tag='c09m', shard=1)[:2]:
        blk = idx[bi]
        vals = coqrun.eval_terms(HEADER, ['run_match %s %s %s' % (coqrun.z(cases[i]['d']), coqrun.z(cases[i]['min']),
                                                                  _pairs(cases[i]['ms'])) for i in blk], tag='c09mf')
        for i, mv in zip(blk, vals):
            ev = _flat_match(impl[i]) if impl[i][:1] not in (['raise'], ['invented-angles']) else impl[i]
            if mv != ev:
                dis.append({'what': 'LighthouseSampleMatcher.match: model and implementation differ',
                            'case': {'kind': 'matcher', **cases[i]}, 'model': mv, 'impl': ev})
                break
    # float time stamps (integral values: exact) must behave like the ints
    nfl = 0
    for c in cases[:300]:
        nfl += 1
        if _impl_match(c, as_float=True) != _impl_match(c) and len(dis) < 6:
            dis.append({'what': 'matcher: float and int time stamps differ', 'case': {'kind': 'matcher', **c},
                        'model': _impl_match(c), 'impl': _impl_match(c, as_float=True)})
    info['matcher'] = {'exhaustive_small_scope_cases': n_ex, 'exhaustive_max_len': max(g[2] for g in groups),
                       'random_cases': len(cases), 'float_ts_cases': nfl, 'random_max_len': max(len(c['ms']) for c in cases)}
    return n_ex + len(cases) + nfl, len(nontriv), cases[:2]


# ---------------------------------------------------------------------------------------------- linkage: cases

def _link_cases(ctx):
    cases = []
    for _ in range(ctx.scale(500, 6000)):
        n_ids = ctx.rng.randint(1, 7)
        ids = ctx.rng.sample(range(16), n_ids)
        xs = {b: ctx.rng.randint(-500, 500) for b in ids}
        n_s = ctx.rng.randint(0, 7)
        ss = []
        shape = ctx.rng.randrange(3)
        for k in range(n_s):
            c = ctx.rng.randint(-50, 50)
            if shape == 0:      # sparse: pairs, chains likely broken somewhere
                m = ctx.rng.choice([0, 1, 2, 2, 2])
            elif shape == 1:
                m = ctx.rng.randint(1, n_ids)
            else:
                m = ctx.rng.choice([2, 2, 3])
            sub = ctx.rng.sample(ids, min(m, n_ids))
            ss.append([[b, xs[b] - c] for b in sub])
        ref = ctx.rng.randint(-50, 50)
        kn = ctx.rng.sample(ids, ctx.rng.choice([1, 1, 1, 2]) if n_ids >= 2 else 1)
        if ctx.rng.random() < 0.1:
            extra = ctx.rng.choice([b for b in range(16) if b not in ids])      # a known station no sample mentions
            xs[extra] = ctx.rng.randint(-500, 500)
            kn.append(extra)
        cases.append({'ss': ss, 'known': [[b, xs[b] - ref] for b in kn]})
    return cases


def _impl_link(case):
    import warnings
    from cflib.localization.lighthouse_initial_estimator import LighthouseInitialEstimator as E
    from cflib.localization.lighthouse_types import LhException, Pose
    samples = [{b: Pose(t_vec=(float(x), 0.0, 0.0)) for b, x in s} for s in case['ss']]
    bs_poses = {b: Pose(t_vec=(float(x), 0.0, 0.0)) for b, x in case['known']}
    with warnings.catch_warnings():
        warnings.simplefilter('ignore')
        try:
            E._estimate_remaining_bs_poses(samples, bs_poses)
        except LhException:
            return [2]
        except Exception as e:  # noqa
            return ['raise', type(e).__name__, str(e)[:100]]
    out = []
    for b, p in bs_poses.items():
        t = [float(v) for v in p.translation]
        x = round(t[0])
        if abs(t[0] - x) > 1e-6 or abs(t[1]) > 1e-6 or abs(t[2]) > 1e-6:
            return ['inexact', b, t]
        out.append(int(b) * 4294967296 + x + 2147483648)
    return [1] + sorted(out)


class _FakeAngles:
    """Stands for LighthouseBsVectors: carries the exact pose (one axis) for the patched IppeCf.solve."""

    def __init__(self, x):
        self.x = float(x)

    def projection_pair_list(self):
        import numpy as np
        return np.array([[self.x, 0.0], [0.0, 0.0], [0.0, 0.0], [0.0, 0.0]])

    def angle_list(self):
        import numpy as np
        return np.zeros(8)


def _impl_est(case):
    import warnings
    import numpy as np
    from cflib.localization import ippe_cf
    from cflib.localization.lighthouse_initial_estimator import LighthouseInitialEstimator as E
    from cflib.localization.lighthouse_types import LhCfPoseSample, LhDeck4SensorPositions, LhException
    samples = [LhCfPoseSample(timestamp=float(k), angles_calibrated={b: _FakeAngles(x) for b, x in s})
               for k, s in enumerate(case['ss'])]
    orig = ippe_cf.IppeCf.solve
    Sol = ippe_cf.IppeCf.Solution

    def solve(U, Q):
        x = float(Q[0][0])
        return [Sol(np.identity(3), np.array((-x, 0.0, 0.0)), 0.0), Sol(np.identity(3), np.array((-x, 0.0, 0.0)), 0.0)]
    ippe_cf.IppeCf.solve = staticmethod(solve)
    try:
        with warnings.catch_warnings():
            warnings.simplefilter('ignore')
            try:
                guess, cleaned = E.estimate(samples, LhDeck4SensorPositions.positions)
            except LhException as e:
                m = str(e)
                return [10] if 'no reference' in m else ([11] if 'Can not link' in m else ['lh', m])
            except Exception as e:  # noqa
                return [12]
    finally:
        ippe_cf.IppeCf.solve = staticmethod(orig)
    if len(cleaned) != len(samples):
        return ['cleaned', len(cleaned)]
    out = []
    for b, p in guess.bs_poses.items():
        t = [float(v) for v in p.translation]
        x = round(t[0])
        if abs(t[0] - x) > 1e-6 or abs(t[1]) > 1e-6 or abs(t[2]) > 1e-6:
            return ['inexact', b, t]
        out.append(int(b) * 4294967296 + x + 2147483648)
    cfs = []
    for p in guess.cf_poses:
        t = [float(v) for v in p.translation]
        x = round(t[0])
        if abs(t[0] - x) > 1e-6:
            return ['inexact-cf', t]
        cfs.append(x)
    return [1, len(out)] + sorted(out) + [len(cfs)] + cfs


def _lists(ll):
    return '[' + '; '.join(_pairs(l) for l in ll) + ']'


def _eval_blocks(terms, impl, tag, B=40):
    """Model values for `terms`, assuming they equal `impl` wherever the block digests agree; differing blocks are
    evaluated in full."""
    marker = [[-999] if (v and isinstance(v[0], str)) else v for v in impl]
    blocks = [list(range(a, min(a + B, len(terms)))) for a in range(0, len(terms), B)]
    bterms = ['concat [' + '; '.join('(%s)' % terms[i] for i in blk) + ']' for blk in blocks]
    bexp = [[x for i in blk for x in marker[i]] for blk in blocks]
    model = [v if not (v and isinstance(v[0], str)) else None for v in impl]
    for bi, _ in coqrun.compare_blocks(HEADER, bterms, bexp, tag=tag, shard=2)[:3]:
        vals = coqrun.eval_terms(HEADER, [terms[i] for i in blocks[bi]], tag=tag + 'f')
        for i, v in zip(blocks[bi], vals):
            model[i] = v
    return model


def _tie_link(ctx, dis, info):
    cases = _link_cases(ctx)
    impl = [_impl_link(c) for c in cases]
    model = _eval_blocks(['run_link %s %s' % (_lists(c['ss']), _pairs(c['known'])) for c in cases], impl, 'c09l')
    dist = {'ok': 0, 'raise': 0, 'other': 0}
    nontriv = set()
    for c, mv, iv in zip(cases, model, impl):
        dist['ok' if iv[:1] == [1] else ('raise' if iv == [2] else 'other')] += 1
        if mv != iv and len(dis) < 10:
            dis.append({'what': '_estimate_remaining_bs_poses: model and implementation differ',
                        'case': {'kind': 'linkage', **c}, 'model': mv, 'impl': iv})
        ids = set(b for s in c['ss'] for b, _ in s)
        if len(ids) >= 3 and (iv == [2] or len(iv) - 1 >= len(c['known']) + 2):
            nontriv.add(json.dumps(c, sort_keys=True))
    # `estimate` with IPPE replaced by exact one-axis poses: samples have >= 1 station
    ecases = []
    for c in _link_cases(ctx)[:ctx.scale(300, 3000)]:
        ss = [s for s in c['ss'] if s]
        # consistent data need one Crazyflie offset per sample: already the case (x_b - c_k)
        ecases.append({'ss': ss})
    eimpl = [_impl_est(c) for c in ecases]
    emodel = _eval_blocks(['run_est %s' % _lists(c['ss']) for c in ecases], eimpl, 'c09e')
    edist = {}
    for c, mv, iv in zip(ecases, emodel, eimpl):
        key = {1: 'ok', 10: 'no_reference', 11: 'cannot_link', 12: 'crash'}.get(iv[0], 'other')
        edist[key] = edist.get(key, 0) + 1
        if mv != iv and len(dis) < 14:
            dis.append({'what': 'LighthouseInitialEstimator.estimate (exact IPPE): model and implementation differ',
                        'case': {'kind': 'estimate_ids', **c}, 'model': mv, 'impl': iv})
        if iv[0] in (1, 11) and len(set(b for s in c['ss'] for b, _ in s)) >= 3:
            nontriv.add(json.dumps(c, sort_keys=True))
    info['linkage'] = {'cases': len(cases), 'outcomes': dist, 'estimate_cases': len(ecases), 'estimate_outcomes': edist}
    return len(cases) + len(ecases), len(nontriv), [cases[0], ecases[0]]


def _impl_vote(pl):
    """Real _find_most_likely_positions for one station pair; candidate positions k/4 metres on the x axis."""
    import numpy as np
    from cflib.localization.lighthouse_initial_estimator import BsPairIds, LighthouseInitialEstimator as E
    lists = [[np.array((k / 4.0, 0.0, 0.0)) for k in cands] for cands in pl]
    try:
        r = E._find_most_likely_positions({BsPairIds(1, 2): lists})
        v = r[BsPairIds(1, 2)]
        return [float(v[0]), float(v[1]), float(v[2])]
    except Exception as e:  # noqa
        return ['raise', type(e).__name__]


def _tie_vote(ctx, dis, info):
    cases = []
    for _ in range(ctx.scale(250, 3000)):
        n = ctx.rng.randint(1, 6)
        truth = ctx.rng.randint(-20, 20)
        pl = []
        for _k in range(n):
            c = [truth] + [truth + ctx.rng.choice([-1, 1]) * ctx.rng.choice([1, 2, 3, 3, 4, 4, 5, 8, 15]) for _j in range(3)]
            if ctx.rng.random() < 0.5:
                ctx.rng.shuffle(c)
            pl.append(c)
        cases.append(pl)
    model = coqrun.eval_terms(HEADER, ['run_vote [%s]' % '; '.join(coqrun.zlist(c) for c in pl) for pl in cases],
                              tag='c09v', shard=40)
    polluted = 0
    for pl, mv in zip(cases, model):
        iv = _impl_vote(pl)
        ssum, cnt = mv
        ok = (iv[:1] != ['raise'] and cnt > 0 and abs(iv[0] - ssum / cnt / 4.0) < 1e-9 and abs(iv[1]) < 1e-12
              and abs(iv[2]) < 1e-12)
        if not ok and len(dis) < 16:
            dis.append({'what': '_find_most_likely_positions: model (C09/Vote.v) and implementation differ',
                        'case': {'kind': 'vote', 'position_lists': pl}, 'model': [ssum, cnt], 'impl': iv})
        if cnt and ssum != cnt * pl[0][0] and all(pl[0][0] in c for c in pl):
            polluted += 1
    info['vote'] = {'cases': len(cases), 'winning_bucket_mean_not_truth_although_truth_in_every_sample': polluted}
    return len(cases), polluted, [{'vote_position_lists_quarter_metres': cases[0]}]


# ---- decision logic: real _find_solutions / _angles_to_poses with IPPE replaced by a scripted candidate oracle
class _ScriptedAngles:
    """Stands for LighthouseBsVectors: carries the two candidate poses (one axis) the scripted IPPE returns."""

    def __init__(self, x0, x1):
        self.x = (float(x0), float(x1))

    def projection_pair_list(self):
        import numpy as np
        return np.array([[self.x[0], self.x[1]], [0.0, 0.0], [0.0, 0.0], [0.0, 0.0]])


def _impl_decide(case):
    import warnings
    import numpy as np
    from cflib.localization import ippe_cf
    from cflib.localization.lighthouse_initial_estimator import LighthouseInitialEstimator as E
    from cflib.localization.lighthouse_types import LhCfPoseSample, LhDeck4SensorPositions
    from fractions import Fraction
    samples = [LhCfPoseSample(timestamp=float(k), angles_calibrated={
        b: _ScriptedAngles(Fraction(*x0), Fraction(*x1)) for b, x0, x1 in s}) for k, s in enumerate(case['ss'])]
    orig = ippe_cf.IppeCf.solve
    Sol = ippe_cf.IppeCf.Solution

    def solve(U, Q):
        return [Sol(np.identity(3), np.array((-float(Q[0][0]), 0.0, 0.0)), 0.0),
                Sol(np.identity(3), np.array((-float(Q[0][1]), 0.0, 0.0)), 0.0)]
    ippe_cf.IppeCf.solve = staticmethod(solve)
    try:
        with warnings.catch_warnings():
            warnings.simplefilter('ignore')
            try:
                pos = E._find_solutions(samples, LhDeck4SensorPositions.positions)
                res, cleaned = E._angles_to_poses(samples, LhDeck4SensorPositions.positions, pos)
            except Exception as e:  # noqa
                return {'raise': '%s: %s' % (type(e).__name__, str(e)[:100])}
    finally:
        ippe_cf.IppeCf.solve = staticmethod(orig)
    kept = [id(c) for c in cleaned]
    out = []
    it = iter(res)
    for smp in samples:
        if id(smp) in kept:
            d = next(it)
            out.append([[int(k), float(v.translation[0])] for k, v in d.items()])
        else:
            out.append(None)
    def pk(k):
        try:
            return (int(k[0]), int(k[1]))
        except Exception:  # noqa  (a key that is not a pair: reported as a disagreement, not a harness crash)
            return ('key', repr(k))
    return {'expected': {pk(k): [float(x) for x in v] for k, v in pos.items()}, 'samples': out}


def _q(x):
    return '(%d # %d)%%Q' % (x[0], x[1])


def _decide_term(case):
    return '[' + '; '.join('[' + '; '.join('(%d, [%s; %s])' % (b, _q(x0), _q(x1)) for b, x0, x1 in s) + ']'
                           for s in case['ss']) + ']'


def _decide_pairs(case):
    ps = set()
    for s in case['ss']:
        ids = sorted(b for b, _, _ in s)
        for a in range(len(ids)):
            for b in range(a + 1, len(ids)):
                ps.add((ids[a], ids[b]))
    return sorted(ps)


def _fr(x):
    from fractions import Fraction
    f = Fraction(x).limit_denominator(1 << 40) if isinstance(x, float) else Fraction(*x)
    return [f.numerator, f.denominator]


def _cfg_case(lists_cm):
    """Two stations (1, 2) whose scripted solutions reproduce the candidate lists [c0, c1, c2, c3] (centimetres) of the
    refutation theorems: t1 = 0, t2 = c0, m2 = c1, m1 = c0 - c2 (then c3 = c1 + c2 - c0)."""
    ss = []
    for c0, c1, c2, c3 in lists_cm:
        assert c3 == c1 + c2 - c0
        ss.append([[1, [0, 100], [c0 - c2, 100]], [2, [c0, 100], [c1, 100]]])
    return {'ss': [[[b, _fr(x0), _fr(x1)] for b, x0, x1 in s] for s in ss]}


def _decide_cases(ctx, n):
    from fractions import Fraction
    cases = [_cfg_case([[0, 30, 250, 280], [0, 45, 300, 345], [0, 400, 20, 420]]),          # F09b (theorem config)
             _cfg_case([[0, 200, 210, 410], [0, 195, 205, 400], [0, 204, 199, 403]]),        # F09e
             _cfg_case([[20, 12, -15, -23], [20, 9, -22, -33]])]                             # near-coincident stations
    for _ in range(n):
        n_bs = ctx.rng.randint(2, 4)
        ids = ctx.rng.sample(range(16), n_bs)
        X = {b: Fraction(ctx.rng.randint(-256, 256), 64) for b in ids}
        kind = ctx.rng.choice(['spread', 'spread', 'polluted', 'symmetric', 'coincident', 'mixed'])
        if kind == 'coincident':
            base = X[ids[0]]
            X = {b: base + Fraction(ctx.rng.randint(-12, 12), 64) for b in ids}
        ss = []
        for _k in range(ctx.rng.randint(1, 7)):
            c = Fraction(ctx.rng.randint(-128, 128), 64)
            sub = ctx.rng.sample(ids, ctx.rng.randint(1, n_bs))
            sym = Fraction(ctx.rng.randint(90, 200), 64)
            s = []
            for b in sub:
                t = X[b] - c + Fraction(ctx.rng.choice([0, 0, 0, 1, -1]), 4096)        # exact truth +- scatter
                k2 = kind if kind != 'mixed' else ctx.rng.choice(['spread', 'polluted', 'symmetric'])
                if k2 == 'spread':
                    dlt = Fraction(ctx.rng.choice([-1, 1]) * ctx.rng.randint(70, 400), 64)
                elif k2 in ('polluted', 'coincident'):
                    dlt = Fraction(ctx.rng.choice([-1, 1]) * ctx.rng.randint(4, 45), 64)
                else:
                    dlt = (sym if sorted(sub).index(b) % 2 == 0 else -sym) + Fraction(ctx.rng.randint(-6, 6), 64)
                m = t + dlt
                sols = [t, m] if ctx.rng.random() < 0.8 else [m, t]
                s.append([b, [sols[0].numerator, sols[0].denominator], [sols[1].numerator, sols[1].denominator]])
            ss.append(s)
        cases.append({'ss': ss, 'gen': kind, 'truth': {str(b): [X[b].numerator, X[b].denominator] for b in ids}})
    # ---- Wave 15: wide ids, in particular sets that collide under a packed key (a << k) | b, with a chain in which both
    #      colliding pairs are lowest-id pairs of samples; own random stream (the main one is not disturbed)
    import random as _random
    R = _rooms()
    r2 = _random.Random(ctx.seed * 1000003 + 15)
    for q in range(max(12, n // 10)):
        kk, a, a2, b = R.colliding_ids(r2, k=[4, 4, 3, 5, 6, 7, 8][q % 7])
        ids = [a, a2, b] + ([b + r2.randint(1, 300)] if r2.random() < 0.5 else [])
        X = {i: Fraction(r2.randint(-256, 256), 64) for i in ids}
        ss = []
        for k in range(r2.randint(4, 8)):
            c = Fraction(r2.randint(-128, 128), 64)
            sub = ([a, b] if k % 2 == 0 else [a2, b]) + (ids[3:] if (len(ids) > 3 and r2.random() < 0.4) else [])
            s = []
            for i in sub:
                t = X[i] - c + Fraction(r2.choice([0, 0, 1, -1]), 4096)
                m = t + Fraction(r2.choice([-1, 1]) * r2.randint(70, 400), 64)
                s.append([i, [t.numerator, t.denominator], [m.numerator, m.denominator]])
            r2.shuffle(s)
            ss.append(s)
        cases.append({'ss': ss, 'gen': 'colliding_ids_k%d' % kk,
                      'truth': {str(i): [X[i].numerator, X[i].denominator] for i in ids}})
    return cases


def _check_decide(case):
    """Property-text side for scripted candidates (exact arithmetic, independent of the Coq model): when the premises of
    the decision-logic theorems hold for the candidates, the real _find_solutions/_angles_to_poses must keep every sample
    and store a true pose (within 1/1024 m) for every station of every sample with >= 2 stations."""
    from fractions import Fraction
    if 'truth' not in case:
        return None
    X = {int(b): Fraction(*v) for b, v in case['truth'].items()}
    EPS = Fraction(1, 1024)
    samples = [{b: [Fraction(*x0), Fraction(*x1)] for b, x0, x1 in s} for s in case['ss']]
    # which scripted solution is the true one: the pair-wise differences of true solutions equal X_j - X_i
    def true_sols(d):
        ids = sorted(d)
        if len(ids) < 2:
            return None
        best = None
        for c in set(x - X[ids[0]] for x in d[ids[0]]):        # candidate CF offset
            t = {b: [x for x in d[b] if abs(x - X[b] - c) <= EPS] for b in ids}
            if all(t[b] for b in ids):
                best = t
        return best
    expected = {}
    lists = {}
    for d in samples:
        ids = sorted(d)
        for a in range(len(ids)):
            for b in range(a + 1, len(ids)):
                lists.setdefault((ids[a], ids[b]), []).append([p2 - p1 for p1 in d[ids[a]] for p2 in d[ids[b]]])
    for (i, j), ls in lists.items():
        tr = X[j] - X[i]
        refs = ls[0]
        buckets = [[], [], [], []]
        for cs in ls:
            for c in cs:
                for r in range(4):
                    if abs(c - refs[r]) < Fraction(4, 5):
                        buckets[r].append(c)
                        break
        ist = [[abs(c - tr) <= 2 * EPS for c in b] for b in buckets]
        homes = [r for r in range(4) if any(ist[r])]
        n_true = sum(1 for cs in ls for c in cs if abs(c - tr) <= 2 * EPS)
        if len(homes) != 1 or sum(ist[homes[0]]) != n_true:
            return None
        h = homes[0]
        if any((not all(ist[r])) and (r == h or (r < h and len(buckets[r]) >= len(buckets[h]))
                                      or (r > h and len(buckets[r]) > len(buckets[h]))) for r in range(4)):
            return None
        expected[(i, j)] = sum(buckets[h]) / len(buckets[h])
    for d in samples:
        ids = sorted(d)
        if len(ids) < 2:
            continue
        ts = true_sols(d)
        if ts is None:
            return None
        for o in ids[1:]:
            e = expected[(ids[0], o)]
            dt = [abs(e - (p2 - p1)) for p1 in ts[ids[0]] for p2 in ts[o]]
            dn = [abs(e - (p2 - p1)) for p1 in d[ids[0]] for p2 in d[o] if not (p1 in ts[ids[0]] and p2 in ts[o])]
            if (dn and not max(dt) < min(dn)) or max(dt) > Fraction(1, 2):
                return None
    # premise holds
    iv = _impl_decide(case)
    bad = None
    if 'raise' in iv:
        bad = iv['raise']
    else:
        for k, (d, got) in enumerate(zip(samples, iv['samples'])):
            if got is None:
                bad = 'sample %d dropped' % k
                break
            ts = true_sols(d)
            if len(d) >= 2 and (sorted(x[0] for x in got) != sorted(d) or any(
                    min(abs(Fraction(x[1]).limit_denominator(1 << 40) - t) for t in ts[x[0]]) > EPS for x in got)):
                bad = 'sample %d: stored poses %s are not the true candidates' % (k, got)
                break
    if bad:
        return {'class': 'scripted_candidates_premise_holds_but_wrong_pick', 'case': {'kind': 'decide', **case},
                'expected': 'every sample kept, every stored pose a true candidate (premises of C09_vote_sufficient_partial '
                            'and C09_choose_sufficient_partial hold for these candidates)', 'observed': bad,
                'detail': 'ss = per sample [station, candidate 0, candidate 1] as fractions of a metre on one axis'}
    return False        # premise holds, estimator right


def _tie_sensitive(case, exp):
    """True when the outcome on the exact candidates depends on how a float tie / threshold equality is broken."""
    from fractions import Fraction
    for s in case['ss']:
        d = {b: [Fraction(*x0), Fraction(*x1)] for b, x0, x1 in s}
        ids = sorted(d)
        for o in ids[1:]:
            e = exp.get((ids[0], o))
            if e is None:
                return True
            ds = [abs(e - (p2 - p1)) for p1 in d[ids[0]] for p2 in d[o]]
            m = min(ds)
            if sum(1 for x in ds if x == m) > 1 or m == Fraction(1, 2) or any(0 < abs(x - m) < Fraction(1, 10 ** 9) for x in ds):
                return True
    for (i, j) in exp:
        for s in case['ss']:
            d = {b: [Fraction(*x0), Fraction(*x1)] for b, x0, x1 in s}
            if i in d and j in d:
                cs = [p2 - p1 for p1 in d[i] for p2 in d[j]]
                first = next(t for t in case['ss'] if i in [b for b, _, _ in t] and j in [b for b, _, _ in t])
                fd = {b: [Fraction(*x0), Fraction(*x1)] for b, x0, x1 in first}
                refs = [p2 - p1 for p1 in fd[i] for p2 in fd[j]]
                if any(abs(c - r) == Fraction(4, 5) for c in cs for r in refs):
                    return True
    return False


def _tie_decide(ctx, dis, info):
    from fractions import Fraction
    cases = _decide_cases(ctx, ctx.scale(300, 3000))
    terms = []
    for c in cases:
        t = _decide_term(c)
        terms.append('(run_decide %s, [%s])' % (t, '; '.join('run_expected %s %d %d' % (t, i, j) for i, j in _decide_pairs(c))))
    model = coqrun.eval_terms(HEADER, terms, tag='c09d', shard=20)
    n_ok = skipped = dropped = wrong_pick = 0
    for c, mv in zip(cases, model):
        dec, exps = mv
        exp = {p: Fraction(e[0], e[1]) for p, e in zip(_decide_pairs(c), exps)}
        if _tie_sensitive(c, exp):
            skipped += 1
            continue
        iv = _impl_decide(c)
        # decode the model's decision
        mdec, k = [], 0
        for _s in c['ss']:
            if dec[k] == -1:
                mdec.append(None)
                k += 1
            else:
                n = dec[k]
                mdec.append([[dec[k + 1 + 3 * t], Fraction(dec[k + 2 + 3 * t], dec[k + 3 + 3 * t])] for t in range(n)])
                k += 1 + 3 * n
        ok = 'raise' not in iv
        if ok:
            ok = set(iv['expected']) == set(exp) and all(
                abs(iv['expected'][p][0] - float(exp[p])) < 1e-9 and abs(iv['expected'][p][1]) < 1e-12 for p in exp)
        if ok:
            for a, b in zip(iv['samples'], mdec):
                if (a is None) != (b is None) or (a is not None and (
                        [x[0] for x in a] != [x[0] for x in b] or any(abs(x[1] - float(y[1])) > 1e-12 for x, y in zip(a, b)))):
                    ok = False
        if not ok and len(dis) < 20:
            dis.append({'what': '_find_solutions/_angles_to_poses with scripted IPPE: model (C09/Decide.v) and '
                                'implementation differ', 'case': {'kind': 'decide', **c},
                        'model': {'expected': {str(p): str(v) for p, v in exp.items()},
                                  'samples': [None if d is None else [[i, str(v)] for i, v in d] for d in mdec]},
                        'impl': iv if 'raise' in iv else {'expected': {str(p): v for p, v in iv['expected'].items()},
                                                          'samples': iv['samples']}})
        n_ok += ok
        dropped += sum(1 for d in mdec if d is None)
    info['decide'] = {'cases': len(cases), 'compared': len(cases) - skipped, 'skipped_float_tie_sensitive': skipped,
                      'agree': n_ok, 'samples_dropped_by_model': dropped,
                      'theorem_configurations_included': ['F09b', 'F09e', 'near_coincident']}
    return len(cases) - skipped, n_ok, [{'scripted_candidates': cases[3]['ss'][:2]}]


def _premise_room(case):
    R = _rooms()
    try:
        pr = R.decision_premise(case)
    except Exception as e:  # noqa
        pr = {'holds': None, 'why': repr(e)}
    return pr, R.run_estimator(case)


def _tie_premise(ctx, dis, info):
    """The theorems' premise evaluated from the truth on real rooms (real IPPE) against what the real estimator decides:
    premise holds => every sample kept, every station answered, initial estimate within 1 mm / 1 mrad of the truth."""
    R = _rooms()
    rooms = [('random', R.gen_room(ctx.rng, n_cf=ctx.rng.randint(3, 14))) for _ in range(ctx.scale(50, 600))]
    rooms += [('structured', R.gen_structured_room(ctx.rng)) for _ in range(ctx.scale(20, 200))]
    rooms += [('sparse_link_21_40_poses', R.gen_sparse_link_room(ctx.rng, need_premise=False))
              for _ in range(ctx.scale(6, 60))]
    rooms = [(k, c) for k, c in rooms if len(R.linked_components([s for s in c['vis'] if len(set(s)) >= 2])) == 1]
    try:
        import multiprocessing as mp
        import cflib.localization.lighthouse_initial_estimator  # noqa
        with mp.get_context('fork').Pool(processes=8) as pool:
            outs = pool.map(_premise_room, [c for _, c in rooms], chunksize=2)
    except Exception:  # noqa
        outs = [_premise_room(c) for _, c in rooms]
    stats = {}
    n_hold = 0
    for (kind, case), (pr, est) in zip(rooms, outs):
        right = (est['outcome'] == 'ok' and est['n_cleaned'] == est['n_matched'] and est['ids'] == R.expected_ids(case)
                 and max(est['guess_bs'] + est['guess_cf']) <= 1e-3)
        d = stats.setdefault(kind, {'premise_holds': 0, 'premise_fails': 0, 'premise_fails_estimator_right': 0,
                                    'premise_fails_estimator_wrong': 0, 'not_evaluated': 0})
        if pr['holds'] is None:
            d['not_evaluated'] += 1
            continue
        if pr['holds']:
            d['premise_holds'] += 1
            n_hold += 1
            if not right and len(dis) < 24:
                dis.append({'what': 'premise of the decision-logic theorems holds (from the truth) but the real estimator '
                                    'does not return the true initial estimate', 'case': {'kind': 'room', 'room': case},
                            'model': 'all samples kept, all stations, initial estimate within 1 mm / 1 mrad',
                            'impl': {k: v for k, v in est.items()}})
        else:
            d['premise_fails'] += 1
            d['premise_fails_estimator_right' if right else 'premise_fails_estimator_wrong'] += 1
    info['premise_on_rooms'] = stats
    return len(rooms), n_hold, [{'premise_on_rooms': stats}]


# ---- Wave 11: LighthouseBsVectors array functions after in-place updates (reads before the update prime any cache)
def _container_cases(ctx, n):
    """Angles k * 1e-6 rad with integer k (exact round trip float <-> integer)."""
    def vec():
        return [ctx.rng.randint(-900000, 900000), ctx.rng.randint(-700000, 700000)]
    cases = []
    for k in range(n):
        ln = ctx.rng.choice([4, 4, 4, 1, 2, 3, 6])
        a = [vec() for _ in range(ln)]
        steps = []
        cur = ln
        for _ in range(ctx.rng.randint(2, 7)):
            r = ctx.rng.random()
            if r < 0.35 or not steps:
                steps.append(['read'])
            elif r < 0.5 and cur > 0:
                steps.append(['item', ctx.rng.randrange(cur), vec()])
            elif r < 0.65:
                steps.append(['slice', [vec() for _ in range(cur if ctx.rng.random() < 0.8 else ctx.rng.randint(0, 6))]])
                cur = len(steps[-1][1])
            elif r < 0.8:
                steps.append(['clear_extend', [vec() for _ in range(cur if ctx.rng.random() < 0.8 else ctx.rng.randint(0, 6))]])
                cur = len(steps[-1][1])
            elif r < 0.87:
                steps.append(['append', vec()])
                cur += 1
            elif r < 0.93 and cur > 0:
                steps.append(['pop'])
                cur -= 1
            else:
                steps.append(['reverse'])
        steps.append(['read'])
        cases.append({'kind': 'container', 'a_micro': a, 'steps_micro': steps})
    return cases


def _container_float(case):
    """The same case with angles in radians (what the implementation is fed)."""
    def f(p):
        return [p[0] * 1e-6, p[1] * 1e-6]
    steps = []
    for st in case['steps_micro']:
        if st[0] == 'item':
            steps.append(['item', st[1], f(st[2])])
        elif st[0] in ('slice', 'clear_extend'):
            steps.append([st[0], [f(p) for p in st[1]]])
        elif st[0] == 'append':
            steps.append(['append', f(st[1])])
        else:
            steps.append(list(st))
    return {'kind': 'container', 'a': [f(p) for p in case['a_micro']], 'steps': steps}


def _impl_container(case):
    """angle_list() at every read of the history, as integers (micro-radians)."""
    from cflib.localization.lighthouse_bs_vector import LighthouseBsVector, LighthouseBsVectors
    fc = _container_float(case)

    def vec(p):
        return LighthouseBsVector(p[0], p[1])
    c = LighthouseBsVectors([vec(p) for p in fc['a']])
    out = []
    try:
        for st in fc['steps']:
            if st[0] == 'read':
                c.projection_pair_list()
                al = [float(x) for x in c.angle_list()]
                out += [len(al)] + [int(round(x * 1e6)) for x in al]
            elif st[0] == 'item':
                c[st[1]] = vec(st[2])
            elif st[0] == 'slice':
                c[:] = [vec(p) for p in st[1]]
            elif st[0] == 'clear_extend':
                c.clear()
                c.extend([vec(p) for p in st[1]])
            elif st[0] == 'append':
                c.append(vec(st[1]))
            elif st[0] == 'pop':
                c.pop()
            elif st[0] == 'reverse':
                c.reverse()
    except Exception as e:  # noqa
        return ['raise', type(e).__name__]
    return out


def _cop(st):
    def v(p):
        return '(%s, %s)' % (coqrun.z(p[0]), coqrun.z(p[1]))
    if st[0] == 'read':
        return 'CRead'
    if st[0] == 'item':
        return 'CItem %d %s' % (st[1], v(st[2]))
    if st[0] in ('slice', 'clear_extend'):
        return '%s [%s]' % ('CSlice' if st[0] == 'slice' else 'CClearExtend', '; '.join(v(p) for p in st[1]))
    if st[0] == 'append':
        return 'CAppend %s' % v(st[1])
    return 'CPop' if st[0] == 'pop' else 'CReverse'


def _tie_container(ctx, dis, info):
    cases = _container_cases(ctx, ctx.scale(200, 3000))
    impl = [_impl_container(c) for c in cases]
    terms = ['run_container [%s] [%s]' % ('; '.join(_cop(st) for st in c['steps_micro']),
                                         '; '.join('(%s, %s)' % (coqrun.z(p[0]), coqrun.z(p[1])) for p in c['a_micro']))
             for c in cases]
    model = _eval_blocks(terms, impl, 'c09c', B=50)
    n_mut = 0
    for c, mv, iv in zip(cases, model, impl):
        kinds = [st[0] for st in c['steps_micro']]
        first_read = kinds.index('read')
        if any(k in ('item', 'slice', 'clear_extend', 'reverse') for k in kinds[first_read:]):
            n_mut += 1
        if mv != iv and len(dis) < 30:
            dis.append({'what': 'LighthouseBsVectors.angle_list after in-place updates: model (C09/Container.v) and '
                                'implementation differ', 'case': _container_float(c), 'model': mv, 'impl': iv})
    info['container'] = {'cases': len(cases), 'with_in_place_update_after_a_read': n_mut}
    return len(cases), n_mut, [{'container_steps': cases[0]['steps_micro'][:4]}]


def tie(ctx):
    dis = []
    info = {}
    n1, nt1, s1 = _tie_matcher(ctx, dis, info)
    n2, nt2, s2 = _tie_link(ctx, dis, info)
    n3, nt3, s3 = _tie_vote(ctx, dis, info)
    n4, nt4, s4 = _tie_decide(ctx, dis, info)
    n5, nt5, s5 = _tie_premise(ctx, dis, info)
    n6, nt6, s6 = _tie_container(ctx, dis, info)
    return {'evaluations': n1 + n2 + n3 + n4 + n5 + n6, 'distinct_nontrivial': nt1 + nt2 + nt3 + nt4 + nt5 + nt6,
            'rule': 'matcher: >= 2 output samples and some measurement overwritten or filtered; linkage: >= 3 stations '
                    'and (raises or resolves >= 2 stations beyond the known ones); vote: a mirror candidate ends up in '
                    'the winning bucket although every sample contains the exact truth',
            'samples': s1[:1] + s2[:1] + s3 + s4 + s5 + s6, 'distribution': info, 'exhaustive': False, 'disagreements': dis}


# ---------------------------------------------------------------------------------------------- oracle

KNOWN_RATE_CLASSES = ('mirror_vote_wrong_initial_bs_pose', 'mirror_choice_wrong_initial_cf_pose',
                      'error_free_sample_discarded', 'mirror_bucket_outvotes_true_bucket',
                      'linked_system_rejected_links_discarded')


def _rooms():
    from fakes import c09_rooms
    return c09_rooms


def _eval_room(args):
    case, exact, jitter = args
    R = _rooms()
    res = R.run_pipeline(case, exact=exact, jitter=jitter)
    j, pr = R.judge_with_premise(case, res)
    return j, (None if pr is None else pr['holds'])


def _run_rooms(cases, exact, procs=8, jitter=0.0):
    """Evaluate rooms (in worker processes when possible); returns list of judge() results."""
    args = [(c, exact, jitter) for c in cases]
    if len(args) >= 8:
        try:
            import multiprocessing as mp
            import cflib.localization.lighthouse_geometry_solver  # noqa  (import before fork)
            with mp.get_context('fork').Pool(processes=procs) as pool:
                return pool.map(_eval_room, args, chunksize=1)
        except Exception:  # noqa
            pass
    return [_eval_room(a) for a in args]


def _room_failure(case, j, kind, jitter=0.0):
    c = {'kind': kind, 'room': case}
    if jitter:
        c['jitter'] = jitter
    return {'class': j[0], 'case': c, 'expected': j[1], 'observed': j[2], 'detail': j[3]}


# ---- _avarage_poses is pure: averaging k >= 2 nearly equal poses must return a pose near each of them
AVG_ANGLES = [0.0, 1.5707963267948966, 3.141592653589793, 3.141592653589793, 3.141592653589793, 2.0943951023931953]
AVG_EPS = [0.0, 1e-9, -1e-9, 1e-7, -1e-6, 1e-5, -1e-4, 1e-3]
AVG_AXES = [[1, 0, 0], [0, 1, 0], [0, 0, 1], [1, 1, 0], [1, 0, 1], [0, 1, 1], [1, 1, 1], [1, -1, 0], [-1, 2, 3]]


def _average_cases(ctx, n_random):
    cases = []
    k = 0
    for ax in AVG_AXES:
        for ang in (3.141592653589793, 1.5707963267948966, 0.0):
            for eps in (AVG_EPS if ang > 3 else AVG_EPS[:2]):
                for noise in (1e-6, 1e-9):
                    k += 1
                    cases.append({'axis': ax, 'angle': ang + eps, 'noise': noise, 'k': 2 + k % 4, 'flip': k % 3 == 0,
                                  't': [0.5 * (k % 5) - 1.0, 2.0, 1.5], 'seed': k})
    for _ in range(n_random):
        ax = [ctx.rng.uniform(-1, 1) for _ in range(3)]
        cases.append({'axis': ax, 'angle': ctx.rng.choice(AVG_ANGLES) + ctx.rng.choice(AVG_EPS),
                      'noise': ctx.rng.choice([0.0, 1e-9, 1e-7, 1e-6, 1e-5]), 'k': ctx.rng.randint(2, 8),
                      'flip': ctx.rng.random() < 0.4, 't': [ctx.rng.uniform(-4, 4) for _ in range(3)],
                      'seed': ctx.rng.randrange(1 << 30)})
    return cases


def _check_average(case):
    import random
    import warnings
    import numpy as np
    from scipy.spatial.transform import Rotation
    from cflib.localization.lighthouse_initial_estimator import LighthouseInitialEstimator as E
    from cflib.localization.lighthouse_types import Pose

    class FlippedQuat(Pose):       # the same rotation, reported with the other quaternion sign (q and -q are one rotation)
        @property
        def rot_quat(self):
            return -Pose.rot_quat.fget(self)
    rj = random.Random(case['seed'])
    ax = np.array(case['axis'], dtype=float)
    ax /= np.linalg.norm(ax)
    base = Rotation.from_rotvec(ax * case['angle'])
    poses = []
    for i in range(case['k']):
        d = Rotation.from_rotvec([rj.uniform(-1, 1) * case['noise'] for _ in range(3)])
        t = np.array(case['t']) + np.array([rj.uniform(-1, 1) * case['noise'] for _ in range(3)])
        cls = FlippedQuat if (case['flip'] and i % 2 == 1) else Pose
        poses.append(cls((d * base).as_matrix(), t))
    tol = 1e-6 + 4 * case['noise']
    R = _rooms()
    with warnings.catch_warnings():
        warnings.simplefilter('ignore')
        try:
            avg = E._avarage_poses(poses)
            errs = [R.pose_error(p, avg) for p in poses]
        except Exception as e:  # noqa
            return {'class': 'average_of_nearly_equal_poses_raises', 'case': {'kind': 'average', **case},
                    'expected': 'a pose within %.1e m / rad of each input' % tol,
                    'observed': '%s: %s' % (type(e).__name__, str(e)[:120]), 'detail': ''}
    worst = [max(e[0] for e in errs), max(e[1] for e in errs)]
    if not (worst[0] <= tol and worst[1] <= tol):
        return {'class': 'average_of_nearly_equal_poses_wrong', 'case': {'kind': 'average', **case},
                'expected': 'a pose within %.1e m / rad of each of the %d inputs' % (tol, case['k']),
                'observed': {'max_pos_err_m': worst[0], 'max_rot_err_rad': worst[1],
                             'input_rot_vecs': [[float(v) for v in p.rot_vec] for p in poses][:4],
                             'average_rot_vec': [float(v) for v in avg.rot_vec]},
                'detail': '_avarage_poses of %d poses that agree to %.0e (rotation by %.9g rad about %s%s)' % (
                    case['k'], case['noise'], case['angle'], case['axis'],
                    ', every second one with the opposite quaternion sign' if case['flip'] else '')}
    return None


def _check_case(case, ctx=None):
    """Property text on one stored/generated case.  Returns a failure dict or None."""
    kind = case.get('kind')
    if kind in ('room', 'room_exact'):
        j, _pr = _eval_room((case['room'], kind == 'room_exact', case.get('jitter', 0.0)))
        return _room_failure(case['room'], j, kind, case.get('jitter', 0.0)) if j else None
    if kind == 'average':
        return _check_average(case)
    if kind == 'decide':
        return _check_decide(case) or None
    if kind in ('reuse', 'container'):
        from fakes import c09_overlap
        j = c09_overlap.check_reuse(case) if kind == 'reuse' else c09_overlap.check_container(case)
        if j:
            return {'class': j[0], 'case': case, 'expected': j[1], 'observed': j[2], 'detail': j[3]}
        return None
    if kind == 'overlap':
        from fakes import c09_overlap
        j = c09_overlap.check(case)
        if j:
            return {'class': j[0], 'case': case, 'expected': j[1], 'observed': j[2], 'detail': j[3]}
        return None
    if kind == 'matcher':
        got, want = _impl_match(case), _spec_match(case)
        if got != want:
            return {'class': 'matcher_output_wrong', 'case': case, 'expected': want, 'observed': got,
                    'detail': 'samples as [time stamp, [[station, index of the measurement whose angles are stored]]]'}
        return None
    if kind == 'linkage':
        got, want = _impl_link(case), _spec_link(case)
        if got != want:
            return {'class': 'linkage_decision_wrong', 'case': case, 'expected': want, 'observed': got,
                    'detail': '[1, station*2^32 + x + 2^31 ...] = poses, [2] = LhException'}
        return None
    if kind == 'estimate_ids':
        got, want = _impl_est(case), _spec_est(case)
        if got != want:
            return {'class': 'estimate_bookkeeping_wrong', 'case': case, 'expected': want, 'observed': got,
                    'detail': '[10] no reference, [11] cannot link, [12] crash, [1, n, poses..., m, cf poses...]'}
        return None
    return {'class': 'unknown_case_kind', 'case': case, 'expected': None, 'observed': kind, 'detail': ''}


def _reach(ss, known):
    seen = set(known)
    changed = True
    while changed:
        changed = False
        for s in ss:
            ks = set(b for b, _ in s)
            if ks & seen and not ks <= seen:
                seen |= ks
                changed = True
    return seen


def _spec_link(case):
    """Property text: raise iff some station of some sample is not linked to the known ones; else the true pose of
    every linked station in the reference frame (truth recovered from the consistent data)."""
    ss, known = case['ss'], case['known']
    ids = set(b for s in ss for b, _ in s)
    seen = _reach(ss, [b for b, _ in known])
    if not ids <= seen:
        return [2]
    # poses: x_b - ref; propagate truth: known gives x_b - ref; a sample gives x_b - c
    val = {b: x for b, x in known}
    changed = True
    while changed:
        changed = False
        for s in ss:
            d = dict((b, x) for b, x in s)
            anchor = [b for b in d if b in val]
            if anchor:
                off = val[anchor[0]] - d[anchor[0]]
                for b in d:
                    if b not in val:
                        val[b] = d[b] + off
                        changed = True
    return [1] + sorted(b * 4294967296 + x + 2147483648 for b, x in val.items())


def _spec_est(case):
    ss = case['ss']
    usable = [sorted(s) if len(s) >= 2 else [] for s in ss]
    first = next((s for s in usable if s), None)
    if first is None:
        return [10]
    ref_b, ref_x = first[0]
    ids = set(b for s in usable for b, _ in s)
    seen = _reach(usable, [ref_b])
    if not ids <= seen:
        return [11]
    if any(not s for s in usable):
        return [12]
    lk = _spec_link({'ss': usable, 'known': [[ref_b, ref_x]]})
    val = {}
    for v in lk[1:]:
        b = v // 4294967296
        val[b] = v - b * 4294967296 - 2147483648
    cfs = []
    for s in usable:
        b, x = s[0]
        cfs.append(val[b] - x)          # (x_b - ref) - (x_b - c) = c - ref
    return [1, len(val)] + lk[1:] + [len(cfs)] + cfs


def _overlap_cases(ctx, n_pairs):
    """Pairs (sometimes triples) of small different rooms, mostly with the SAME station ids, and a hand-over pattern."""
    from fakes import c09_overlap
    R = _rooms()
    patterns = [['lists'], ['every', 1], ['every', 3]]
    cases = []
    for k in range(n_pairs):
        n_bs = ctx.rng.randint(2, 4)
        a = R.gen_room(ctx.rng, n_bs=n_bs, n_cf=ctx.rng.randint(3, 6), mode=ctx.rng.choice(['full', 'chain']))
        rooms = [a]
        for _ in range(2 if k % 4 == 3 else 1):
            same = ctx.rng.random() < 0.75
            b = R.gen_room(ctx.rng, n_bs=n_bs if same else ctx.rng.randint(2, 4), n_cf=ctx.rng.randint(3, 6),
                           mode=ctx.rng.choice(['full', 'chain']))
            if same:
                b = c09_overlap.relabel(b, sorted(int(x) for x in a['bs']))
            rooms.append(b)
        pat = patterns[k % 3] if k < 3 or ctx.rng.random() < 0.6 else ['seed', ctx.rng.randrange(1 << 20)]
        cases.append({'kind': 'overlap', 'rooms': rooms, 'pattern': pat})
    return cases


def _corpus():
    out = []
    for p in sorted(glob.glob(os.path.join(VERIF, 'corpus', 'C09', '*.json'))):
        try:
            out.append((os.path.basename(p), json.load(open(p))))
        except Exception:  # noqa
            continue
    return out


def _count_premise(prem, kind, pr, j):
    key = {True: 'premise_holds', False: 'premise_fails', None: 'not_evaluated'}[pr]
    d = prem.setdefault(kind, {})
    d[key] = d.get(key, 0) + 1
    if j:
        d[key + '_and_estimator_wrong'] = d.get(key + '_and_estimator_wrong', 0) + 1


def oracle(ctx, deep=False):
    R = _rooms()
    prem = {}
    failures = []
    n = 0
    samples = []
    # ---- corpus first
    for name, payload in _corpus():
        n += 1
        f = _check_case(payload['case'], ctx)
        if f:
            f['detail'] = (f.get('detail') or '') + ' [corpus/C09/%s]' % name
            failures.append(f)
    # ---- matcher, linkage, estimate bookkeeping against the property text (independent of the Coq model)
    mcases, _ = _matcher_cases(ctx)
    for c in mcases:
        n += 1
        f = _check_case({'kind': 'matcher', **c})
        if f and not any(x['class'] == f['class'] for x in failures):
            failures.append(f)
    for c in _link_cases(ctx)[:ctx.scale(400, 4000)]:
        n += 1
        f = _check_case({'kind': 'linkage', **c})
        if f and not any(x['class'] == f['class'] for x in failures):
            failures.append(f)
        n += 1
        f = _check_case({'kind': 'estimate_ids', 'ss': [s for s in c['ss'] if s]})
        if f and not any(x['class'] == f['class'] for x in failures):
            failures.append(f)
    # ---- decision logic on scripted candidates: premise (exact arithmetic) => true candidates picked
    n_prem = 0
    for c in _decide_cases(ctx, ctx.scale(300, 3000)):
        n += 1
        f = _check_decide(c)
        if f is False:
            n_prem += 1
        elif f and not any(x['class'] == f['class'] for x in failures):
            failures.append(f)
    prem['scripted_candidates'] = {'premise_holds_and_right': n_prem}
    # ---- Wave 11: measurement containers refilled in place between two pipeline runs; container functions by formula
    from fakes import c09_overlap as _ov
    for c in _container_cases(ctx, ctx.scale(150, 2000)):
        n += 1
        f = _check_case(_container_float(c))
        if f and not any(x['class'] == f['class'] for x in failures):
            failures.append(f)
    rcases = []
    for k in range(ctx.scale(3, 24) * (2 if deep else 1)):
        n_bs = ctx.rng.randint(2, 4)
        n_cf = ctx.rng.randint(3, 6)
        rcases.append({'kind': 'reuse', 'op': _ov.REFILL_OPS[k % 3],
                       'rooms': [R.gen_room(ctx.rng, n_bs=n_bs, n_cf=n_cf, mode=ctx.rng.choice(['full', 'chain'])),
                                 R.gen_room(ctx.rng, n_bs=n_bs, n_cf=n_cf, mode='full')]})
    for c in rcases:
        n += 1
        f = _check_case(c)
        if f and not any(x['class'] == f['class'] for x in failures):
            failures.append(f)
    # ---- EXTENSION (outside C09's quantifier): a call's result is a function of its arguments, also when calls for
    #      different rooms overlap in time (threads in deterministic lock-step, hand-over where inputs are iterated)
    ocases = _overlap_cases(ctx, ctx.scale(3, 20) * (2 if deep else 1))
    for c in ocases:
        n += 1
        f = _check_case(c)
        if f and not any(x['class'] == f['class'] for x in failures):
            failures.append(f)
    # ---- _avarage_poses directly (pure): nearly equal poses, orientations at / near half turns, q vs -q
    acases = _average_cases(ctx, ctx.scale(300, 5000))
    for c in acases:
        n += 1
        f = _check_average(c)
        if f and not any(x['class'] == f['class'] for x in failures):
            failures.append(f)
    # ---- structured (axis-aligned, symmetric, half-turn seams) rooms, IPPE replaced by the exact pose + 1e-7 scatter
    n_sx = ctx.scale(40, 600) * (3 if deep else 1)
    sxcases = [R.gen_structured_room(ctx.rng) for _ in range(n_sx)]
    for case, (j, _pr) in zip(sxcases, _run_rooms(sxcases, True, jitter=1e-7)):
        n += 1
        if j and not any(x['class'] == j[0] for x in failures):
            failures.append(_room_failure(case, j, 'room_exact', 1e-7))
    # ---- structured rooms through the unpatched pipeline (not counted in the rate guard: the symmetric rooms hit the
    #      known mirror-vote findings F09d/F09e in about half of the cases)
    n_su = ctx.scale(6, 60) * (3 if deep else 1)
    sucases = [R.gen_structured_room(ctx.rng) for _ in range(n_su)]
    su_known = 0
    for case, (j, pr) in zip(sucases, _run_rooms(sucases, False)):
        n += 1
        _count_premise(prem, 'structured', pr, j)
        if j:
            su_known += j[0] in KNOWN_RATE_CLASSES
            if not any(x['class'] == j[0] for x in failures):
                failures.append(_room_failure(case, j, 'room'))
    # ---- Wave 12: 21..40 poses, a station pair shared by exactly ONE sample (the first sample's pair / the only link of
    #      a station); drawn so that the premise holds: every error-free sample kept, every linked station answered,
    #      frame of the first sample
    spcases = [R.gen_sparse_link_room(ctx.rng, variant=('first_pair_once', 'only_link_once')[k % 2])
               for k in range(ctx.scale(4, 40) * (2 if deep else 1))]
    for case, (j, pr) in zip(spcases, _run_rooms(spcases, False)):
        n += 1
        _count_premise(prem, 'sparse_link_21_40_poses', pr, j)
        if j and not any(x['class'] == j[0] for x in failures):
            failures.append(_room_failure(case, j, 'room'))
    # ---- Wave 15: "any base-station ids": rooms whose two lowest-id pairs collide under a k-bit packed pair key, both
    #      being lowest-id pairs of samples of a partial chain (premise holds by construction of the draw)
    import random as _random
    r2 = _random.Random(ctx.seed * 1000003 + 16)
    cicases = [R.gen_colliding_id_room(r2, k=[4, 4, 3, 5, 6, 7, 8][q % 7]) for q in range(ctx.scale(4, 42) * (2 if deep else 1))]
    for case, (j, pr) in zip(cicases, _run_rooms(cicases, False)):
        n += 1
        _count_premise(prem, 'colliding_ids', pr, j)
        if j and not any(x['class'] == j[0] for x in failures):
            failures.append(_room_failure(case, j, 'room'))
    # ---- rooms with IPPE replaced by the exact pose: everything after IPPE must be right, without exception
    n_exact = ctx.scale(120, 1500) * (3 if deep else 1)
    ecases = [R.gen_room(ctx.rng) for _ in range(n_exact)]
    ecases = [c if q % 2 else R.relabel_ids(c, R.wide_ids(r2, len(c['bs']))) for q, c in enumerate(ecases)]
    for case, (j, _pr) in zip(ecases, _run_rooms(ecases, True)):
        n += 1
        if j and not any(x['class'] == j[0] for x in failures):
            failures.append(_room_failure(case, j, 'room_exact'))
    # ---- the sampled clause itself: unpatched pipeline on random rooms of the envelope
    n_rooms = ctx.scale(40, 400) * (3 if deep else 1)
    cases = [R.gen_room(ctx.rng) for _ in range(n_rooms)]
    cases = [c if q % 2 else R.relabel_ids(c, R.wide_ids(r2, len(c['bs']))) for q, c in enumerate(cases)]
    n_known = 0
    modes = {}
    for case, (j, pr) in zip(cases, _run_rooms(cases, False)):
        n += 1
        _count_premise(prem, 'random', pr, j)
        modes[case['mode']] = modes.get(case['mode'], 0) + 1
        if j:
            if j[0] in KNOWN_RATE_CLASSES:
                n_known += 1
            if not any(x['class'] == j[0] for x in failures):
                failures.append(_room_failure(case, j, 'room'))
    limit = max(6, (n_rooms * 8) // 100)
    if n_known >= limit:
        failures.append({'class': 'mirror_failure_rate_excessive', 'case': {'kind': 'rate', 'rooms': n_rooms,
                         'seed': ctx.seed, 'tier': ctx.tier}, 'expected': 'fewer than %d of %d rooms' % (limit, n_rooms),
                         'observed': '%d rooms fail with a known mirror-ambiguity class' % n_known,
                         'detail': 'the known findings F09b-d occur in about 1.5 % of rooms; this run is far above'})
    samples.append({'room': {'stations': sorted(int(b) for b in cases[0]['bs']), 'poses': len(cases[0]['cf']),
                             'mode': cases[0]['mode'], 'vis': cases[0]['vis'][:3]}})
    return {'evaluations': n, 'failures': failures,
            'distinct_nontrivial': len(cases) + len(ecases) + len(sxcases) + len(sucases),
            'rule': 'rooms: every generated room counts (2..6 stations, 3..40 poses, distinct random geometry); '
                    'decision premise on the unpatched rooms of this run: ' + json.dumps(prem, sort_keys=True),
            'samples': samples,
            'distribution': {'rooms': n_rooms, 'rooms_exact_ippe': n_exact, 'modes': modes,
                             'known_class_failures': n_known, 'structured_rooms_exact_ippe': n_sx,
                             'structured_rooms': n_su, 'structured_known_class_failures': su_known,
                             'average_cases': len(acases), 'reuse_histories': len(rcases), 'sparse_link_rooms': len(spcases), 'colliding_id_rooms': len(cicases),
                             'rooms_relabelled_with_wide_ids': (len(cases) + 1) // 2 + (len(ecases) + 1) // 2, 'decision_premise': prem, 'overlapping_call_histories': len(ocases)}}


def replay(payload, ctx):
    case = payload.get('case') or {}
    if case.get('kind') == 'rate':
        ctx2 = type(ctx)(ctx.prop, case.get('tier', 'quick'), case.get('seed', 0))
        r = oracle(ctx2)
        for f in r['failures']:
            if f['class'] == 'mirror_failure_rate_excessive':
                return f
        return None
    f = _check_case(case, ctx)
    if f:
        # a stored case that now falls under a known finding (e.g. after its classification was made precise) is not a
        # violation of the check
        from core import runner
        known = {k.get('input_class'): k for k in runner.load_known()
                 if k.get('property') == ID and k.get('status') == 'known'}
        if f.get('class') in known:
            print('KNOWN-FINDING: property=%s %s [%s] (replayed case)' % (ID, known[f['class']].get('id'), f['class']))
            return None
    return f
