"""C11 — the table cache never yields a wrong table, even after a crash.

Tie (V+E): the real TocCache on temporary directories (under /verif/.build) is driven through histories of
inserts, inserts cut short at a byte offset, restarts with every combination of read-only/read-write
directory, and fetches; every fetch result and the directory contents are compared with C11/Model.v
evaluated by vm_compute (file contents instantiated as "table + complete flag").  The JSON hypothesis of the
theorems (a complete file parses back to what was written; EVERY proper prefix fails to parse) is validated
exhaustively: each generated cache file is truncated at every byte offset and fetched with the real code.
Oracle: the property text on the real TocCache / TocFetcher / Log / Param stack.
"""
import json
import logging
import os
import shutil
import tempfile

from core import coqrun
from fakes import c03_toc as fk
from props import c03

logging.getLogger('cflib').setLevel(logging.ERROR)   # cache misses are logged as warnings

ID = 'C11'
PROPERTY_FILE = 'C11/Property.v'
LEVEL = 'proof'
ALLOWED_AXIOMS = ()
TRUSTED_BASE = [
    'C11/Model.v is hand-written from toccache.py; tied on every run by differential evaluation of operation '
    'histories against the real TocCache on temporary directories',
    'file system modelled as two listings name -> content; a crash leaves a prefix of the intended content '
    '(open(..., "w") truncates first, a single write follows)',
    'paths: only the file name is modelled (a 13-character suffix match cannot span the "/" of the directory)',
]
ASSUMPTIONS = [
    'json_ok: json.load(json.dumps(table)) gives the table back and every proper prefix of the written text fails '
    'to parse — hypothesis of the theorems, validated for every generated file at EVERY byte offset on CPython',
    'cache directories contain only files written by TocCache.insert, complete or cut short (fs_ok); foreign files '
    'are exercised by the tie and the oracle only',
    'eval() of a __class__ string other than the two element class names is outside the model',
    'CRC collisions between two different tables of the SAME element class are inherent to the cache design and '
    'outside the property as modelled',
]
PROVED = ('For all histories of inserts, crashes at any byte, restarts with any directory combination: ro directory '
          'unchanged; a fetch either misses or returns entry-for-entry the table completely stored in the file named by '
          'exactly that CRC; truncated/missing files are misses; decoder inverts encoder for both classes; file names '
          'are injective in the CRC; a table of the other element class is a miss (after fix F11); composed with C03: '
          'on any miss the download yields exactly the device table.')
NOT_PROVED = ('JSON text syntax itself (hypothesis, validated exhaustively per file); operating-system behaviour of a '
              'crash beyond "a prefix remains"; collisions within one element class.')

BUILD = os.path.join(coqrun.VERIF, '.build')

HEADER = c03.HEADER.replace('C03.Model.', 'C03.Model C03.ExtModel C11.Model.') + '''
Definition TC := (toc * bool)%type.
Definition tpar (c : TC) : option jdoc := if snd c then Some (jdoc_of (fst c)) else None.
Inductive top := TInsert (crc : Z) (t : toc) | TCrash (crc : Z) (t : toc) | TReopen (a b : bool) | TFetch (crc : Z)
  | TDelete (crc : Z) | TBlock (crc : Z).
Definition dremove {V} (k : list Z) (d : list (list Z * V)) := filter (fun kv => negb (zlist_eqb k (fst kv))) d.
Definition enc_fs (fs : fsys TC) : list Z :=
  flat_map (fun nc => lenc (fst nc) ++ [b2n (snd (snd nc))]) (rw_files fs) ++ [-5]
  ++ flat_map (fun nc => lenc (fst nc) ++ [b2n (snd (snd nc))]) (ro_files fs).
Fixpoint trun (st : cstate) (fs : fsys TC) (ops : list top) : list Z :=
  match ops with
  | [] => enc_fs fs
  | TInsert c t :: r => let '(st', fs') := cinsert st fs c (t, true) in trun st' fs' r
  | TCrash c t :: r => trun st (if c_rw st then cwrite fs c (t, false) else fs) r
  | TReopen a b :: r => trun (cinit a b fs) fs r
  | TFetch c :: r => enc_lres (cfetch tpar st fs c) ++ trun st fs r
  (* the file system changes under a long-lived TocCache object: the file is deleted / replaced by something unreadable *)
  | TDelete c :: r => trun st (mkFs (ro_files fs) (dremove (cache_name c) (rw_files fs))) r
  | TBlock c :: r => trun st (cwrite fs c ([], false)) r
  end.
'''


def mkdtemp():
    os.makedirs(BUILD, exist_ok=True)
    return tempfile.mkdtemp(prefix='c11_', dir=BUILD)


def gen_table(rng, n=None, cls=None):
    cls = cls or rng.choice(['log', 'param'])
    n = rng.choice([0, 1, 2, 3, 5, 8]) if n is None else n
    items = c03.gen_items(rng, cls, n, True)
    ids = list(range(n)) if rng.random() < 0.7 else rng.sample(range(65536), n)
    es = [c03.spec_elem(cls, i, it) for i, it in zip(ids, items)]
    for e in es:
        if cls == 'param' and rng.random() < 0.3:
            e['persistent'] = True              # not stored: must come back False
    return c03.toc_lists(es)


def enc_fetch(r):
    if r is None:
        return [0]
    if isinstance(r, dict) and all(isinstance(d, dict) and all(type(e).__name__ in ('LogTocElement', 'ParamTocElement')
                                                               for e in d.values()) for d in r.values()):
        return [1] + c03.enc_toc(r)
    return [2]


def reload_lists(t):
    return [(g, [(n, dict(e, persistent=False, extended=e['extended'] if e['cls'] == 'param' else False)) for n, e in d])
            for g, d in t]


def full_text(t, crc):
    """the bytes the real insert writes for table t"""
    from cflib.crazyflie.toccache import TocCache
    d = mkdtemp()
    try:
        TocCache(rw_cache=d).insert(crc, c03.mk_toc_obj(t))
        with open(os.path.join(d, '%08X.json' % crc), 'rb') as f:
            return f.read()
    finally:
        shutil.rmtree(d, ignore_errors=True)


class RoGuard:
    """snapshot of a read-only cache directory (names, kind, size, bytes, mtime) taken when the harness is done
    preparing it; `diff()` afterwards describes removed / added / changed entries, or None"""

    def __init__(self, d):
        self.d = d
        self.before = self._snap()

    def _snap(self):
        out = {}
        if os.path.isdir(self.d):
            for fn in sorted(os.listdir(self.d)):
                p = os.path.join(self.d, fn)
                st = os.lstat(p)
                if os.path.isdir(p):
                    out[fn] = ('dir', None, st.st_mtime_ns)
                else:
                    try:
                        with open(p, 'rb') as f:
                            data = f.read()
                    except OSError:
                        data = None
                    out[fn] = ('file', data, st.st_mtime_ns)
        return out

    def diff(self):
        after = self._snap()
        removed = sorted(set(self.before) - set(after))
        added = sorted(set(after) - set(self.before))
        changed = sorted(k for k in set(after) & set(self.before) if after[k] != self.before[k])
        if removed or added or changed:
            return 'read-only directory modified: removed %r, added %r, changed %r' % (removed, added, changed)
        return None


def ro_failure(case, detail):
    return {'class': 'read_only_cache_dir_modified', 'case': case, 'detail': detail, 'observed': detail,
            'expected': 'the read-only cache directory is never written: same names, bytes and modification times'}


def snapshot(d):
    out = {}
    if os.path.isdir(d):
        for fn in sorted(os.listdir(d)):
            with open(os.path.join(d, fn), 'rb') as f:
                out[fn] = f.read()
    return out


class World:
    """Two directories and a real TocCache; mirrors the op language of the model."""

    def __init__(self, ro_init):
        self.root = mkdtemp()
        self.ro = os.path.join(self.root, 'ro')
        self.rw = os.path.join(self.root, 'rw')
        os.makedirs(self.ro)
        os.makedirs(self.rw)
        self.ro_model = []
        for name, t, complete, crc in ro_init:
            txt = full_text(t, crc)
            if not complete:
                txt = txt[:len(txt) // 2]
            with open(os.path.join(self.ro, name), 'wb') as f:
                f.write(txt)
            self.ro_model.append((name, t, complete))
        self.rw_order = []
        self.rw_complete = {}
        self.cache = None
        self.has_rw = False

    def reopen(self, a, b):
        from cflib.crazyflie.toccache import TocCache
        self.cache = TocCache(ro_cache=self.ro if a else None, rw_cache=self.rw if b else None)
        self.has_rw = b

    def insert(self, crc, t):
        self.cache.insert(crc, c03.mk_toc_obj(t))
        if self.has_rw:
            self._note(crc, True)

    def crash(self, crc, t, k=None, rng=None):
        if not self.has_rw:
            return
        txt = full_text(t, crc)
        k = rng.randrange(0, len(txt)) if k is None else min(k, len(txt) - 1)
        with open(os.path.join(self.rw, '%08X.json' % crc), 'wb') as f:
            f.write(txt[:k])
        self._note(crc, False)

    def _note(self, crc, complete):
        nm = '%08X.json' % crc
        if nm not in self.rw_order:
            self.rw_order.append(nm)
        self.rw_complete[nm] = complete

    def fetch(self, crc):
        return self.cache.fetch(crc)

    def delete(self, crc):
        nm = '%08X.json' % crc
        p = os.path.join(self.rw, nm)
        if os.path.isdir(p):
            os.rmdir(p)
        elif os.path.exists(p):
            os.remove(p)
        if nm in self.rw_order:
            self.rw_order.remove(nm)
            del self.rw_complete[nm]

    def block(self, crc):
        """replace the file by something that cannot be read as a file: a directory of that name"""
        p = os.path.join(self.rw, '%08X.json' % crc)
        if os.path.isfile(p):
            os.remove(p)
        if not os.path.isdir(p):
            os.makedirs(p)
        self._note(crc, False)                  # keeps its place in the listing, like dset in the model

    def enc_fs(self):
        out = []
        for nm in self.rw_order:
            out += c03.lenc(c03.codes(nm)) + [1 if self.rw_complete[nm] else 0]
        out += [-5]
        for nm, t, complete in self.ro_model:
            out += c03.lenc(c03.codes(nm)) + [1 if complete else 0]
        return out

    def close(self):
        shutil.rmtree(self.root, ignore_errors=True)


def q_name(nm):
    return coqrun.zlist(c03.codes(nm))


def gen_history(rng):
    crcs = [rng.getrandbits(32) | (0x80000000 if rng.random() < 0.5 else 0) for _ in range(2)] + [rng.choice([0, 1, 0xFFFFFFFF, 0x80000000, 0x0000ABCD, 0xABCD0000])]
    crcs.append(((1 << 32) - crcs[0]) & 0xFFFFFFFF)                     # the negated partner
    crcs.append(crcs[0] ^ (1 << rng.randrange(32)))
    crcs.append(crcs[0] & ((1 << (4 * rng.randint(1, 7))) - 1))      # hex digits are a suffix of crcs[0]'s
    ro_init = []
    for _ in range(rng.choice([0, 0, 1, 2])):
        c = rng.choice(crcs)
        kind = rng.choice(['exact', 'exact', 'cut', 'long', 'lower', 'hidden', 'other_ext'])
        nm = {'exact': '%08X.json' % c, 'cut': '%08X.json' % c, 'long': 'ZZ%08X.json' % c, 'lower': ('%08x.json' % c),
              'hidden': '.%08X.json' % c, 'other_ext': '%08X.jsn' % c}[kind]
        if kind == 'lower' and nm == nm.upper():
            nm = 'a' + nm
        if any(nm == x[0] for x in ro_init) or any(nm.endswith(x[0]) or x[0].endswith(nm) for x in ro_init):
            continue
        ro_init.append((nm, gen_table(rng), kind != 'cut', c))
    ops = [('reopen', rng.random() < 0.7, rng.random() < 0.8)]
    blocked = set()
    for _ in range(rng.randint(3, 12)):
        r = rng.random()
        c = rng.choice(crcs)
        if r < 0.12:
            ops.append(('delete', c))            # the file vanishes under the long-lived cache object
            blocked.discard(c)
            ops.append(('fetch', c))
            continue
        if r < 0.17:
            ops.append(('block', c))
            blocked.add(c)
            ops.append(('fetch', c))
            continue
        if c in blocked:
            ops.append(('fetch', c))
            continue
        if r < 0.3:
            ops.append(('insert', c, gen_table(rng)))
        elif r < 0.45:
            ops.append(('crash', c, gen_table(rng)))
            ops.append(('reopen', rng.random() < 0.7, rng.random() < 0.8))
        elif r < 0.55:
            ops.append(('reopen', rng.random() < 0.6, rng.random() < 0.7))
        else:
            ops.append(('fetch', c))
    for c in crcs:
        ops.append(('fetch', c))
    return ro_init, ops


def run_history(ro_init, ops, rng):
    w = World(ro_init)
    try:
        before = snapshot(w.ro)
        obs = []
        for op in ops:
            if op[0] == 'reopen':
                w.reopen(op[1], op[2])
            elif op[0] == 'insert':
                w.insert(op[1], op[2])
            elif op[0] == 'crash':
                w.crash(op[1], op[2], rng=rng)
            elif op[0] == 'delete':
                w.delete(op[1])
            elif op[0] == 'block':
                w.block(op[1])
            else:
                try:
                    obs += enc_fetch(w.fetch(op[1]))
                except Exception as e:  # noqa   fetch must never raise
                    obs += [9, c03.EXN.get(type(e).__name__, 99)]
        obs += w.enc_fs()
        extra = None
        if snapshot(w.ro) != before:
            extra = 'read-only directory changed'
        if set(os.listdir(w.rw)) != set(w.rw_order):
            extra = 'read-write directory holds %r, expected %r' % (sorted(os.listdir(w.rw)), sorted(w.rw_order))
        return obs, extra
    finally:
        w.close()


def model_history_term(ro_init, ops):
    ro = '[' + '; '.join('(%s, (%s, %s))' % (q_name(nm), c03.q_toc(t), coqrun.coq_bool(cp)) for nm, t, cp, _ in ro_init) + ']'
    qs = []
    for op in ops:
        if op[0] == 'reopen':
            qs.append('TReopen %s %s' % (coqrun.coq_bool(op[1]), coqrun.coq_bool(op[2])))
        elif op[0] == 'insert':
            qs.append('TInsert %d %s' % (op[1], c03.q_toc(op[2])))
        elif op[0] == 'crash':
            qs.append('TCrash %d %s' % (op[1], c03.q_toc(op[2])))
        elif op[0] == 'delete':
            qs.append('TDelete %d' % op[1])
        elif op[0] == 'block':
            qs.append('TBlock %d' % op[1])
        else:
            qs.append('TFetch %d' % op[1])
    return 'trun (mkC [] false) (mkFs %s []) [%s]' % (ro, '; '.join(qs))


def truncation_sweep(t, crc, fails, cls_hint='every_prefix'):
    """E-part: every proper prefix of the file the real insert writes must be a miss; the complete file must
    give the table back.  Returns number of fetches."""
    from cflib.crazyflie.toccache import TocCache
    txt = full_text(t, crc)
    d = mkdtemp()
    n = 0
    try:
        p = os.path.join(d, '%08X.json' % crc)
        with open(p, 'wb') as f:
            f.write(txt)
        cache = TocCache(rw_cache=d)
        got = cache.fetch(crc)
        n += 1
        want = [1] + c03.enc_toc(c03.mk_toc_obj(reload_lists(t)))
        if '__class__' in [g.decode('latin-1') for g, _ in t] + [nm.decode('latin-1') for _, dd in t for nm, _ in dd]:
            want = [0]
        if enc_fetch(got) != want:
            fails.append({'class': 'loaded_differs_from_stored', 'case': {'kind': 'roundtrip', 'table': tjson(t), 'crc': crc},
                          'expected': 'stored table', 'observed': repr(got)[:300]})
        for k in range(len(txt) - 1, -1, -1):          # shrink in place: every proper prefix, longest first
            if not os.path.exists(p):                   # a fetch may have removed the unusable rw file: put it back
                with open(p, 'wb') as f:
                    f.write(txt)
            os.truncate(p, k)
            r = cache.fetch(crc)
            n += 1
            if r is not None:
                fails.append({'class': 'truncated_file_not_a_miss', 'case': {'kind': 'truncate', 'table': tjson(t), 'crc': crc, 'k': k},
                              'expected': None, 'observed': repr(r)[:300],
                              'detail': 'file cut at byte %d of %d is not treated as a miss' % (k, len(txt))})
                break
    finally:
        shutil.rmtree(d, ignore_errors=True)
    return n


def tjson(t):
    return [[list(g), [[list(n), dict(e, group=list(e['group']), name=list(e['name']))] for n, e in d]] for g, d in t]


def tunjson(j):
    return [(bytes(g), [(bytes(n), dict(e, group=bytes(e['group']), name=bytes(e['name']))) for n, e in d]) for g, d in j]


def tie(ctx):
    rng = ctx.rng
    dis = []
    dist = {'histories': 0, 'ops': {}, 'truncation_files': 0, 'truncation_fetches': 0}
    terms, exp, hs = [], [], []
    nontriv = 0
    keys = set()
    for _ in range(ctx.scale(150, 1500)):
        ro_init, ops = gen_history(rng)
        obs, extra = run_history(ro_init, ops, rng)
        if extra:
            dis.append({'what': 'TocCache history: ' + extra, 'ops': repr(ops)[:800]})
        terms.append(model_history_term(ro_init, ops))
        exp.append(obs)
        hs.append((ro_init, ops))
        dist['histories'] += 1
        for op in ops:
            dist['ops'][op[0]] = dist['ops'].get(op[0], 0) + 1
        k = repr((ro_init, ops))
        if k not in keys:
            keys.add(k)
            kinds = set(op[0] for op in ops)
            if 'fetch' in kinds and ('crash' in kinds or ro_init) and 'insert' in kinds:
                nontriv += 1
    for bi, mv in c03.compare_blocks(HEADER, terms, exp, tag='c11h', shard=max(2, len(terms) // 14 + 1)):
        first = None
        if mv is not None:
            for k in range(max(len(mv), len(exp[bi]))):
                if k >= len(mv) or k >= len(exp[bi]) or mv[k] != exp[bi][k]:
                    first = k
                    break
        dis.append({'what': 'TocCache history: model and implementation differ', 'ro_init': repr(hs[bi][0])[:400],
                    'ops': repr(hs[bi][1])[:1200], 'first_diff_at': first,
                    'model': None if mv is None or first is None else mv[max(0, first - 5):first + 5],
                    'impl': None if first is None else exp[bi][max(0, first - 5):first + 5]})
        if len(dis) > 4:
            break
    # E: exhaustive truncation per generated file (validates the JSON hypothesis on this CPython)
    fails = []
    sweep = [gen_table(rng) for _ in range(ctx.scale(40, 300))] + [gen_table(rng, n=20, cls='param'), gen_table(rng, n=0), []]
    for t in sweep:
        n = truncation_sweep(t, rng.getrandbits(32), fails)
        dist['truncation_files'] += 1
        dist['truncation_fetches'] += n
    dist['json_extra_data_fetches'] = json_extra_sweep(rng, fails, ctx.scale(6, 40))
    for f in fails[:3]:
        dis.append({'what': 'JSON hypothesis / round trip does not hold on the real code: ' + f['class'], 'case': f['case'],
                    'observed': f.get('observed')})
    n_conc = tie_concurrent(ctx, dist, dis) + tie_holder(ctx, dist, dis) + tie_missing_fields(ctx, dist, dis)
    return {
        'evaluations': len(terms) + dist['truncation_fetches'] + n_conc + dist['json_extra_data_fetches'],
        'distinct_nontrivial': nontriv + dist['truncation_fetches'] - dist['truncation_files'],
        'rule': 'histories: distinct op sequences containing an insert, a fetch and a crash or a pre-populated read-only '
                'file; truncations: every proper prefix of every generated cache file (each is a distinct crash point)',
        'samples': [{'ops': repr(hs[0][1])[:500]}],
        'distribution': dist,
        'exhaustive': False,
        'disagreements': dis,
    }


# ------------------------------------------------------------------ concurrent writers (swarm)

import threading

_tl = threading.local()


class _Gate:
    """Deterministic gate: writer threads stop before every file-system call of TocCache.insert (open for
    writing, write, close, os.replace/rename); the driver lets exactly one of them perform exactly one call."""

    def __init__(self):
        self.cv = threading.Condition()
        self.turn = None
        self.waiting = set()
        self.finished = set()

    def point(self, wid):
        with self.cv:
            self.waiting.add(wid)
            self.cv.notify_all()
            while self.turn != wid:
                if not self.cv.wait(20):
                    raise RuntimeError('gate timeout')
            self.turn = None
            self.waiting.discard(wid)
            self.cv.notify_all()

    def done(self, wid):
        with self.cv:
            self.finished.add(wid)
            self.cv.notify_all()

    def step(self, wid):
        """let writer wid perform its next call; False if it has already finished"""
        with self.cv:
            while wid not in self.waiting and wid not in self.finished:
                if not self.cv.wait(20):
                    raise RuntimeError('driver timeout (arrival)')
            if wid in self.finished:
                return False
            self.turn = wid
            self.cv.notify_all()
            while not (self.turn is None and (wid in self.waiting or wid in self.finished)):
                if not self.cv.wait(20):
                    raise RuntimeError('driver timeout (completion)')
            return True


class _GFile:
    def __init__(self, f, wid, gate):
        self._f, self._wid, self._gate = f, wid, gate

    def write(self, data):
        self._gate.point(self._wid)
        r = self._f.write(data)
        self._f.flush()                  # the write reaches the file at this step (granularity of the model)
        return r

    def close(self):
        self._gate.point(self._wid)
        self._f.close()

    def __enter__(self):
        return self

    def __exit__(self, *a):
        self.close()

    def __getattr__(self, n):
        return getattr(self._f, n)


class _OsProxy:
    def __init__(self, gate):
        self._gate = gate

    def __getattr__(self, n):
        return getattr(os, n)

    def _gated(self, fn, *a, **k):
        wid = getattr(_tl, 'wid', None)
        if wid is not None:
            self._gate.point(wid)
        return fn(*a, **k)

    def replace(self, *a, **k):
        return self._gated(os.replace, *a, **k)

    def rename(self, *a, **k):
        return self._gated(os.rename, *a, **k)


def run_concurrent(jobs, sched, check_each_step=True):
    """jobs: [(crc, table-as-lists)], one TocCache object and one thread per job, all on ONE rw directory;
    sched: list of writer indexes, each entry = one file-system call of that writer's insert.
    Returns (created file names in creation order, {name: bytes}, first property failure or None)."""
    import builtins
    import cflib.crazyflie.toccache as tc
    root = mkdtemp()
    gate = _Gate()
    created = []

    def gated_open(path, mode='r', *a, **k):
        wid = getattr(_tl, 'wid', None)
        if wid is None or 'w' not in mode:
            return builtins.open(path, mode, *a, **k)
        gate.point(wid)
        if not os.path.exists(path):
            created.append(os.path.basename(path))
        return _GFile(builtins.open(path, mode, *a, **k), wid, gate)
    stored = {}
    for c, t in jobs:
        stored.setdefault(c, []).append([1] + c03.enc_toc(c03.mk_toc_obj(reload_lists(t))) if t else [1, 0])
    fail = [None]

    def check(where):
        if fail[0] is not None:
            return
        for c in stored:
            got = enc_fetch(tc.TocCache(rw_cache=root).fetch(c))
            if got != [0] and got not in stored[c]:
                fail[0] = 'fetch(0x%08X) %s returns a table that was not stored under that checksum' % (c, where)
                return
    tc.open = gated_open
    tc.os = _OsProxy(gate)
    threads = []
    try:
        caches = [tc.TocCache(rw_cache=root) for _ in jobs]

        def work(wid):
            _tl.wid = wid
            try:
                caches[wid].insert(jobs[wid][0], c03.mk_toc_obj(jobs[wid][1]))
            finally:
                _tl.wid = None
                gate.done(wid)
        for wid in range(len(jobs)):
            th = threading.Thread(target=work, args=(wid,), daemon=True)
            threads.append(th)
            th.start()
        for k, wid in enumerate(list(sched) + [w for w in range(len(jobs)) for _ in range(6)]):
            if gate.step(wid) and check_each_step and k < len(sched):
                check('after step %d (writer %d)' % (k, wid))
        for th in threads:
            th.join(20)
        check('after all inserts completed')
        files = {}
        for fn in sorted(os.listdir(root)):
            with builtins.open(os.path.join(root, fn), 'rb') as f:
                files[fn] = f.read()
        return created, files, fail[0]
    finally:
        try:
            del tc.open
        except AttributeError:
            pass
        tc.os = os
        shutil.rmtree(root, ignore_errors=True)


def gen_concurrent(rng):
    nw = rng.choice([2, 2, 3, 4])
    crcs = [rng.getrandbits(32) for _ in range(nw)]
    jobs = []
    shared = gen_table(rng, n=rng.choice([1, 2, 3]), cls='log')
    for w in range(nw):
        r = rng.random()
        if w and r < 0.15:
            jobs.append((jobs[0][0], jobs[0][1]))                 # same checksum, same table (two drones, same firmware)
        elif w and r < 0.25:
            jobs.append((jobs[0][0], gen_table(rng, n=rng.choice([1, 2, 4]), cls=rng.choice(['log', 'param']))))
        else:
            jobs.append((crcs[w], gen_table(rng, n=rng.choice([1, 2, 3, 5]), cls=rng.choice(['log', 'log', 'param']))
                         if rng.random() < 0.8 else shared))
    kind = rng.choice(['random', 'random', 'nested', 'nested', 'roundrobin'])
    if kind == 'random':
        sched = [w for w in range(nw) for _ in range(4)]
        rng.shuffle(sched)
    elif kind == 'roundrobin':
        sched = [w for _ in range(4) for w in range(nw)]
    else:
        # one writer has opened its file, the others run to completion, then it continues
        first = rng.randrange(nw)
        others = [w for w in range(nw) if w != first]
        rng.shuffle(others)
        sched = [first] * rng.choice([1, 1, 2]) + [w for w in others for _ in range(4)] + [first] * 4
    return jobs, sched


def concurrent_case(case):
    jobs = [(c, tunjson(t)) for c, t in case['jobs']]
    created, files, bad = run_concurrent(jobs, case['sched'])
    if bad:
        return {'class': 'concurrent_inserts_put_a_table_under_another_crc', 'case': case, 'observed': bad, 'detail': bad,
                'expected': 'every fetch is a miss or a table stored under that checksum'}
    return None


HEADER_C = HEADER.replace('C11.Model.', 'C11.Model C11.Conc.')


def tie_concurrent(ctx, dist, dis):
    rng = ctx.rng
    terms, exp, cs = [], [], []
    for _ in range(ctx.scale(24, 200)):
        jobs, sched = gen_concurrent(rng)
        created, files, bad = run_concurrent(jobs, sched, check_each_step=False)
        texts = [full_text(t, c) for c, t in jobs]
        obs = []
        for nm in created:
            obs += c03.lenc(c03.codes(nm)) + (c03.lenc(list(files[nm])) if nm in files else [-1])
        if set(created) != set(files):
            dis.append({'what': 'concurrent inserts: directory holds %r, files created through open(): %r' % (sorted(files), created),
                        'sched': sched})
        terms.append('enc_cfs (snd (wrun [%s] [%s]))' % ('; '.join('mkW %d %s' % (c, coqrun.zlist(list(tx))) for (c, _), tx in zip(jobs, texts)),
                                                         '; '.join('%d%%nat' % w for w in sched + [w for w in range(len(jobs)) for _ in range(6)])))
        exp.append(obs)
        cs.append((jobs, sched))
        dist['concurrent_histories'] = dist.get('concurrent_histories', 0) + 1
    for bi, mv in c03.compare_blocks(HEADER_C, terms, exp, tag='c11c', shard=max(2, len(terms) // 12 + 1)):
        dis.append({'what': 'concurrent inserts: files after the interleaving differ between model and implementation',
                    'crcs': ['%08X' % c for c, _ in cs[bi][0]], 'sched': cs[bi][1],
                    'model_len': None if mv is None else len(mv), 'impl_len': len(exp[bi])})
        if len(dis) > 6:
            break
    return len(terms)


def json_extra_sweep(rng, fails, pairs):
    """hypotheses of C11_concurrent_writers_isolated on this CPython: a complete text followed by the tail of
    another text is not a loadable file; texts end with the closing brace"""
    from cflib.crazyflie.toccache import TocCache
    n = 0
    d = mkdtemp()
    try:
        for _ in range(pairs):
            crc = rng.getrandbits(32)
            t1, t2 = gen_table(rng, n=rng.choice([0, 1, 2])), gen_table(rng, n=rng.choice([1, 2, 3]))
            x1, x2 = full_text(t1, crc), full_text(t2, crc)
            if not (x1.endswith(b'}') and x2.endswith(b'}')):
                fails.append({'class': 'json_text_does_not_end_with_brace', 'case': {'kind': 'roundtrip', 'table': tjson(t1), 'crc': crc}})
            p = os.path.join(d, '%08X.json' % crc)
            cache = None
            for k in sorted(set([0, 1, len(x2) - 1, len(x2) - 2] + [rng.randrange(len(x2)) for _ in range(25)])):
                with open(p, 'wb') as f:
                    f.write(x1 + x2[k:])
                cache = cache or TocCache(rw_cache=d)
                n += 1
                if cache.fetch(crc) is not None:
                    fails.append({'class': 'text_with_trailing_data_is_loaded', 'case': {'kind': 'extra', 'k': k, 'crc': crc,
                                                                                        'table': tjson(t1), 'table2': tjson(t2)}})
                    break
            os.remove(p)
    finally:
        shutil.rmtree(d, ignore_errors=True)
    return n


# ------------------------------------------------------------------ structurally valid JSON with missing fields

FIELD_KEYS = ['__class__', 'ident', 'group', 'name', 'ctype', 'pytype', 'access', 'extended']
K_COQ = {'__class__': 'k_class', 'ident': 'k_ident', 'group': 'k_group', 'name': 'k_name', 'ctype': 'k_ctype',
         'pytype': 'k_pytype', 'access': 'k_access', 'extended': 'k_extended'}


def text_without(t, crc, key, which):
    """the text the real insert writes for table t, with `key` removed from the first element object or from all"""
    doc = json.loads(full_text(t, crc).decode('ascii'))
    first = True
    for g in doc.values():
        for e in g.values():
            if which == 'all' or first:
                e.pop(key, None)
            first = False
    return json.dumps(doc, indent=2).encode('ascii')


HEADER_D = HEADER + """
Definition dremove_key (k : list Z) (f : jfields) : jfields := filter (fun kv => negb (zlist_eqb k (fst kv))) f.
Definition drop_all (k : list Z) (d : jdoc) : jdoc :=
  map (fun gd => (fst gd, map (fun nf => (fst nf, dremove_key k (snd nf))) (snd gd))) d.
Definition drop_first (k : list Z) (d : jdoc) : jdoc :=
  match d with
  | (g, (n, f) :: gr) :: r => (g, (n, dremove_key k f) :: gr) :: r
  | _ => d
  end.
"""


def tie_missing_fields(ctx, dist, dis):
    """the decoder + object hook on files in which a field is missing from one / all element objects: every key,
    both classes, file in the rw or in the ro directory; real TocCache.fetch against `load`"""
    from cflib.crazyflie.toccache import TocCache
    rng = ctx.rng
    terms, exp, cs = [], [], []
    for rep in range(ctx.scale(2, 12)):
        for cls in ('log', 'param'):
            t = gen_table(rng, n=rng.choice([1, 2, 3]), cls=cls)
            for key in FIELD_KEYS:
                for which in ('first', 'all'):
                    crc = rng.getrandbits(32)
                    d = mkdtemp()
                    try:
                        with open(os.path.join(d, '%08X.json' % crc), 'wb') as f:
                            f.write(text_without(t, crc, key, which))
                        cache = TocCache(ro_cache=d) if (rep + len(terms)) % 2 else TocCache(rw_cache=d)
                        try:
                            obs = enc_fetch(cache.fetch(crc))
                        except Exception as e:  # noqa
                            obs = [9, c03.EXN.get(type(e).__name__, 99)]
                    finally:
                        shutil.rmtree(d, ignore_errors=True)
                    terms.append('enc_lres (load (drop_%s %s (jdoc_of %s)))' % (which, K_COQ[key], c03.q_toc(t)))
                    exp.append(obs)
                    cs.append((cls, key, which))
    for bi, mv in c03.compare_blocks(HEADER_D, terms, exp, tag='c11d', shard=max(2, len(terms) // 8 + 1)):
        dis.append({'what': 'cache file with a missing field: decoder model and implementation differ', 'class': cs[bi][0],
                    'key': cs[bi][1], 'dropped_from': cs[bi][2], 'model': None if mv is None else mv[:30], 'impl': exp[bi][:30]})
        if len(dis) > 6:
            break
    dist['missing_field_files'] = len(terms)
    return len(terms)


def missing_field_case(case):
    """end to end: a structurally valid cache file with a field missing is there under the checksum the device
    announces (rw or ro directory); after the fetch the table must be exactly the device's (incl. the extended
    marker) — i.e. the file was a miss and the table was downloaded"""
    from cflib.crazyflie.toccache import TocCache
    items = [c03.ditem_unjson(d) for d in case['items']]
    cls, crc = case['cls'], case['crc']
    t = c03.toc_lists([c03.spec_elem(cls, i, it) for i, it in enumerate(items)])
    root = mkdtemp()
    try:
        ro, rw = os.path.join(root, 'ro'), os.path.join(root, 'rw')
        os.makedirs(ro)
        os.makedirs(rw)
        with open(os.path.join(ro if case['where'] == 'ro' else rw, '%08X.json' % crc), 'wb') as f:
            f.write(text_without(t, crc, case['key'], case['which']))
        guard = RoGuard(ro)
        for sess in range(2):
            h, fins, exc, nreq = fetch_through_cache(cls, items, crc, TocCache(ro_cache=ro, rw_cache=rw), case['ver'])
            bad = ('callback raised %r' % (exc[0][1:],)) if exc else ('finished %d times' % fins) if fins != 1 else c03.check_table(cls, items, h)
            if bad:
                return {'class': 'cache_file_with_missing_field_used', 'case': case, 'observed': bad,
                        'detail': 'session %d, file without %r in %s element object(s), %d request(s): %s' % (
                            sess, case['key'], case['which'], nreq, bad),
                        'expected': 'miss, then exactly the device table (extended marker included)'}
        d = guard.diff()
        return ro_failure(case, d) if d else None
    finally:
        shutil.rmtree(root, ignore_errors=True)


def gen_missing_field_cases(rng, count):
    out = []
    k = 0
    while len(out) < count:
        cls = 'param' if k % 3 else 'log'
        key = FIELD_KEYS[k % len(FIELD_KEYS)]
        ver = rng.choice([3, 7])
        items = c03.gen_items(rng, cls, rng.choice([1, 2, 3]), ver >= 4)
        if cls == 'param':
            items[rng.randrange(len(items))]['ext'] = True          # the device announces extended for some entry
        out.append({'kind': 'missing_field', 'cls': cls, 'ver': ver, 'items': [c03.ditem_json(i) for i in items],
                    'crc': rng.getrandbits(32), 'key': key, 'which': 'all' if (k // 8) % 2 else 'first',
                    'where': 'ro' if (k // 3) % 2 else 'rw'})
        k += 1
    return out


# ------------------------------------------------------------------ oracle

GARBAGE = [b'', b'{', b'not json', b'[1, 2]', b'5', b'"x"', b'{"a": 1}', b'{"a": {"b": 1}}', b'{"a": {"b": {"c": 1}}}',
           b'{"g": {"n": {"__class__": "LogTocElement"}}}', b'{"g": {"n": {"__class__": "NoSuchClass", "ident": 0}}}',
           b'\xff\xfe\x00', b'null', b'{"g": [1]}', b'{}', b'[]', b'{ }']


def fetch_through_cache(cls, items, crc, cache, ver=7, holder=None, probes=()):
    """real TocFetcher with the given real TocCache, honest device.  probes: positions at which lookups are made on
    the holder ('pre' before start, 'start' before the INFO reply, 'mid' after every delivered packet).
    Returns (toc, finished count, exceptions, n requests[, first probe mismatch])"""
    from cflib.crazyflie.toc import Toc, TocFetcher
    from cflib.crazyflie.log import LogTocElement
    from cflib.crazyflie.param import ParamTocElement
    port = 5 if cls == 'log' else 2
    tr = []
    cf = fk.FakeCF(ver, tr)
    dev = fk.PyDev(c03.raw_items(cls, items), crc, b'')
    holder = Toc() if holder is None else holder
    bad = []

    def probe(where, k=0):
        if where in probes:
            b = c03.probe_lookups(holder, hints=(0, len(items) - 1), step=k)
            # what a value reply / user code does: by id and by complete name for entries of the device table
            for it in items[:2]:
                holder.get_element_by_complete_name(bytes(it['group']).decode('latin-1').replace('.', '_') + '.'
                                                    + bytes(it['name']).decode('latin-1').replace('.', '_'))
            if b and not bad:
                bad.append('%s (%s)' % (b, where))
    probe('pre')
    f = TocFetcher(cf, LogTocElement if cls == 'log' else ParamTocElement, port, holder, lambda: tr.append(('fin',)), cache)
    f.start()
    probe('start')
    for k in range(len(items) + 3):
        reqs = cf.sent(port, 0)
        if any(t == ('fin',) for t in tr):
            break
        r = dev.reply(ver >= 4, reqs[-1][3])
        if r is None:
            break
        cf.deliver(port, 0, r)
        probe('mid', k + 1)
    res = (holder, sum(1 for t in tr if t == ('fin',)), [t for t in tr if t[0] == 'raised'], len(cf.sent(port, 0)))
    return res + ((bad[0] if bad else None),) if probes else res


def hit_lookup_case(case):
    """download + store, then a NEW session that hits the cache, with lookups on the holder at the given points of
    both sessions, on a fresh holder or on the same Toc object reused after clear(): the loaded table must be the
    stored one through ALL THREE lookup paths (dict, by id for every index, by name / complete name for every entry)"""
    from cflib.crazyflie.toc import Toc
    from cflib.crazyflie.toccache import TocCache
    items = [c03.ditem_unjson(d) for d in case['items']]
    cls, crc, ver = case['cls'], case['crc'], case['ver']
    root = mkdtemp()

    def fail(klass, detail):
        return {'class': klass, 'case': case, 'detail': detail, 'observed': detail,
                'expected': 'loaded table identical to the stored one through every lookup path'}
    try:
        holder = Toc()
        h, fins, exc, nreq, pb = fetch_through_cache(cls, items, crc, TocCache(rw_cache=root), ver, holder, tuple(case['probes1']) or ('none',))
        bad = ('raised %r' % (exc[0][1:],)) if exc else ('finished %d times' % fins) if fins != 1 else pb or c03.check_table(cls, items, h)
        if bad:
            return fail('download_session_wrong', bad)
        guard = RoGuard(root) if case.get('ro') else None
        for sess in range(case.get('sessions', 1)):
            if case['reuse']:
                holder.clear()
            else:
                holder = Toc()
            cache = TocCache(ro_cache=root) if case.get('ro') else TocCache(rw_cache=root)
            h, fins, exc, nreq, pb = fetch_through_cache(cls, items, crc, cache, ver, holder, tuple(case['probes2']) or ('none',))
            if exc:
                return fail('hit_session_raises', 'raised %r' % (exc[0][1:],))
            if fins != 1:
                return fail('hit_session_not_finished_once', 'finished %d times' % fins)
            if items and nreq != 1:
                return fail('stored_table_not_used', 'the stored table was not used: %d requests' % nreq)
            if pb:
                return fail('cached_table_invisible_to_lookups', pb)
            bad = c03.check_table(cls, items, h)
            if bad:
                return fail('cached_table_invisible_to_lookups' if bad.startswith(('get_element', 'lookup')) else 'loaded_differs_from_stored', bad)
            pb = c03.probe_lookups(h, hints=tuple(range(min(len(items), 6))))
            if pb:
                return fail('cached_table_invisible_to_lookups', pb + ' (after the hit)')
        d = guard.diff() if guard else None
        return ro_failure(case, d) if d else None
    finally:
        shutil.rmtree(root, ignore_errors=True)


def gen_hit_lookup_cases(rng, count):
    out = []
    pos = [[], ['pre'], ['start'], ['pre', 'start'], ['mid'], ['start', 'mid'], ['pre', 'start', 'mid']]
    for k in range(count):
        cls = rng.choice(['log', 'param'])
        ver = rng.choice([3, 7])
        items = c03.gen_items(rng, cls, rng.choice([1, 2, 3, 6]), ver >= 4)
        for it in items:
            it['ext'] = False
        out.append({'kind': 'hit_lookup', 'cls': cls, 'ver': ver, 'items': [c03.ditem_json(i) for i in items], 'crc': rng.getrandbits(32),
                    'probes1': pos[k % len(pos)], 'probes2': pos[(k // 2 + 1) % len(pos)], 'reuse': k % 3 != 0, 'ro': k % 4 == 3,
                    'sessions': 1 + (k % 2)})
    return out


def q_hops(ops):
    out = []
    for o in ops:
        if o[0] == 'add':
            out.append('OAdd %s' % c03.q_elem(o[1]))
        elif o[0] == 'clear':
            out.append('OClear')
        elif o[0] == 'install':
            out.append('OInstall %s' % c03.q_toc(o[1]))
        elif o[0] == 'id':
            out.append('OById %s' % coqrun.z(o[1]))
        elif o[0] == 'gn':
            out.append('OByName %s %s' % (c03.q_str(o[1]), c03.q_str(o[2])))
        else:
            out.append('OByCN %s' % c03.q_str(o[1]))
    return '[' + '; '.join(out) + ']'


def run_holder(ops):
    """the real Toc object under a history of add_element / clear / `toc.toc = table` / lookups"""
    from cflib.crazyflie.toc import Toc
    t = Toc()
    ans = []
    for o in ops:
        if o[0] == 'add':
            t.add_element(c03.mk_elem_obj(o[1]))
        elif o[0] == 'clear':
            t.clear()
        elif o[0] == 'install':
            t.toc = c03.mk_toc_obj(o[1])
        else:
            try:
                if o[0] == 'id':
                    e = t.get_element_by_id(o[1])
                elif o[0] == 'gn':
                    e = t.get_element(bytes(o[1]).decode('latin-1'), bytes(o[2]).decode('latin-1'))
                else:
                    e = t.get_element_by_complete_name(bytes(o[1]).decode('latin-1'))
                ans += [0] if e is None else [1] + c03.enc_elem(e)
            except Exception as x:  # noqa
                ans += [2, c03.EXN.get(type(x).__name__, 99)]
    return ans


def gen_holder_ops(rng):
    ops = []
    tabs = [gen_table(rng, n=rng.choice([1, 2, 4])) for _ in range(2)]
    known = [e for t in tabs for _, d in t for _, e in d]
    for _ in range(rng.randint(4, 14)):
        r = rng.random()
        if r < 0.15:
            ops.append(('add', dict(rng.choice(known), persistent=False)))
        elif r < 0.22:
            ops.append(('clear',))
        elif r < 0.4:
            ops.append(('install', rng.choice(tabs + [[]])))
        elif r < 0.65:
            ops.append(('id', rng.choice([0, 1, 2, 3, 65535, rng.choice(known)['ident']])))
        elif r < 0.82:
            e = rng.choice(known)
            ops.append(('gn', e['group'], e['name']) if rng.random() < 0.8 else ('gn', b'no', b'such'))
        else:
            e = rng.choice(known)
            ops.append(('cn', bytes(e['group']) + b'.' + bytes(e['name'])))
    return ops


HEADER_O = HEADER.replace('C11.Model.', 'C11.Model C11.Observers.')


def tie_holder(ctx, dist, dis):
    rng = ctx.rng
    terms, exp, cs = [], [], []
    for _ in range(ctx.scale(50, 500)):
        ops = gen_holder_ops(rng)
        terms.append('enc_answers (snd (hrun [] %s))' % q_hops(ops))
        exp.append(run_holder(ops))
        cs.append(ops)
    for bi, mv in c03.compare_blocks(HEADER_O, terms, exp, tag='c11o', shard=max(2, len(terms) // 10 + 1)):
        dis.append({'what': 'Toc holder under add/clear/install/lookup histories: model (pure observers) and implementation differ',
                    'ops': repr([o[:1] + tuple(x if isinstance(x, int) else '..' for x in o[1:2]) for o in cs[bi]])[:600],
                    'model': None if mv is None else mv[:40], 'impl': exp[bi][:40]})
        if len(dis) > 6:
            break
    dist['holder_histories'] = len(terms)
    return len(terms)


def oracle_garbage(rng, fails):
    """a cache file that is missing, cut, or otherwise not a stored table => treated as a miss: the table is
    downloaded and is the device's; never a wrong table, never a failed fetch"""
    from cflib.crazyflie.toccache import TocCache
    n = 0
    for g in GARBAGE:
        cls = rng.choice(['log', 'param'])
        items = c03.gen_items(rng, cls, rng.choice([1, 2, 3]), True)
        crc = rng.getrandbits(32)
        d = mkdtemp()
        try:
            with open(os.path.join(d, '%08X.json' % crc), 'wb') as f:
                f.write(g)
            n += 1
            holder, fins, exc, nreq = fetch_through_cache(cls, items, crc, TocCache(rw_cache=d))
            bad = None
            if exc:
                bad = 'fetch raised %r' % (exc[0][1:],)
            elif fins != 1:
                bad = 'completion callback fired %d times' % fins
            else:
                bad = c03.check_table(cls, items, holder)
            if bad:
                kl = 'cache_file_not_a_table_installed' if g[:1] in (b'{', b'[', b'5', b'"', b'n') and g not in (b'{', ) else 'garbage_cache_file_breaks_fetch'
                fails.append({'class': kl, 'case': {'kind': 'garbage', 'content': list(g), 'cls': cls,
                                                    'items': [c03.ditem_json(i) for i in items], 'crc': crc},
                              'expected': 'miss, then the device table', 'observed': bad, 'detail': bad})
            else:
                # the download must have replaced the file with a loadable one
                again = TocCache(rw_cache=d).fetch(crc)
                if enc_fetch(again)[0] != 1:
                    fails.append({'class': 'cache_not_rewritten_after_miss', 'case': {'kind': 'garbage', 'content': list(g), 'cls': cls,
                                                                                    'items': [c03.ditem_json(i) for i in items], 'crc': crc},
                                  'expected': 'file rewritten', 'observed': repr(again)[:200]})
        finally:
            shutil.rmtree(d, ignore_errors=True)
    return n


def run_collision(log_items, par_items, crc_log, crc_par, sessions=2, with_rw=True):
    """real Log + Param + TocCache on the fake cf, connected the way Crazyflie does it (log TOC, then param TOC),
    `sessions` times over the same cache directory.  Returns description of the first problem or None."""
    import cflib.crazyflie.param as pm
    from cflib.crazyflie.log import Log
    from cflib.crazyflie.toccache import TocCache
    d = mkdtemp()
    try:
        for s in range(sessions):
            tr = []
            cf = fk.FakeCF(7, tr)
            cache = TocCache(rw_cache=d if with_rw else None)
            log = Log(cf)
            par = pm.Param.__new__(pm.Param)
            par.toc = pm.Toc()
            par.cf = cf
            par._useV2 = True
            ldev = fk.PyDev(c03.raw_items('log', log_items), crc_log)
            pdev = fk.PyDev(c03.raw_items('param', par_items), crc_par)
            done = []
            log.refresh_toc(lambda: done.append('log'), cache)
            cf.deliver(5, 1, bytes([5, 0, 0]))                 # reset ack -> TocFetcher for the log table starts
            for _ in range(len(log_items) + 3):
                if 'log' in done:
                    break
                reqs = cf.sent(5, 0)
                if not reqs:
                    break
                r = ldev.reply(True, reqs[-1][3])
                if r is None:
                    break
                cf.deliver(5, 0, r)
            if 'log' not in done:
                return 'session %d: log table download did not complete (%r)' % (s, [t for t in tr if t[0] == 'raised'][:1])
            par.refresh_toc(lambda: done.append('param'), cache)
            for _ in range(len(par_items) + 3):
                if 'param' in done:
                    break
                reqs = cf.sent(2, 0)
                r = pdev.reply(True, reqs[-1][3])
                if r is None:
                    break
                cf.deliver(2, 0, r)
            exc = [t for t in tr if t[0] == 'raised']
            if 'param' not in done:
                return 'session %d: parameter table never completes: connected would never be signalled (%s)' % (
                    s, exc[0][1:] if exc else 'no exception')
            if exc:
                return 'session %d: callback raised %r' % (s, exc[0][1:])
            bad = c03.check_table('log', log_items, log.toc) or c03.check_table('param', par_items, par.toc)
            if bad:
                return 'session %d: %s' % (s, bad)
        return None
    finally:
        shutil.rmtree(d, ignore_errors=True)


def run_collision_sessions(case):
    """real Log + Param + TocCache on the fake cf, connected as Crazyflie does (log TOC, then param TOC), one session
    per entry of case['sessions'] (each may be another device: its own tables and checksums) over the same rw directory
    and an optional ro directory; files may be planted beforehand (`pre_rw` / `pre_ro`: {crc: text}).  After every session
    both tables must be exactly that device's tables."""
    import cflib.crazyflie.param as pm
    from cflib.crazyflie.log import Log
    from cflib.crazyflie.toccache import TocCache
    root = mkdtemp()
    try:
        rw, ro = os.path.join(root, 'rw'), os.path.join(root, 'ro')
        os.makedirs(rw)
        os.makedirs(ro)
        for d, pre in ((rw, case.get('pre_rw', {})), (ro, case.get('pre_ro', {}))):
            for c, text in pre.items():
                with open(os.path.join(d, '%08X.json' % int(c)), 'w') as f:
                    f.write(text)
        guard = RoGuard(ro)
        for sn, sess in enumerate(case['sessions']):
            li = [c03.ditem_unjson(x) for x in sess['log']]
            pi = [c03.ditem_unjson(x) for x in sess['param']]
            tr = []
            cf = fk.FakeCF(sess.get('ver', 7), tr)
            v2 = sess.get('ver', 7) >= 4
            cache = TocCache(ro_cache=ro if case.get('use_ro', True) else None, rw_cache=rw if case.get('use_rw', True) else None)
            log = Log(cf)
            par = pm.Param.__new__(pm.Param)
            par.toc = pm.Toc()
            par.cf = cf
            par._useV2 = v2
            ldev = fk.PyDev(c03.raw_items('log', li), sess['crc_log'])
            pdev = fk.PyDev(c03.raw_items('param', pi), sess['crc_param'])
            done = []
            order = sess.get('order', 'log_first')

            def fetch_log():
                log.refresh_toc(lambda: done.append('log'), cache)
                cf.deliver(5, 1, bytes([5, 0, 0]))
                for _ in range(len(li) + 3):
                    reqs = cf.sent(5, 0)
                    if 'log' in done or not reqs:
                        break
                    r = ldev.reply(v2, reqs[-1][3])
                    if r is None:
                        break
                    cf.deliver(5, 0, r)

            def fetch_param():
                par.refresh_toc(lambda: done.append('param'), cache)
                for _ in range(len(pi) + 3):
                    reqs = cf.sent(2, 0)
                    if 'param' in done or not reqs:
                        break
                    r = pdev.reply(v2, reqs[-1][3])
                    if r is None:
                        break
                    cf.deliver(2, 0, r)
            for step in ((fetch_log, fetch_param) if order == 'log_first' else (fetch_param, fetch_log)):
                step()
            exc = [t for t in tr if t[0] == 'raised']
            if exc:
                return 'session %d: callback raised %r' % (sn, exc[0][1:])
            if sorted(done) != ['log', 'param']:
                return 'session %d: completions %r' % (sn, done)
            nreq_l, nreq_p = len(cf.sent(5, 0)), len(cf.sent(2, 0))
            bad = c03.check_table('log', li, log.toc)
            if bad:
                return 'session %d: log table (%d requests; from the cache if 1): %s' % (sn, nreq_l, bad)
            bad = c03.check_table('param', pi, par.toc)
            if bad:
                return 'session %d: parameter table (%d requests; from the cache if 1): %s' % (sn, nreq_p, bad)
        return guard.diff()
    finally:
        shutil.rmtree(root, ignore_errors=True)


def collision_empty_case(case):
    bad = run_collision_sessions(case)
    if bad and bad.startswith('read-only directory modified'):
        return ro_failure(case, bad)
    if bad:
        return {'class': 'empty_or_foreign_cached_table_taken_for_the_other_table', 'case': case, 'observed': bad, 'detail': bad,
                'expected': 'a table taken from the cache equals the device table of that class; otherwise it is downloaded'}
    return None


def gen_collision_empty_cases(rng, count):
    """checksum collisions with EMPTY tables on either side, same connection and across sessions/devices, rw and ro
    directories, `{}` / `[]` / `null` files left behind"""
    out = []
    shapes = [('E', 'N'), ('N', 'E'), ('E', 'E'), ('N', 'N')]

    def tabs(shape):
        li = c03.gen_items(rng, 'log', 0 if shape[0] == 'E' else rng.choice([1, 2, 3]), True)
        pi = c03.gen_items(rng, 'param', 0 if shape[1] == 'E' else rng.choice([1, 2, 3]), True)
        for it in pi:
            it['ext'] = False
        return [c03.ditem_json(i) for i in li], [c03.ditem_json(i) for i in pi]
    for k in range(count):
        crc = rng.getrandbits(32)
        pool = [crc, crc, crc ^ (1 << rng.randrange(32))]
        kind = ['same_connection', 'cross_device', 'planted_rw', 'planted_ro', 'cross_device_ro'][k % 5]
        sessions = []
        case = {'kind': 'collision_empty', 'use_ro': True, 'use_rw': True, 'pre_rw': {}, 'pre_ro': {}}
        nsess = 2 if kind in ('same_connection', 'planted_rw', 'planted_ro') else 3
        # a checksum identifies ONE table per class (collisions inside a class are outside the property): remember
        # which table of each class a checksum stands for; collisions happen only ACROSS the two classes
        known = {'log': {}, 'param': {}}
        for sn in range(nsess):
            shape = shapes[(k // 5 + sn) % 4] if kind.startswith('cross') else shapes[(k // 5) % 4]
            if kind.startswith('cross') or sn == 0:
                li, pi = tabs(shape)
                cl, cp = rng.choice(pool), rng.choice(pool)
                li = known['log'].setdefault(cl, li)
                pi = known['param'].setdefault(cp, pi)
            else:
                li, pi, cl, cp = sessions[0]['log'], sessions[0]['param'], sessions[0]['crc_log'], sessions[0]['crc_param']
            sessions.append({'log': li, 'param': pi, 'crc_log': cl, 'crc_param': cp,
                             'ver': rng.choice([3, 7]), 'order': 'log_first' if (k + sn) % 4 else 'param_first'})
        if kind == 'planted_rw':
            case['pre_rw'] = {str(crc): rng.choice(['{}', '[]', 'null', '{ }', '{}\n'])}
        if kind in ('planted_ro', 'cross_device_ro'):
            case['pre_ro'] = {str(crc): rng.choice(['{}', '[]', 'null'])}
            case['use_rw'] = k % 2 == 0
        case['sessions'] = sessions
        out.append(case)
    return out


def vanished_case(case):
    """a cache file the LONG-LIVED TocCache object knows (found at construction, or stored by its own insert) is gone /
    unreadable at the next connection: that must be a miss followed by a download — never an exception out of fetch(),
    never a fetch that does not finish"""
    from cflib.crazyflie.toccache import TocCache
    items = [c03.ditem_unjson(d) for d in case['items']]
    cls, crc = case['cls'], case['crc']
    root = mkdtemp()

    def fail(detail):
        return {'class': 'vanished_cache_file_breaks_fetch', 'case': case, 'detail': detail, 'observed': detail,
                'expected': 'miss, then the device table; fetch() never raises'}
    try:
        if case['known'] == 'at_construction':
            TocCache(rw_cache=root).insert(crc, c03.mk_toc_obj(c03.toc_lists([c03.spec_elem(cls, i, it) for i, it in enumerate(items)])))
            cache = TocCache(rw_cache=root) if not case.get('as_ro') else TocCache(ro_cache=root)
        else:
            cache = TocCache(rw_cache=root)
            h, fins, exc, nreq = fetch_through_cache(cls, items, crc, cache, case['ver'])
            if exc or fins != 1 or c03.check_table(cls, items, h):
                return fail('first session wrong')
        p = os.path.join(root, '%08X.json' % crc)
        if case['how'] == 'delete':
            os.remove(p)
        elif case['how'] == 'directory':
            os.remove(p)
            os.makedirs(p)
        elif case['how'] == 'empty':
            open(p, 'w').close()
        elif case['how'] == 'unreadable':
            os.chmod(p, 0)
        guard = RoGuard(root) if case.get('as_ro') and case['known'] == 'at_construction' else None
        try:
            r = cache.fetch(crc)
        except Exception as e:  # noqa
            return fail('TocCache.fetch raised %s: %s' % (type(e).__name__, e))
        if r is not None and not (case['how'] == 'unreadable' and os.geteuid() == 0):
            return fail('fetch of a vanished file returned %r' % (r,))
        h, fins, exc, nreq = fetch_through_cache(cls, items, crc, cache, case['ver'])
        if exc:
            return fail('second session: callback raised %r' % (exc[0][1:],))
        if fins != 1:
            return fail('second session: the fetch does not finish (%d completions, %d requests)' % (fins, nreq))
        bad = c03.check_table(cls, items, h)
        if bad:
            return fail('second session: %s' % bad)
        d = guard.diff() if guard else None
        return ro_failure(case, d) if d else None
    finally:
        try:
            os.chmod(os.path.join(root, '%08X.json' % crc), 0o644)
        except OSError:
            pass
        shutil.rmtree(root, ignore_errors=True)


def gen_vanished_cases(rng, count):
    out = []
    hows = ['delete', 'directory', 'empty', 'unreadable']
    for k in range(count):
        cls = rng.choice(['log', 'param'])
        ver = rng.choice([3, 7])
        items = c03.gen_items(rng, cls, rng.choice([1, 2, 4]), ver >= 4)
        for it in items:
            it['ext'] = False
        out.append({'kind': 'vanished', 'cls': cls, 'ver': ver, 'items': [c03.ditem_json(i) for i in items], 'crc': rng.getrandbits(32),
                    'known': 'at_construction' if k % 2 else 'own_insert', 'as_ro': k % 4 == 3, 'how': hows[(k // 2) % 4]})
    return out


def ro_unusable_case(case):
    """a file for exactly the announced checksum lies in the READ-ONLY directory and cannot be used (cut short at some
    offset, damaged, missing a field, empty); nothing for that checksum in the rw directory.  The table must be the
    device's (miss + download, stored in the rw directory if there is one) and the read-only directory must be exactly
    as it was: same names, bytes and modification times, after one and after two sessions."""
    from cflib.crazyflie.toccache import TocCache
    items = [c03.ditem_unjson(d) for d in case['items']]
    cls, crc = case['cls'], case['crc']
    t = c03.toc_lists([c03.spec_elem(cls, i, it) for i, it in enumerate(items)])
    root = mkdtemp()
    try:
        ro, rw = os.path.join(root, 'ro'), os.path.join(root, 'rw')
        os.makedirs(ro)
        os.makedirs(rw)
        txt = full_text(t, crc)
        how = case['how']
        if how[0] == 'cut':
            data = txt[:max(0, min(len(txt) - 1, int(how[1] * len(txt))))]
        elif how[0] == 'garbage':
            data = bytes(how[1])
        else:
            data = text_without(t, crc, how[1], 'all')
        with open(os.path.join(ro, '%08X.json' % crc), 'wb') as f:
            f.write(data)
        with open(os.path.join(ro, 'README.txt'), 'w') as f:                 # a bystander
            f.write('dist cache')
        guard = RoGuard(ro)
        for sess in range(case['sessions']):
            cache = TocCache(ro_cache=ro, rw_cache=rw if case['use_rw'] else None)
            h, fins, exc, nreq = fetch_through_cache(cls, items, crc, cache, case['ver'])
            bad = ('callback raised %r' % (exc[0][1:],)) if exc else ('finished %d times' % fins) if fins != 1 else c03.check_table(cls, items, h)
            if bad:
                return {'class': 'unusable_ro_file_breaks_fetch', 'case': case, 'detail': 'session %d: %s' % (sess, bad), 'observed': bad}
            d = guard.diff()
            if d:
                return ro_failure(case, 'after session %d (%s file in the read-only directory): %s' % (sess, how[0], d))
        return None
    finally:
        shutil.rmtree(root, ignore_errors=True)


def ro_sweep_case(case):
    """crash-prefix sweep with the file in the READ-ONLY directory: for EVERY byte offset the file of the announced
    checksum is cut there; each fetch must miss and leave the file exactly as it is (it is still there, same bytes)"""
    from cflib.crazyflie.toccache import TocCache
    t = tunjson(case['table'])
    crc = case['crc']
    root = mkdtemp()
    try:
        ro, rw = os.path.join(root, 'ro'), os.path.join(root, 'rw')
        os.makedirs(ro)
        os.makedirs(rw)
        txt = full_text(t, crc)
        p = os.path.join(ro, '%08X.json' % crc)
        for k in range(len(txt) - 1, -1, -1):
            with open(p, 'wb') as f:
                f.write(txt[:k])
            cache = TocCache(ro_cache=ro, rw_cache=rw)
            r = cache.fetch(crc)
            if r is not None:
                return {'class': 'truncated_file_not_a_miss', 'case': dict(case, k=k), 'detail': 'ro file cut at byte %d is not a miss' % k}
            ok = os.path.isfile(p)
            if ok:
                with open(p, 'rb') as f:
                    ok = f.read() == txt[:k]
            if not ok or sorted(os.listdir(ro)) != ['%08X.json' % crc]:
                return ro_failure(dict(case, k=k), 'file of the read-only directory cut at byte %d of %d: after fetch the directory holds %r' % (
                    k, len(txt), sorted(os.listdir(ro))))
        return None
    finally:
        shutil.rmtree(root, ignore_errors=True)


def gen_ro_unusable_cases(rng, count):
    out = []
    hows = [('cut', 0.0), ('cut', 0.5), ('cut', 0.999), ('cut', rng.random()), ('garbage', list(b'{')), ('garbage', list(b'not json')),
            ('garbage', list(b'[1, 2]')), ('garbage', list(b'\xff\xfe')), ('missing', 'extended'), ('missing', 'ident'), ('missing', '__class__')]
    for k in range(count):
        cls = 'param' if k % 2 else 'log'
        ver = rng.choice([3, 7])
        items = c03.gen_items(rng, cls, rng.choice([1, 2, 4]), ver >= 4)
        if cls == 'param':
            items[0]['ext'] = True
        how = hows[k % len(hows)]
        if how == ('cut', None):
            how = ('cut', rng.random())
        out.append({'kind': 'ro_unusable', 'cls': cls, 'ver': ver, 'items': [c03.ditem_json(i) for i in items], 'crc': rng.getrandbits(32),
                    'how': list(how), 'sessions': 1 + (k // len(hows)) % 2, 'use_rw': k % 5 != 4})
    return out


def crc_pair_case(case):
    """two sessions with DIFFERENT device tables (same element class) on one cache directory; the checksums announced
    are a related pair (S, 2^32 - S), (S, S xor 0x80000000), top-bit / boundary values, hex-suffix pairs.  Through
    the real TocFetcher + TocCache: each session's table must be its own device's, and the files stored must be named
    by the 8-hex-digit UNSIGNED checksum."""
    from cflib.crazyflie.toccache import TocCache
    cls = case['cls']
    root = mkdtemp()
    try:
        ro, rw = os.path.join(root, 'ro'), os.path.join(root, 'rw')
        os.makedirs(ro)
        os.makedirs(rw)
        guard = None
        for sn, sess in enumerate(case['sessions']):
            items = [c03.ditem_unjson(d) for d in sess['items']]
            if case.get('first_into_ro') and sn == 0:
                cache = TocCache(rw_cache=ro)                     # the dist cache was produced with this device
            else:
                if case.get('first_into_ro') and guard is None:
                    guard = RoGuard(ro)
                cache = TocCache(ro_cache=ro, rw_cache=rw)
            h, fins, exc, nreq = fetch_through_cache(cls, items, sess['crc'], cache, sess['ver'])
            bad = ('callback raised %r' % (exc[0][1:],)) if exc else ('finished %d times' % fins) if fins != 1 else c03.check_table(cls, items, h)
            if bad:
                return {'class': 'table_of_another_checksum_used', 'case': case, 'observed': bad,
                        'detail': 'session %d announcing 0x%08X (%d request(s); earlier sessions stored %s): %s' % (
                            sn, sess['crc'], nreq, ['0x%08X' % x['crc'] for x in case['sessions'][:sn]], bad),
                        'expected': 'a cached table is used only when the announced checksum equals the one it was stored under'}
        names = sorted(os.listdir(ro) + os.listdir(rw))
        want = sorted({'%08X.json' % (x['crc'] & 0xFFFFFFFF) for x in case['sessions']})
        if sorted(set(names)) != want:
            return {'class': 'cache_file_name_not_unsigned_hex8', 'case': case, 'observed': names,
                    'detail': 'cache files %r, expected %r' % (names, want), 'expected': want}
        d = guard.diff() if guard else None
        return ro_failure(case, d) if d else None
    finally:
        shutil.rmtree(root, ignore_errors=True)


def gen_crc_pair_cases(rng, count):
    out = []
    for k in range(count):
        kind = ['negated', 'negated', 'topbit_flip', 'boundary', 'suffix', 'negated_small'][k % 6]
        if kind == 'negated':
            s1 = rng.randrange(0x80000001, 0xF0000000)
            s2 = (1 << 32) - s1
        elif kind == 'negated_small':
            s1 = rng.randrange(0xF0000000, 0xFFFFFFFF)
            s2 = (1 << 32) - s1
        elif kind == 'topbit_flip':
            s1 = rng.getrandbits(32) | 0x80000000
            s2 = s1 ^ 0x80000000
        elif kind == 'boundary':
            s1, s2 = rng.choice([(0xFFFFFFFF, 1), (0x80000000, 0), (0x80000000, 0x7FFFFFFF), (0xFFFFFFFF, 0x7FFFFFFF), (0x80000001, 0x7FFFFFFF)])
        else:
            s1 = rng.getrandbits(32) | 0x90000000
            s2 = s1 & ((1 << (4 * rng.randint(1, 7))) - 1)
        if k % 2:
            s1, s2 = s2, s1
        cls = 'param' if k % 3 else 'log'
        sessions = []
        for c in (s1, s2) + ((s1,) if k % 4 == 0 else ()):
            ver = rng.choice([3, 7])
            prev = [x for x in sessions if x['crc'] == c]
            items = prev[0]['items'] if prev else None
            if items is None:
                its = c03.gen_items(rng, cls, rng.choice([1, 2, 3]), ver >= 4)
                for it in its:
                    it['ext'] = False
                items = [c03.ditem_json(i) for i in its]
            sessions.append({'crc': c, 'ver': prev[0]['ver'] if prev else ver, 'items': items})
        out.append({'kind': 'crc_pair', 'cls': cls, 'sessions': sessions, 'first_into_ro': k % 5 == 2, 'pair': kind})
    return out


def oracle_collision(case):
    li = [c03.ditem_unjson(d) for d in case['log']]
    pi = [c03.ditem_unjson(d) for d in case['param']]
    bad = run_collision(li, pi, case['crc_log'], case['crc_param'], with_rw=case.get('rw', True))
    if bad:
        return {'class': 'same_crc_for_log_and_param_table' if case['crc_log'] == case['crc_param'] else 'log_param_connect_fails',
                'case': case, 'expected': 'both tables equal the device tables in every session', 'observed': bad, 'detail': bad}
    return None


def crc_suffix_case(case):
    """'used only when the checksum announced equals the one it was stored under': tables stored under `stored`
    (in the ro or the rw directory); asking for `asked` must hit iff asked == stored, and then return that table."""
    from cflib.crazyflie.toccache import TocCache
    root = mkdtemp()
    try:
        ro, rw = os.path.join(root, 'ro'), os.path.join(root, 'rw')
        os.makedirs(ro)
        os.makedirs(rw)
        tabs = {}
        for i, c in enumerate(case['stored']):
            tabs[c] = tunjson(case['tables'][i])
            TocCache(rw_cache=ro if case['where'][i] == 'ro' else rw).insert(c, c03.mk_toc_obj(tabs[c]))
        guard = RoGuard(ro)
        for reopen in (False, True):
            cache = TocCache(ro_cache=ro, rw_cache=rw)
            if not reopen and case.get('same_object'):
                # also through the object that did the insert (its _cache_files were appended, not globbed)
                cache = TocCache(ro_cache=ro, rw_cache=rw)
                for i, c in enumerate(case['stored']):
                    if case['where'][i] == 'rw':
                        cache.insert(c, c03.mk_toc_obj(tabs[c]))
            for a in case['asked']:
                got = cache.fetch(a)
                if a in tabs:
                    want = [1] + c03.enc_toc(c03.mk_toc_obj(reload_lists(tabs[a])))
                    if tabs[a] == []:
                        want = [1, 0]
                    if enc_fetch(got) != want:
                        return {'class': 'wrong_table_for_crc', 'case': case, 'expected': 'the table stored under %08X' % a,
                                'observed': repr(got)[:200], 'detail': 'fetch(0x%08X) does not return what was stored under it' % a}
                elif got is not None:
                    return {'class': 'hit_on_different_crc', 'case': case, 'expected': None, 'observed': repr(got)[:200],
                            'detail': 'fetch(0x%08X) hits although only %s were stored' % (a, ['0x%08X' % c for c in case['stored']])}
        d = guard.diff()
        return ro_failure(case, d) if d else None
    finally:
        shutil.rmtree(root, ignore_errors=True)


def oracle_crc_suffix(rng, fails, count):
    """checksum pairs where the hex digits of one are a suffix of the other's (leading zeros), both orders,
    read-only and read-write directory"""
    n = 0
    for k in range(count):
        big = rng.getrandbits(32) | 0x10000000
        digits = rng.randint(1, 7)
        small = big & ((1 << (4 * digits)) - 1)
        if small == 0:
            small = big & 0xF or 0xA
            big = (big & ~0xF) | small
        order = k % 4
        stored = [[big], [small], [big, small], [small, big]][order]
        asked = [small, big, big ^ 0x10000000, small | 0x100000 if digits <= 5 else small, (small << 4) & 0xFFFFFFFF, 0]
        case = {'kind': 'crc_suffix', 'stored': stored, 'asked': asked, 'where': [rng.choice(['ro', 'rw']) for _ in stored],
                'tables': [tjson(gen_table(rng, n=rng.choice([1, 2, 3]))) for _ in stored], 'same_object': k % 3 == 0}
        n += 1
        f = crc_suffix_case(case)
        if f:
            fails.append(f)
    return n


def corpus_cases():
    d = os.path.join(coqrun.VERIF, 'corpus', 'C11')
    out = []
    if os.path.isdir(d):
        for fn in sorted(os.listdir(d)):
            if fn.endswith('.json'):
                out.append(json.load(open(os.path.join(d, fn)))['case'])
    return out


def _run_case(case, rng):
    fails = []
    if case.get('kind') == 'collision':
        f = oracle_collision(case)
        return [f] if f else []
    if case.get('kind') == 'crc_pair':
        f = crc_pair_case(case)
        return [f] if f else []
    if case.get('kind') == 'ro_sweep':
        f = ro_sweep_case(case)
        return [f] if f else []
    if case.get('kind') == 'ro_unusable':
        f = ro_unusable_case(case)
        return [f] if f else []
    if case.get('kind') == 'missing_field':
        f = missing_field_case(case)
        return [f] if f else []
    if case.get('kind') == 'vanished':
        f = vanished_case(case)
        return [f] if f else []
    if case.get('kind') == 'collision_empty':
        f = collision_empty_case(case)
        return [f] if f else []
    if case.get('kind') == 'hit_lookup':
        f = hit_lookup_case(case)
        return [f] if f else []
    if case.get('kind') == 'concurrent':
        f = concurrent_case(case)
        return [f] if f else []
    if case.get('kind') == 'crc_suffix':
        f = crc_suffix_case(case)
        return [f] if f else []
    if case.get('kind') in ('truncate', 'roundtrip'):
        truncation_sweep(tunjson(case['table']), case['crc'], fails)
        return fails
    if case.get('kind') == 'garbage':
        from cflib.crazyflie.toccache import TocCache
        items = [c03.ditem_unjson(d) for d in case['items']]
        d = mkdtemp()
        try:
            with open(os.path.join(d, '%08X.json' % case['crc']), 'wb') as f:
                f.write(bytes(case['content']))
            holder, fins, exc, nreq = fetch_through_cache(case['cls'], items, case['crc'], TocCache(rw_cache=d))
            bad = ('fetch raised %r' % (exc[0][1:],)) if exc else ('completed %d times' % fins) if fins != 1 else \
                c03.check_table(case['cls'], items, holder)
            if bad:
                fails.append({'class': 'cache_file_not_a_table_installed', 'case': case, 'observed': bad})
        finally:
            shutil.rmtree(d, ignore_errors=True)
    return fails


def _guarded(fn):
    """an exception inside one oracle case (e.g. a cache file that is not where the 8-hex-digit name says) is a
    failure of THAT case, the other cases still run"""
    def run(case, *a, **k):
        try:
            return fn(case, *a, **k)
        except Exception as e:  # noqa
            import traceback
            return {'class': 'oracle_case_error', 'case': case, 'detail': '%s: %s | %s' % (type(e).__name__, e, traceback.format_exc()[-300:]),
                    'observed': repr(e)}
    run.__name__ = fn.__name__
    return run


vanished_case = _guarded(vanished_case)
missing_field_case = _guarded(missing_field_case)
ro_unusable_case = _guarded(ro_unusable_case)
ro_sweep_case = _guarded(ro_sweep_case)
crc_pair_case = _guarded(crc_pair_case)
collision_empty_case = _guarded(collision_empty_case)
hit_lookup_case = _guarded(hit_lookup_case)
concurrent_case = _guarded(concurrent_case)
crc_suffix_case = _guarded(crc_suffix_case)
oracle_collision = _guarded(oracle_collision)


def oracle(ctx, deep=False):
    rng = ctx.rng
    fails = []
    n = 0
    for case in corpus_cases():
        n += 1
        fails += _run_case(case, rng)
    # collisions and non-collisions, with and without a writable directory
    for k in range(ctx.scale(12, 60) * (3 if deep else 1)):
        li = c03.gen_items(rng, 'log', rng.choice([1, 2, 4]), True)
        pi = c03.gen_items(rng, 'param', rng.choice([1, 2, 4]), True)
        for it in pi:
            it['ext'] = False
        crc = rng.getrandbits(32)
        same = k % 2 == 0
        case = {'kind': 'collision', 'log': [c03.ditem_json(i) for i in li], 'param': [c03.ditem_json(i) for i in pi],
                'crc_log': crc, 'crc_param': crc if same else crc ^ (1 << rng.randrange(32)), 'rw': k % 5 != 4}
        n += 1
        f = oracle_collision(case)
        if f:
            fails.append(f)
    for case in gen_collision_empty_cases(rng, ctx.scale(40, 300) * (2 if deep else 1)):
        n += 1
        f = collision_empty_case(case)
        if f:
            fails.append(f)
    for case in gen_crc_pair_cases(rng, ctx.scale(36, 300)):
        n += 1
        f = crc_pair_case(case)
        if f:
            fails.append(f)
    for _ in range(ctx.scale(3, 20)):
        case = {'kind': 'ro_sweep', 'table': tjson(gen_table(rng, n=rng.choice([1, 2]))), 'crc': rng.getrandbits(32)}
        n += 1
        f = ro_sweep_case(case)
        if f:
            fails.append(f)
    for case in gen_ro_unusable_cases(rng, ctx.scale(44, 300)):
        n += 1
        f = ro_unusable_case(case)
        if f:
            fails.append(f)
    for case in gen_missing_field_cases(rng, ctx.scale(48, 300)):
        n += 1
        f = missing_field_case(case)
        if f:
            fails.append(f)
    for case in gen_vanished_cases(rng, ctx.scale(16, 120)):
        n += 1
        f = vanished_case(case)
        if f:
            fails.append(f)
    n += oracle_garbage(rng, fails)
    # hit only on the equal checksum; ro never written; no rw => nothing written
    from cflib.crazyflie.toccache import TocCache
    for _ in range(ctx.scale(20, 200)):
        root = mkdtemp()
        try:
            ro, rw = os.path.join(root, 'ro'), os.path.join(root, 'rw')
            os.makedirs(ro)
            t = gen_table(rng, n=rng.choice([1, 2, 4]))
            crc = rng.getrandbits(32)
            TocCache(rw_cache=ro).insert(crc, c03.mk_toc_obj(t))
            before = snapshot(ro)
            use_rw = rng.random() < 0.7
            cache = TocCache(ro_cache=ro, rw_cache=rw if use_rw else None)
            n += 1
            for other in [crc ^ (1 << rng.randrange(32)), (crc + 1) & 0xFFFFFFFF, crc >> 4, (crc << 4) & 0xFFFFFFFF, rng.getrandbits(32)]:
                if other != crc and cache.fetch(other) is not None:
                    fails.append({'class': 'hit_on_different_crc', 'case': {'kind': 'crc', 'stored': crc, 'asked': other},
                                  'expected': None, 'observed': 'hit'})
            got = cache.fetch(crc)
            if enc_fetch(got) != [1] + c03.enc_toc(c03.mk_toc_obj(reload_lists(t))):
                fails.append({'class': 'loaded_differs_from_stored', 'case': {'kind': 'roundtrip', 'table': tjson(t), 'crc': crc},
                              'observed': repr(got)[:200]})
            t2 = gen_table(rng, n=2)
            cache.insert(crc, c03.mk_toc_obj(t2))
            cache.insert(rng.getrandbits(32), c03.mk_toc_obj(t2))
            if snapshot(ro) != before:
                fails.append({'class': 'read_only_cache_dir_modified', 'case': {'kind': 'ro', 'crc': crc}, 'observed': sorted(os.listdir(ro))})
            if not use_rw and (os.path.exists(rw) or len(os.listdir(root)) != 1):
                fails.append({'class': 'written_without_rw_directory', 'case': {'kind': 'ro', 'crc': crc}, 'observed': sorted(os.listdir(root))})
            if use_rw:
                got2 = TocCache(ro_cache=ro, rw_cache=rw).fetch(crc)
                if enc_fetch(got2) != [1] + c03.enc_toc(c03.mk_toc_obj(reload_lists(t2))):
                    fails.append({'class': 'rw_copy_does_not_win', 'case': {'kind': 'roundtrip', 'table': tjson(t2), 'crc': crc},
                                  'observed': repr(got2)[:200]})
        finally:
            shutil.rmtree(root, ignore_errors=True)
    n += oracle_crc_suffix(rng, fails, ctx.scale(12, 120))
    # cache hit with lookups on the holder at every point of both sessions, holder reused across sessions
    for case in gen_hit_lookup_cases(rng, ctx.scale(42, 300) * (2 if deep else 1)):
        n += 1
        f = hit_lookup_case(case)
        if f:
            fails.append(f)
    # several TocCache objects storing into one rw directory from parallel threads, scripted interleavings
    for _ in range(ctx.scale(30, 300) * (2 if deep else 1)):
        jobs, sched = gen_concurrent(rng)
        case = {'kind': 'concurrent', 'jobs': [[c, tjson(t)] for c, t in jobs], 'sched': sched}
        n += 1
        f = concurrent_case(case)
        if f:
            fails.append(f)
    best = {}
    for f in fails:
        k = f['class']
        if k not in best or len(json.dumps(f['case'], default=repr)) < len(json.dumps(best[k]['case'], default=repr)):
            best[k] = f
    return {'evaluations': n, 'failures': list(best.values()),
            'rule': 'real TocCache/TocFetcher/Log/Param: CRC collisions log/param over two sessions, garbage and wrong-shape '
                    'cache files, hit only on equal CRC, ro directory and no-rw configurations'}


def replay(payload, ctx):
    fs = _run_case(payload['case'], ctx.rng)
    return fs[0] if fs else None
