"""C10 — unanswered requests are retried until answered, and only then.

Tie (V): the real Crazyflie.send_packet / _no_answer_do_retry / _check_for_answers / open_link / close_link /
_link_error_cb run in virtual time (cflib.crazyflie.Timer rebound to a two-phase virtual timer, fake link
driver per session) on generated event lists; transmissions (session, request, time) and the final status and
deadline of every timer are compared with C10.Model.run Fixed evaluated by Coq on the same events.
Oracle: the property text on the transmissions the fake links saw, with its own bookkeeping of which request is
pending (no model involved)."""
import glob
import json
import os

from core import coqrun, runner
from fakes import c10_retry as drv
from fakes import c10_lock as lk

ID = 'C10'
PROPERTY_FILE = 'C10/Property.v'
PROPERTY_FILES = ['C10/Property.v', 'C10/Property_drivers.v']
PROPERTY_FILES_NO_GEN = ['C10/Property.v']      # still checked when the driver-flag translator fails closed
LEVEL = 'proof'
ALLOWED_AXIOMS = ()
TRUSTED_BASE = [
    'C10/Model.v is hand-written from cflib/crazyflie/__init__.py (send_packet, _no_answer_do_retry, _start_answer_timer, '
    '_cancel_answer_timers, _check_for_answers, open_link, close_link, _link_error_cb); tied on every run by differential '
    'execution of the real code in virtual time against the model (transmissions with session and time, final timer '
    'status/deadlines)',
    'threading.Timer is modelled as two events (expire: wake up and pass the cancelled test; run: call the function); '
    'cancel() stops only a timer that has not expired; harness/fakes/c10_retry.py implements exactly this for the real code',
    'dict semantics assumed: insertion-ordered keys, assignment to an existing key keeps its position',
    'generate(): fail-closed ast extraction of every assignment to needs_resending / _has_safelink in cflib/crtp/'
    '{crtpdriver,usbdriver,radiodriver}.py into coq/C10/Gen_Drivers.v (C10/Property_drivers.v: C10_driver_flags, '
    'C10_radio_flag_follows_last_handshake, C10_usb_and_safelink_no_retry are re-checked against it on every run); the '
    'oracle reads the flag from the real driver objects and runs histories of connect/pause/restart/close on one real '
    'RadioDriver against a scripted radio, followed by a retry scenario on the real Crazyflie with that link object',
]
ASSUMPTIONS = [
    'granularity: send_packet, the retry function, _check_for_answers, close_link, open_link, _link_error_cb execute '
    'without interleaving with each other (send_packet and retries are serialised by _send_lock; the others are not '
    'locked in the code: byte-code-level races between the dispatcher thread and a sender on _answer_patterns are outside the model)',
    'open_link is not called while a link is open; a received packet is only processed while a link is open',
    'two requests with the same pattern: the later one supersedes the earlier (one timer per pattern, as in the code)',
    'the link drivers deliver what they are given; loss is the absence of the corresponding Recv event',
]
PROVED = ('Over the model of the retry machinery with fix F10, for every list of events (sends with any pattern/timeout, '
          'arrivals, opens, closes, link errors, needs_resending changes, time steps, timer wake-ups and timer runs in any '
          'order, including a timer that was cancelled after waking up): a pending pattern always has a live timer carrying '
          'the request, its pattern and its timeout, on an open link of the session the request was sent in; when that timer '
          'runs the request is transmitted on that link and a timer with the same timeout is started; a request that is not '
          'pending (answered, superseded, or its link closed/failed) is never transmitted again unless sent again (closed form '
          'for distinct request ids: after any history, once the longest pending prefix of an arrival belongs to request r, r is '
          'never transmitted in any continuation); an arriving '
          'packet removes exactly the longest pending pattern that is a prefix of header+data and stops only that timer; on a '
          'link that does not need resending no timer is ever created; nothing is transmitted without an open link and every '
          'transmission goes to the link of the session in which the request was sent; a timer that is not the pending one of '
          'its pattern fires silently in any state, and states differing only in the status of such timers transmit the same '
          'in every continuation (so whether leftover timers are cancelled is immaterial); the USB driver and the radio '
          'driver after safelink confirmation open links on which no timer is ever created (flags extracted from the drivers).')
NOT_PROVED = ('Liveness (that the timer thread eventually runs) is an assumption on the Python runtime, not a theorem: the '
              'theorems say what happens when it runs. A request superseded by a later request with the same pattern is no '
              'longer retried (only the later one is). Races below the stated granularity are not modelled.')

HEADER = 'From CF Require Import Common.Bytes C10.Model.\nOpen Scope Z_scope.\n'


# ------------------------------------------------------------------ translator: needs_resending of the link drivers
def _assignments(tree, attr):
    """All assignments to an attribute called `attr`: (class name, function name, target source, value node, stack)."""
    import ast
    out = []

    def walk(node, cls, fn, stack):
        for ch in ast.iter_child_nodes(node):
            c2, f2 = cls, fn
            if isinstance(ch, ast.ClassDef):
                c2, f2 = ch.name, None
            elif isinstance(ch, (ast.FunctionDef, ast.AsyncFunctionDef)):
                f2 = ch.name
            if isinstance(ch, (ast.Assign, ast.AugAssign, ast.AnnAssign)):
                tgts = ch.targets if isinstance(ch, ast.Assign) else [ch.target]
                for t in tgts:
                    for sub in ast.walk(t):
                        if isinstance(sub, ast.Attribute) and sub.attr == attr:
                            if not isinstance(ch, ast.Assign) or len(tgts) != 1 or sub is not t:
                                raise ValueError('unrecognised assignment to %s at line %d' % (attr, ch.lineno))
                            out.append((c2, f2, ast.unparse(t), ch.value, list(stack)))
            if isinstance(ch, ast.Call) and isinstance(ch.func, ast.Name) and ch.func.id == 'setattr':
                raise ValueError('setattr at line %d: cannot follow attribute writes' % ch.lineno)
            walk(ch, c2, f2, stack + [ch])
    walk(tree, None, None, [])
    return out


def _const_bool(node, what):
    import ast
    if isinstance(node, ast.Constant) and isinstance(node.value, bool):
        return node.value
    raise ValueError('%s: expected a literal True/False, found %s' % (what, ast.dump(node)))


def extract_driver_flags(repo):
    """Fail-closed extraction of how the anchored drivers set `needs_resending`."""
    import ast
    src = {n: open(os.path.join(repo, 'cflib', 'crtp', n + '.py')).read() for n in ('crtpdriver', 'usbdriver', 'radiodriver')}
    trees = {n: ast.parse(v) for n, v in src.items()}
    # base class: exactly one assignment, in CRTPDriver.__init__, to self.needs_resending
    a = _assignments(trees['crtpdriver'], 'needs_resending')
    if [(x[0], x[1], x[2]) for x in a] != [('CRTPDriver', '__init__', 'self.needs_resending')]:
        raise ValueError('crtpdriver.py: assignments to needs_resending: %r' % [(x[0], x[1], x[2]) for x in a])
    default = _const_bool(a[0][3], 'CRTPDriver.__init__')
    a = _assignments(trees['usbdriver'], 'needs_resending')
    if [(x[0], x[1], x[2]) for x in a] != [('UsbDriver', '__init__', 'self.needs_resending')]:
        raise ValueError('usbdriver.py: assignments to needs_resending: %r' % [(x[0], x[1], x[2]) for x in a])
    usb = _const_bool(a[0][3], 'UsbDriver.__init__')
    # _has_safelink: False in __init__, True only under the test of the safelink reply (0xff, 0x05, 0x01)
    h = _assignments(trees['radiodriver'], '_has_safelink')
    hs = [(x[0], x[1], x[2]) for x in h]
    if hs != [('_RadioDriverThread', '__init__', 'self._has_safelink'), ('_RadioDriverThread', 'run', 'self._has_safelink')]:
        raise ValueError('radiodriver.py: assignments to _has_safelink: %r' % hs)
    if _const_bool(h[0][3], '_has_safelink init') is not False or _const_bool(h[1][3], '_has_safelink run') is not True:
        raise ValueError('radiodriver.py: _has_safelink must start False and be set True on confirmation')
    guards = [n for n in h[1][4] if isinstance(n, ast.If)]
    if not guards or '(255, 5, 1)' not in ast.unparse(guards[-1].test).replace('0xff', '255').replace('0x05', '5').replace('0x01', '1'):
        raise ValueError('radiodriver.py: _has_safelink = True is not guarded by the safelink confirmation test')
    confirm_if = guards[-1]
    a = _assignments(trees['radiodriver'], 'needs_resending')
    if not a or (a[0][0], a[0][1], a[0][2]) != ('RadioDriver', '__init__', 'self.needs_resending'):
        raise ValueError('radiodriver.py: RadioDriver.__init__ does not set needs_resending first: %r' % [(x[0], x[1], x[2]) for x in a])
    radio0 = _const_bool(a[0][3], 'RadioDriver.__init__')
    # what _RadioDriverThread.run leaves in link.needs_resending after a start-up, as a function of the value before
    # (`prev`) and of whether the handshake was confirmed (`safelink`)
    after = 'prev'
    for (cls, fn, tgt, v, stack) in a[1:]:
        if (cls, fn, tgt) != ('_RadioDriverThread', 'run', 'self._link.needs_resending'):
            raise ValueError('radiodriver.py: unexpected assignment to needs_resending in %s.%s (%s)' % (cls, fn, tgt))
        inner = [n for n in stack[2:] if isinstance(n, (ast.If, ast.For, ast.While, ast.Try, ast.With))]
        if isinstance(v, ast.UnaryOp) and isinstance(v.op, ast.Not) and ast.unparse(v.operand) == 'self._has_safelink':
            val = 'negb safelink'
        elif isinstance(v, ast.Attribute) and ast.unparse(v) == 'self._has_safelink':
            val = 'safelink'
        elif isinstance(v, ast.Constant) and isinstance(v.value, bool):
            val = 'true' if v.value else 'false'
        else:
            raise ValueError('radiodriver.py: unrecognised value %s' % ast.unparse(v))
        if not inner:
            after = val                                   # unconditional, after the handshake loop
        elif inner[-1] is confirm_if and all(isinstance(n, (ast.For, ast.If)) for n in inner) and \
                sum(isinstance(n, ast.If) for n in inner) == 1 and val in ('true', 'false'):
            after = '(if safelink then %s else %s)' % (val, after)      # only when the handshake is confirmed
        else:
            raise ValueError('radiodriver.py: assignment to needs_resending under an unrecognised condition (line %d)' % v.lineno)
    if len(a) > 3:
        raise ValueError('radiodriver.py: too many assignments to needs_resending')
    # the link object the thread writes to must be the driver itself
    if '_RadioDriverThread(' not in src['radiodriver']:
        raise ValueError('radiodriver.py: thread construction not found')
    return {'default': default, 'usb': usb, 'radio_initial': radio0, 'radio_after': after}


def generate(ctx):
    fl = extract_driver_flags(ctx.repo)
    b = coqrun.coq_bool
    text = ('(* GENERATED by harness/props/c10.py from cflib/crtp/{crtpdriver,usbdriver,radiodriver}.py - do not edit *)\n'
            'Definition drv_default_nr : bool := %s.        (* CRTPDriver.__init__ *)\n'
            'Definition drv_usb_nr : bool := %s.            (* UsbDriver.__init__ *)\n'
            'Definition drv_radio_initial_nr : bool := %s.  (* RadioDriver.__init__ *)\n'
            '(* _RadioDriverThread.run, once the safelink negotiation (up to 10 tries) is over *)\n'
            '(* prev = the flag before this start-up (connect, or restart after pause) *)\n'
            'Definition drv_radio_nr_after (prev safelink : bool) : bool := %s.\n'
            % (b(fl['default']), b(fl['usb']), b(fl['radio_initial']), fl['radio_after']))
    path = os.path.join(coqrun.COQ_DIR, 'C10', 'Gen_Drivers.v')
    old = open(path).read() if os.path.exists(path) else None
    if old != text:
        with open(path, 'w') as f:
            f.write(text)
    return {'file': 'coq/C10/Gen_Drivers.v', 'flags': fl,
            'sources': ['cflib/crtp/crtpdriver.py', 'cflib/crtp/usbdriver.py', 'cflib/crtp/radiodriver.py']}


# ------------------------------------------------------------------ drivers: needs_resending on the real classes
DRIVER_TRUTH = {            # which links guarantee delivery (protocol knowledge, independent of the model)
    'base': True,           # CRTPDriver default: assume nothing
    'usb': False,           # USB is lossless
    'radio_initial': True,  # before the safelink negotiation
    'radio_safelink': False,        # safelink confirmed: the link layer resends and de-duplicates (C01)
    'radio_no_safelink': True,      # negotiation failed: plain radio, packets can be lost
}


def driver_flag(which):
    """needs_resending as the real driver classes set it (no hardware: constructors only; the radio thread's run() is
    executed synchronously against a scripted radio that answers the safelink request or not, then stops it)."""
    from cflib.crtp.crtpdriver import CRTPDriver
    if which == 'base':
        return CRTPDriver().needs_resending
    if which == 'usb':
        from cflib.crtp.usbdriver import UsbDriver
        return UsbDriver().needs_resending
    from cflib.crtp import radiodriver
    link = radiodriver.RadioDriver()
    if which == 'radio_initial':
        return link.needs_resending
    confirm = which == 'radio_safelink'

    class Resp:
        ack = True
        data = (0xff, 0x05, 0x01)

    class Radio:
        def __init__(self):
            self.n = 0

        def send_packet(self, data):
            self.n += 1
            if tuple(data) == (0xff, 0x05, 0x01) and self.n <= 10 and not th._sp:
                if confirm:
                    th_seen.append(self.n)
                    return Resp()
                return None
            th._sp = True
            return None
    th_seen = []
    import queue
    th = radiodriver._RadioDriverThread(Radio(), queue.Queue(), queue.Queue(), None, None, link, None)
    th.run()
    return link.needs_resending


def check_drivers():
    fails = []
    for which, want in sorted(DRIVER_TRUTH.items()):
        try:
            got = driver_flag(which)
        except Exception as e:      # fail-closed
            got = 'raised %r' % (e,)
        if got is not want:
            fails.append({'class': 'driver_needs_resending_flag_%s' % which, 'case': {'driver': which},
                          'expected': want, 'observed': got,
                          'detail': 'link driver state %s: needs_resending must be %s (%s), is %s'
                                    % (which, want, 'requests are retried' if want else 'delivery is guaranteed, no retry', got)})
    return fails


# ------------------------------------------------------------------ drivers: histories on ONE RadioDriver object
def run_radio_history(hist):
    """hist = [[how, lost], ...]: how in 'connect' (first) / 'restart' (pause(); restart()) / 'reconnect' (close(); connect());
    lost = handshake packets lost before the peer echoes (0xff,0x05,0x01), 10 = never echoed (no safelink this session).
    The real RadioDriver / _RadioDriverThread code runs synchronously against a scripted radio (Thread.start of the radio
    thread is replaced by a direct call of run(); the radio stops the thread at its first packet after the handshake).
    After every start-up: the flag of the real object, then a retry scenario on the real Crazyflie with this very link
    object (only its send_packet is replaced by a recorder): one request with an expected reply, timeout 50 ms, no reply,
    400 ms of virtual time with ideal timers.  Returns [(flag, transmission times)] per session."""
    from cflib.crtp import radiodriver
    from cflib.crtp.crtpstack import CRTPPacket

    class Ack:
        ack, powerDet, retry = True, False, 0

        def __init__(self, data):
            self.data = tuple(data)

    class Radio:
        version = 1.0

        def __init__(self):
            self.cur, self.lost, self.tries = None, 0, 0

        def set_channel(self, c): pass
        def set_data_rate(self, d): pass
        def set_address(self, a): pass
        def set_arc(self, a): pass
        def close(self): pass

        def send_packet(self, data):
            data = tuple(data)
            if data == (0xff, 0x05, 0x01) and self.tries < 10:
                self.tries += 1
                return Ack(data) if self.tries > self.lost else Ack(())
            self.cur._sp = True         # first packet after the handshake: stop the loop
            return None
    radio = Radio()
    saved = (radiodriver.RadioManager.__dict__['open'], radiodriver._RadioDriverThread.start)

    def start(th):
        radio.cur, radio.tries = th, 0
        th.run()
    out = []
    link = None
    try:
        radiodriver.RadioManager.open = staticmethod(lambda devid: radio)
        radiodriver._RadioDriverThread.start = start
        link = radiodriver.RadioDriver()
        for k, (how, lost) in enumerate(hist):
            radio.lost = lost
            if how == 'connect':
                link.connect('radio://0/80/2M', None, None)
            elif how == 'restart':
                link.pause()
                link.restart()
            else:
                link.close()
                link.connect('radio://0/80/2M', None, None)
            flag = link.needs_resending
            r = drv.Run()
            times = []
            try:
                link.send_packet = lambda pk, _r=r, _t=times: _t.append(_r.now)
                r.cf.link = link
                r.cf.send_packet(CRTPPacket(0x90, [k + 1, 7]), expected_reply=(k + 1,), timeout=0.05)
                r.step(['advfire', 400])
            finally:
                r.cf.link = None
                link.__dict__.pop('send_packet', None)
                r.finish()
            out.append((flag, times))
    finally:
        setattr(radiodriver.RadioManager, 'open', saved[0])
        radiodriver._RadioDriverThread.start = saved[1]
    return out


def check_radio_history(hist):
    try:
        got = run_radio_history(hist)
    except Exception as e:
        return {'class': 'radio_driver_history_raises', 'case': {'radio_history': hist}, 'expected': 'no exception',
                'observed': repr(e), 'detail': 'connect/pause/restart/close on one RadioDriver object raised'}
    for k, ((how, lost), (flag, times)) in enumerate(zip(hist, got)):
        unsafe = lost >= 10
        want = list(range(0, 401, 50)) if unsafe else [0]
        if flag is not unsafe or times != want:
            return {'class': 'radio_session_retry_does_not_follow_its_handshake', 'case': {'radio_history': hist},
                    'expected': {'needs_resending': unsafe, 'transmissions_ms': want},
                    'observed': {'needs_resending': flag, 'transmissions_ms': times},
                    'detail': 'session %d of one RadioDriver object (%s, safelink handshake %s): needs_resending is %s and an '
                              'unanswered request with timeout 50 ms is transmitted at %s within 400 ms; a link that does not '
                              'guarantee delivery must be retried at the timeout interval, one that does must not'
                              % (k, how, 'never echoed' if unsafe else 'echoed after %d lost packets' % lost, flag, times)}
    return None


def radio_histories(maxlen):
    import itertools
    outs = (0, 3, 10)
    for n in range(1, maxlen + 1):
        for first in outs:
            for rest in itertools.product(itertools.product(('restart', 'reconnect'), outs), repeat=n - 1):
                yield [['connect', first]] + [list(x) for x in rest]


# ------------------------------------------------------------------ the send lock (blocking / failing driver, real threads)
LHEADER = 'From CF Require Import Common.Bytes C10.Model C10.Lock.\nOpen Scope Z_scope.\n'


def _lev(e):
    k = e[0]
    if k == 'start':
        a = e[1]
        if a[0] == 'user':
            _, rid, hdr, data, exp, tmo = a
            return 'LStart (AUser %d %d %s %s %d)' % (rid, hdr, coqrun.zlist(data), coqrun.zlist(exp), 200 if tmo is None else tmo)
        return 'LStart (ATimer %d)' % a[1]
    if k == 'acquire':
        return 'LAcquire %d%%nat' % e[1]
    if k == 'finish':
        return 'LFinish %d%%nat %s' % (e[1], {'ok': 'Ok', 'driver': 'DriverRaises', 'sentcb': 'SentCbRaises'}[e[2]])
    return 'LBase (%s)' % _ev(e[1])


def lock_term(events, res=None):
    evs = []
    eff = set(range(len(events))) if res is None else set(res.get('effective_finish', []))
    for ei, e in enumerate(events):
        if e[0] == 'finish' and e[2] == 'linkerr' and ei not in eff:
            continue                    # nobody was inside the driver: nothing happened
        if e[0] == 'finish' and e[2] == 'linkerr':
            # the driver reports a link error from inside send_packet and drops the packet
            evs += [['base', ['linkerr']], ['finish', e[1], 'driver']]
        else:
            evs.append(e)
    return 'lobs (lrun WithFinally linit [%s])' % '; '.join(_lev(e) for e in evs)


def lock_impl_obs(res):
    out = [len(res['out'])]
    for x in res['out']:
        out += x
    return out + [res['holder'], len(res['statuses'])] + res['statuses'] + res['timers']


def lock_fixed_scenarios():
    U = lambda rid, exp=(7,), tmo=100: ['user', rid, 0x90, [rid], list(exp), tmo]    # noqa: E731
    O = ['base', ['open', True]]
    out = []
    for o in ('ok', 'driver', 'sentcb'):
        # first transmission ends in o; then the retry timer's own transmission ends in o
        out.append([O, ['start', U(0)], ['acquire', 0], ['finish', 0, o]])
        out.append([O, ['start', U(0)], ['acquire', 0], ['finish', 0, 'ok'], ['base', ['adv', 100]], ['base', ['expire', 0]],
                    ['start', ['timer', 0]], ['acquire', 1], ['finish', 1, o], ['base', ['adv', 100]], ['base', ['expire', 1]],
                    ['start', ['timer', 1]], ['acquire', 2], ['finish', 2, 'ok']])
        # the C02-f scenario: a retry timer fires while another sender is inside the driver, the same request is issued
        # again meanwhile; afterwards the replaced timer and the new request get the lock in either order
        for order in ((2, 1), (1, 2)):
            out.append([O, ['start', U(0)], ['acquire', 0], ['finish', 0, 'ok'], ['base', ['adv', 100]], ['base', ['expire', 0]],
                        ['start', U(5, exp=(9,))], ['acquire', 1], ['start', ['timer', 0]], ['start', U(1)],
                        ['finish', 1, o], ['acquire', order[0] + 1], ['finish', order[0] + 1, o],
                        ['acquire', order[1] + 1], ['finish', order[1] + 1, 'ok']])
    # answer while the retry waits for the lock: early return of the resend path
    out.append([O, ['start', U(0)], ['acquire', 0], ['finish', 0, 'ok'], ['base', ['adv', 100]], ['base', ['expire', 0]],
                ['start', U(5, exp=(9,))], ['acquire', 1], ['start', ['timer', 0]], ['base', ['recv', 0x90, [7, 1]]],
                ['finish', 1, 'ok'], ['acquire', 2]])
    # link error while a sender is inside the driver, then the waiting retry gets the lock on a link that is gone
    out.append([O, ['start', U(0)], ['acquire', 0], ['finish', 0, 'ok'], ['base', ['adv', 100]], ['base', ['expire', 0]],
                ['start', U(5, exp=(9,))], ['acquire', 1], ['start', ['timer', 0]], ['base', ['linkerr']],
                ['finish', 1, 'driver'], ['acquire', 2]])
    # ---- things that happen WHILE the sender is parked inside the driver call
    for tmo in (100, 50):
        # (a) the matching reply is dispatched before the driver call returns (first send, and during a retransmission)
        out.append([O, ['start', U(0, tmo=tmo)], ['acquire', 0], ['base', ['recv', 0x90, [7, 1]]], ['finish', 0, 'ok']])
        out.append([O, ['start', U(0, tmo=tmo)], ['acquire', 0], ['finish', 0, 'ok'], ['base', ['adv', tmo]], ['base', ['expire', 0]],
                    ['start', ['timer', 0]], ['acquire', 1], ['base', ['recv', 0x90, [7, 1]]], ['finish', 1, 'ok']])
        # (b) the driver reports a link error from inside send_packet (RadioDriver on a full queue); a new session is
        #     opened at once
        out.append([O, ['start', U(0, tmo=tmo)], ['acquire', 0], ['finish', 0, 'linkerr'], O])
        out.append([O, ['start', U(0, tmo=tmo)], ['acquire', 0], ['finish', 0, 'ok'], ['base', ['adv', tmo]], ['base', ['expire', 0]],
                    ['start', ['timer', 0]], ['acquire', 1], ['finish', 1, 'linkerr'], O, ['start', U(1, exp=(9,))],
                    ['acquire', 2], ['finish', 2, 'ok']])
        # (c) the driver raises on the k-th retransmission
        for k in (1, 2, 3):
            evs = [O, ['start', U(0, tmo=tmo)], ['acquire', 0], ['finish', 0, 'ok']]
            for j in range(k):
                evs += [['base', ['adv', tmo]], ['base', ['expire', j]], ['start', ['timer', j]], ['acquire', j + 1],
                        ['finish', j + 1, 'driver' if j == k - 1 else 'ok']]
            out.append(evs)
    # oversized packet: raises before the lock
    out.append([O, ['start', ['user', 0, 0x90, [0] * 31, [7], 100]], ['start', U(1)], ['acquire', 1], ['finish', 1, 'ok']])
    return [{'lock_events': e} for e in out]


def gen_lock_scenario(rng):
    evs = [['base', ['open', rng.random() < 0.9]]]
    n_act, waiting, holder, rid, n_tm = 0, [], None, 0, 0
    for _ in range(rng.randint(4, 16)):
        x = rng.random()
        if holder is not None and x < 0.3:
            evs.append(['finish', holder, rng.choice(['ok', 'ok', 'ok', 'driver', 'sentcb', 'linkerr'])])
            holder = None
        elif holder is None and waiting and x < 0.55:
            i = rng.choice(waiting)
            waiting.remove(i)
            evs.append(['acquire', i])
            holder = i          # (it may finish at once; a later finish is then ignored on both sides)
            n_tm += 1
        elif x < 0.75:
            exp = rng.choice([[7], [7], [7, 8], [], [9]])
            evs.append(['start', ['user', rid, 0x90, [rid] * rng.choice([1, 1, 2, 31 if rng.random() < 0.1 else 1]), exp,
                                  rng.choice([100, 100, 50])]])
            waiting.append(n_act)
            n_act += 1
            rid += 1
        elif x < 0.9 and n_tm:
            tid = rng.randrange(n_tm)
            evs += [['base', ['adv', rng.choice([50, 100])]], ['base', ['expire', tid]], ['start', ['timer', tid]]]
            waiting.append(n_act)
            n_act += 1
        elif x < 0.96:
            evs.append(['base', ['recv', 0x90, rng.choice([[7], [7, 8, 1], [9], [1]])]])
        elif holder is None and x < 0.98:
            evs.append(['base', ['open', True]])        # (ignored while a link is open)
        else:
            evs.append(['base', rng.choice([['linkerr'], ['setnr', False], ['setnr', True]])])
    return {'lock_events': evs}


def _shrink_lock(f):
    case, cls, best = f['case'], f['class'], f
    changed = True
    while changed:
        changed = False
        i = 0
        while i < len(case['lock_events']):
            c2 = {'lock_events': case['lock_events'][:i] + case['lock_events'][i + 1:]}
            _, g = check_lock_scenario(c2)
            if g and g['class'] == cls:
                case, best, changed = c2, g, True
            else:
                i += 1
    return best


def check_lock_scenario(case):
    res = lk.run_scenario(case['lock_events'])
    if res['leak']:
        return res, {'class': 'send_lock_left_locked', 'case': case, 'expected': 'lock free when no send_packet is in progress',
                     'observed': {'statuses': res.get('statuses'), 'out': res.get('out')},
                     'detail': res['leak'] + ': every later send_packet and every retry timer blocks for ever, nothing is '
                               'retransmitted any more'}
    if res['blocked']:
        return res, {'class': 'send_lock_scenario_blocked', 'case': case, 'expected': 'no thread blocks for ever',
                     'observed': res['blocked'], 'detail': res['blocked']}
    f = judge(case, res['story'], res)
    if f:
        f['detail'] += ' | story of the scenario: %s' % json.dumps(res['story'])
    return res, f


# ------------------------------------------------------------------ drivers: nothing goes to the device after close()
DHEADER = 'From CF Require Import Common.Bytes C10.DriverClose.\nOpen Scope Z_scope.\n'
_DOPS = {'connect': 'DConnect', 'recv': 'DRecv'}
_DFAULT = {None: 'NoFault', 'mode': 'ModeSwitchRaises', 'dispose': 'DisposeRaises'}


def driver_term(ops):
    def t(o):
        if o[0] == 'send':
            return 'DSend %d' % o[1]
        if o[0] == 'close':
            return 'DClose %s' % _DFAULT[o[1]]
        return _DOPS[o[0]]
    return 'dobs (drun ClearAlways dinit [%s])' % '; '.join(t(o) for o in ops)


def run_driver_history(kind, ops):
    """ops on ONE real driver object over a fake device layer: ['connect'] / ['send', p] / ['recv'] / ['close', fault]
    with fault None | 'mode' (the CRTP-mode control transfer raises) | 'dispose' (closing the device raises).
    kind 'usb': UsbDriver over a fake CfUsb; 'radio': RadioDriver over a scripted radio (fault 'mode' does not exist there).
    Returns per op: 0 = nothing written / ok, 1 = written to the device, 2 = 'Link already open!', 3 = other exception;
    then the total number of packets written to the device."""
    from cflib.crtp.crtpstack import CRTPPacket
    written = []
    state = {'fault': None, 'conn': -1}
    res = []
    if kind == 'usb':
        from cflib.crtp import usbdriver

        class FakeCfUsb:
            def __init__(self, device=None, devid=0):
                self.dev = object()
                self.handle = object()
                self.closed = False
                state['conn'] += 1
                self.conn = state['conn']

            def set_crtp_to_usb(self, flag):
                if not flag and state['fault'] == 'mode':
                    raise OSError('scripted: vendor control transfer failed')

            def close(self):
                if state['fault'] == 'dispose':
                    raise OSError('scripted: dispose failed')
                self.closed = True

            def send_packet(self, data):
                written.append((self.conn, tuple(data)))

            def receive_packet(self):
                return ()

            def scan(self):
                return []
        saved = (usbdriver.CfUsb, usbdriver._UsbReceiveThread.start)
        usbdriver.CfUsb = FakeCfUsb
        usbdriver._UsbReceiveThread.start = lambda self: None
        link = usbdriver.UsbDriver()
        uri = 'usb://0'

        def restore():
            usbdriver.CfUsb, usbdriver._UsbReceiveThread.start = saved
    else:
        from cflib.crtp import radiodriver

        class Radio:
            version = 1.0

            def __init__(self):
                state['conn'] += 1
                self.conn = state['conn']
                self.cur = None

            def set_channel(self, c): pass
            def set_data_rate(self, d): pass
            def set_address(self, a): pass
            def set_arc(self, a): pass

            def close(self):
                if state['fault'] == 'dispose':
                    raise OSError('scripted: dispose failed')

            def send_packet(self, data):
                data = tuple(data)
                if data != (0xff, 0x05, 0x01) and len(data) > 1:
                    written.append((self.conn, data))
                if self.cur is not None and data != (0xff, 0x05, 0x01):
                    self.cur._sp = True
                return None
        saved = (radiodriver.RadioManager.__dict__['open'], radiodriver._RadioDriverThread.start)
        radios = []

        def open_radio(devid):
            radios.append(Radio())
            return radios[-1]

        def start(th):      # the radio thread: handshake, then one round of the loop per queued packet, synchronously
            radios[-1].cur = th
            th.run()
        radiodriver.RadioManager.open = staticmethod(open_radio)
        radiodriver._RadioDriverThread.start = start
        link = radiodriver.RadioDriver()
        uri = 'radio://0/80/2M'

        def restore():
            setattr(radiodriver.RadioManager, 'open', saved[0])
            radiodriver._RadioDriverThread.start = saved[1]
    try:
        for o in ops:
            n0 = len(written)
            try:
                if o[0] == 'connect':
                    link.connect(uri, None, None)
                    res.append(0)
                elif o[0] == 'send':
                    pk = CRTPPacket(0x90, [o[1] & 0xFF, 1])
                    if kind == 'radio':
                        # the queue is served by the (synchronous) radio thread: run one round of its loop
                        if link.out_queue is not None and link.out_queue.full():
                            link.out_queue.get()
                        link.send_packet(pk)
                        th = link._thread
                        if th is not None and link._radio is not None:
                            th._sp = False
                            radios[-1].cur = th
                            _radio_round(th, link)
                    else:
                        link.send_packet(pk)
                    res.append(1 if len(written) > n0 else 0)
                elif o[0] == 'recv':
                    link.receive_packet(0)
                    res.append(1 if len(written) > n0 else 0)
                elif o[0] == 'close':
                    state['fault'] = o[1]
                    try:
                        link.close()
                    finally:
                        state['fault'] = None
                    res.append(1 if len(written) > n0 else 0)
            except Exception as e:
                res.append(2 if 'already open' in str(e) else 3)
    finally:
        restore()
    return res + [len(written)]


def _radio_round(th, link):
    """one iteration of the radio thread's sending: take the queued packet and hand it to the radio"""
    try:
        pk = link.out_queue.get(False)
    except Exception:
        return
    data = [pk.header] + list(pk.data)
    th._radio.send_packet(data)


def driver_histories():
    faults = (None, 'mode', 'dispose')
    out = []
    for f1 in faults:       # shortest first: the first failing history is the witness
        out.append(('usb', [['connect'], ['send', 1], ['close', f1], ['send', 2], ['connect']]))
    for f1 in faults:
        for f2 in faults:
            out.append(('usb', [['connect'], ['send', 1], ['send', 2], ['close', f1], ['send', 3], ['recv'], ['send', 4],
                                ['connect'], ['send', 5], ['close', f2], ['send', 6], ['connect'], ['close', None]]))
        out.append(('usb', [['connect'], ['connect'], ['send', 1], ['close', f1], ['close', None] if False else ['send', 2]]))
    out.append(('radio', [['connect'], ['send', 1], ['close', None], ['send', 2], ['recv'], ['connect'], ['send', 3],
                          ['close', None], ['send', 4]]))
    return out


def check_driver_history(kind, ops):
    case = {'driver_history': [kind, ops]}
    try:
        got = run_driver_history(kind, ops)
    except Exception as e:
        return None, {'class': 'driver_history_harness_raises', 'case': case, 'expected': None, 'observed': repr(e),
                      'detail': 'driver history could not be executed'}
    closed = False
    for k, (o, r) in enumerate(zip(ops, got)):
        if o[0] == 'close' and r != 3:
            closed = True               # close() returned normally (it swallows device errors)
        elif o[0] == 'connect':
            if closed and r != 0:
                return got, {'class': 'closed_driver_cannot_connect_again', 'case': case, 'expected': 0, 'observed': r,
                             'detail': '%s driver: connect() after close() returned fails (op %d): the object still holds '
                                       'its device' % (kind, k)}
            if r == 0:
                closed = False
        elif closed and r == 1:
            return got, {'class': 'closed_driver_writes_to_device', 'case': case, 'expected': 0, 'observed': r,
                         'detail': '%s driver: %s after close() returned wrote a packet to the device (op %d): something is '
                                   'transmitted on a closed link' % (kind, o[0], k)}
    return got, None


# ------------------------------------------------------------------ RadioDriver object: queues across close / reconnect
def queue_term(qops):
    def t(o):
        return {'connect': 'QConnect', 'close': 'QClose', 'pump': 'QPump'}.get(o[0]) or ('QSend %d' % o[1])
    return 'qobs (qrun FreshQueues qinit [%s])' % '; '.join(t(o) for o in qops)


def run_radio_queue_history(ops):
    """ONE real RadioDriver object with its REAL comm threads (one per connection) over a fake Crazyradio that records
    every frame.  ops: ['connect'] / ['send', p] / ['close'] / ['wait'] /
    ['blocked', pA, pB] (the radio stalls, pA fills the 1-slot out queue, another thread blocks in send_packet(pB), close()
    runs, the radio resumes).  Returns frames [(connection, p)], the sends made while open per connection, and the op list
    for the model (with the points where the comm thread had time to transmit)."""
    import threading
    import time
    from cflib.crtp import radiodriver
    from cflib.crtp.crtpstack import CRTPPacket
    frames, radios = [], []
    lock = threading.Lock()

    class Ack:
        ack, powerDet, retry = True, False, 0
        data = ()

    class Radio:
        version = 1.0

        def __init__(self):
            self.conn = len(radios) + 1
            self.go = threading.Event()
            self.go.set()
            self.stalled = threading.Event()

        def set_channel(self, c): pass
        def set_data_rate(self, d): pass
        def set_address(self, a): pass
        def set_arc(self, a): pass
        def close(self): pass

        def send_packet(self, data):
            data = tuple(data)
            if not self.go.is_set():
                self.stalled.set()
                self.go.wait(5)
            if data != (0xff, 0x05, 0x01) and len(data) > 1:
                with lock:
                    frames.append((self.conn, data[1]))
            time.sleep(0.001)
            return Ack()

    def open_radio(devid):
        radios.append(Radio())
        return radios[-1]
    saved = radiodriver.RadioManager.__dict__['open']
    radiodriver.RadioManager.open = staticmethod(open_radio)
    link = radiodriver.RadioDriver()
    sends_open, qops = {}, []
    is_open = False
    model_ok = True

    def wait_frame(conn, p, limit=1.0):
        t0 = time.time()
        while time.time() - t0 < limit:
            with lock:
                if (conn, p) in frames:
                    return True
            time.sleep(0.002)
        return False
    try:
        for o in ops:
            if o[0] == 'connect':
                if not is_open:
                    link.connect('radio://0/80/2M', None, None)
                    is_open = True
                    qops.append(['connect'])
                    time.sleep(0.08)            # a reconnected comm thread gets time to transmit what it finds queued
                    qops.append(['pump'])
            elif o[0] == 'send':
                pk = CRTPPacket(0x90, [o[1], 1])
                if is_open:
                    sends_open.setdefault(len(radios), set()).add(o[1])
                if link.out_queue is not None:
                    if link.out_queue.full():
                        link.out_queue.get()     # keep the harness from blocking 2 s on a queue nobody serves
                    link.send_packet(pk)
                    qops.append(['send', o[1]])
                    if is_open:
                        wait_frame(len(radios), o[1])
                        qops.append(['pump'])
            elif o[0] == 'close':
                if is_open:
                    link.close()
                    is_open = False
                    qops.append(['close'])
            elif o[0] == 'wait':
                time.sleep(0.08)
                if is_open:
                    qops.append(['pump'])
            elif o[0] == 'blocked':
                if not is_open:
                    continue
                model_ok = False                 # timing-dependent: judged by the oracle only
                radio = radios[-1]
                radio.stalled.clear()
                radio.go.clear()
                radio.stalled.wait(1)
                sends_open.setdefault(len(radios), set()).update([o[1], o[2]])
                link.send_packet(CRTPPacket(0x90, [o[1], 1]))
                th = threading.Thread(target=lambda: link.send_packet(CRTPPacket(0x90, [o[2], 1])), daemon=True)
                th.start()
                time.sleep(0.03)
                threading.Timer(0.03, radio.go.set).start()
                link.close()
                is_open = False
                th.join(3)
        if is_open:
            link.close()
    finally:
        for r in radios:
            r.go.set()
        th = getattr(link, '_thread', None)
        if th is not None:              # never leave a comm thread running
            try:
                th.stop()
            except Exception:
                pass
        setattr(radiodriver.RadioManager, 'open', saved)
    return {'frames': list(frames), 'sends_open': {k: sorted(v) for k, v in sends_open.items()},
            'qops': qops if model_ok else None}


def radio_queue_histories():
    return [
        [['connect'], ['close'], ['send', 2], ['connect'], ['wait']],
        [['connect'], ['send', 1], ['close'], ['send', 2], ['connect'], ['wait'], ['send', 3], ['close']],
        [['connect'], ['send', 1], ['send', 2], ['close'], ['send', 3], ['wait'], ['connect'], ['send', 4], ['close'], ['send', 5],
         ['connect'], ['wait'], ['close']],
        [['send', 9], ['connect'], ['send', 1], ['close']],
        [['connect'], ['send', 1], ['blocked', 2, 3], ['connect'], ['wait'], ['send', 4], ['close']],
        [['connect'], ['blocked', 2, 3], ['send', 5], ['connect'], ['wait'], ['close']],
    ]


def check_radio_queue_history(ops):
    case = {'radio_queue_history': ops}
    try:
        got = run_radio_queue_history(ops)
    except Exception as e:
        return None, {'class': 'radio_queue_history_raises', 'case': case, 'expected': None, 'observed': repr(e),
                      'detail': 'connect/send/close history on one RadioDriver object raised'}
    for conn, p in got['frames']:
        if p not in got['sends_open'].get(conn, []):
            return got, {'class': 'frame_of_closed_driver_or_other_session_transmitted', 'case': case,
                         'expected': {'frames of connection %d' % conn: got['sends_open'].get(conn, [])},
                         'observed': got['frames'],
                         'detail': 'RadioDriver: connection %d transmitted packet %d, which was not handed to send_packet during '
                                   'that connection while the driver was open (it was handed to the closed driver / in an earlier '
                                   'session): transmitted on a closed link\'s behalf in a later session' % (conn, p)}
    return got, None


# ------------------------------------------------------------------ events -> Coq
def _ev(e):
    k = e[0]
    if k == 'send':
        _, rid, hdr, data, exp, tmo = e
        return 'Send %d %d %s %s %d' % (rid, hdr, coqrun.zlist(data), coqrun.zlist(exp), 200 if tmo is None else tmo)
    if k == 'recv':
        return 'Recv %d %s' % (e[1], coqrun.zlist(e[2]))
    if k == 'open':
        return 'Open %s' % coqrun.coq_bool(e[1])
    if k == 'close':
        return 'Close'
    if k == 'linkerr':
        return 'LinkErr'
    if k == 'setnr':
        return 'SetNR %s' % coqrun.coq_bool(e[1])
    if k == 'adv':
        return 'Adv %s' % coqrun.z(e[1])
    if k == 'expire':
        return 'Expire %s' % coqrun.z(e[1])
    if k == 'run':
        return 'RunT %s' % coqrun.z(e[1])
    raise ValueError(e)


def case_term(expanded, variant='Fixed'):
    return 'obs_of (run %s init [%s])' % (variant, '; '.join(_ev(e) for e in expanded))


def impl_obs(res):
    out = [len(res['out'])]
    for x in res['out']:
        out += x
    return out + res['timers']


# ------------------------------------------------------------------ generator (adaptive: looks at the virtual timers)
def gen_case(rng, ideal):
    r = drv.Run()
    events = []
    port = rng.choice(drv.REQ_PORTS)
    hdrs = [(port << 4) | c for c in rng.sample(range(4), 2)]
    a, b, c = rng.sample(range(1, 250), 3)
    exps = [[a], [a, b], [a, b, c], [a, c], [b], []]
    tmos = [None, None, 50, 100, 1000]
    sent = []
    rid = 0

    def do(ev):
        events.append(ev)
        r.ev_index = len(events) - 1
        r.step(ev)
    try:
        n = rng.randint(3, 16)
        for _ in range(n):
            x = rng.random()
            has_link = r.cf.link is not None
            armed_due = [t.tid for t in r.timers if t.status == drv.ARMED and t.deadline <= r.now]
            committed = [t.tid for t in r.timers if t.status == drv.COMMITTED]
            if not has_link:
                if x < 0.12:
                    do(['openfail', True])
                elif x < 0.6:
                    do(['open', rng.random() < 0.85])
                elif x < 0.75:
                    do(['send', rid, rng.choice(hdrs), [rng.randrange(256) for _ in range(rng.randint(0, 4))],
                        rng.choice(exps), rng.choice(tmos)])
                    rid += 1
                elif x < 0.9:
                    do(['advfire' if ideal else 'adv', rng.choice([50, 100, 200, 250, 1000])])
                elif committed and not ideal:
                    do(['run', rng.choice(committed)])
                else:
                    do(['close'])
                continue
            if not ideal and committed and x < 0.25:
                do(['run', rng.choice(committed)])
            elif not ideal and armed_due and x < 0.45:
                do(['expire', rng.choice(armed_due)])
            elif x < 0.55 or not sent:
                if sent and rng.random() < 0.3:
                    h, e = rng.choice(sent)
                else:
                    h, e = rng.choice(hdrs), rng.choice(exps)
                size = rng.randint(0, 4) if rng.random() < 0.97 else 31
                do(['send', rid, h, [rng.randrange(256) for _ in range(size)], e, rng.choice(tmos)])
                sent.append((h, e))
                rid += 1
            elif x < 0.64 and sent:
                # the reply to an earlier request arrives and its handler immediately sends follow-up request(s):
                # same pattern (polling the same resource) or another one
                h, e = rng.choice(sent)
                data = list(e) + rng.choice([[], [b], [rng.randrange(256)]])
                follow = []
                for _ in range(rng.choice([1, 1, 1, 2])):
                    if rng.random() < 0.6:
                        fh, fe = h, e
                    else:
                        fh, fe = rng.choice(hdrs), rng.choice(exps)
                    follow.append([rid, fh, [rng.randrange(256) for _ in range(rng.randint(0, 3))], fe, rng.choice(tmos)])
                    sent.append((fh, fe))
                    rid += 1
                do(['recvcb', h, data, follow])
            elif x < 0.72:
                if rng.random() < 0.85:
                    h, e = rng.choice(sent)
                    data = list(e) + rng.choice([[], [b], [b, c], [c], [rng.randrange(256)]])
                    if rng.random() < 0.1:
                        h ^= rng.choice([1, 0x10])
                else:
                    h, data = rng.choice(hdrs), [rng.randrange(256) for _ in range(rng.randint(0, 3))]
                do(['recv', h, data] + ([rng.randrange(4)] if rng.random() < 0.5 else []))
            elif x < 0.9:
                do(['advfire' if ideal else 'adv', rng.choice([10, 50, 100, 150, 200, 400, 1000])])
            elif x < 0.92:
                # close_link() with another thread acting at its hand-over points, then usually an immediate reopen
                hooks = {}
                for key in ('c0', 'c1', 'd'):
                    if rng.random() < 0.5:
                        inner = []
                        for _ in range(rng.choice([1, 1, 2])):
                            h, e = (rng.choice(sent) if sent and rng.random() < 0.5 else (rng.choice(hdrs), rng.choice(exps)))
                            if rng.random() < 0.6 or not sent:
                                inner.append(['send', rid, h, [rng.randrange(256)], e, rng.choice(tmos)])
                            else:
                                inner.append(['recvcb', h, list(e) + [b], [[rid, h, [rng.randrange(256)], e, rng.choice(tmos)]]])
                            sent.append((h, e))
                            rid += 1
                        hooks[key] = inner
                do(['closex', hooks])
                if rng.random() < 0.8:
                    if rng.random() < 0.5:
                        do(['advfire' if ideal else 'adv', rng.choice([10, 50, 150])])
                    do(['open', True])
            elif x < 0.94:
                do(['close'])
            elif x < 0.97:
                do(['linkerr'])
            elif x < 0.985:
                do(['setnr', rng.random() < 0.5])
            else:
                do(['open', True])
        if rng.random() < 0.7:
            do(['advfire', rng.choice([250, 450, 1200])] if ideal else ['adv', 1300])
            if not ideal:
                for t in list(r.timers):
                    if t.status == drv.ARMED and rng.random() < 0.8:
                        do(['expire', t.tid])
                for t in list(r.timers):
                    if t.status == drv.COMMITTED and rng.random() < 0.8:
                        do(['run', t.tid])
        if not ideal and rng.random() < 0.5:
            # fire whatever is left, in this session or after the link was closed / failed and reopened
            for ev in rng.choice([[['flushall']], [['close'], ['open', True], ['flushall']],
                                  [['linkerr'], ['open', True], ['flushall']],
                                  [['close'], ['open', True]] + ([['send', rid, sent[0][0], [1], sent[0][1], None]] if sent else [])
                                  + [['flushall'], ['flushall']]]):
                do(ev)
    finally:
        r.finish()
    return {'events': events, 'ideal': ideal}


def _corpus():
    return [json.load(open(p)) for p in sorted(glob.glob(os.path.join(runner.VERIF, 'corpus', 'C10', '*.json')))]


def corpus_cases():
    return [c['case'] for c in _corpus() if 'events' in c['case']]


def corpus_lock_cases():
    return [c for c in _corpus() if 'lock_events' in c['case']]


def _unflat(vals):
    out, i = [], 0
    while i < len(vals):
        k = vals[i]
        out.append(list(vals[i + 1:i + 1 + k]))
        i += 1 + k
    return out


# ------------------------------------------------------------------ tie
def _equal_up_to_stale(m, e, pending):
    """Same transmissions, same number of timers, same deadlines, same status for every pending timer."""
    if not m or not e or m[0] != e[0]:
        return False
    n = 1 + 3 * m[0]
    if m[:n] != e[:n] or len(m) != len(e) or len(m) - n != 2 * len(pending):
        return False
    for i, p in enumerate(pending):
        sm, dm, se, de = m[n + 2 * i], m[n + 2 * i + 1], e[n + 2 * i], e[n + 2 * i + 1]
        if dm != de or (p and sm != se):
            return False
    return True


def _nontrivial(case, res):
    """>= 1 retransmission by a timer and >= 1 of: answer that cancels a timer, close/link error with pending timers,
    same pattern re-sent, two pending patterns sharing a prefix."""
    retx = len(res['out']) > sum(1 for e in case['events'] if e[0] == 'send')
    kinds = {e[0] for e in case['events']}
    return (retx or res['ntimers'] >= 2) and bool(kinds & {'recv', 'close', 'linkerr'})


def tie(ctx):
    cases = corpus_cases() + failed_open_cases() + reserved_bits_cases() + first_packet_cases() + callback_cases() + close_step_cases()
    for _ in range(ctx.scale(40, 800)):
        cases.append(dict(gen_case(ctx.rng, ideal=ctx.rng.random() < 0.4), fresh=True))
    for _ in range(ctx.scale(1000, 20000)):
        cases.append(gen_case(ctx.rng, ideal=ctx.rng.random() < 0.4))
    ress = [drv.run_events(c['events'], fresh=bool(c.get('fresh'))) for c in cases]
    terms = [case_term(r['expanded']) for r in ress]
    exp = [impl_obs(r) for r in ress]
    B = 32
    starts = list(range(0, len(cases), B))
    bterms = ['flat [%s]' % '; '.join(terms[a:a + B]) for a in starts]
    bexp = [coqrun.flat(exp[a:a + B]) for a in starts]
    hdr = HEADER + 'From CF Require Import Common.Digest.\n'
    sh = max(2, len(bterms) // 16 + 1)
    dg = coqrun.eval_terms(hdr, ['digest (%s)' % t for t in bterms], tag='c10', shard=sh)
    bad = [i for i, (d, e) in enumerate(zip(dg, bexp)) if tuple(d) != coqrun.digest(e)]
    dis, nd, stale_only = [], 0, 0
    if bad:
        # full values + which timers are pending: the status of a timer that is not the pending one of its pattern is
        # unobservable (theorem C10_leftover_timers_unobservable), so it is not compared
        full = coqrun.eval_terms(hdr, [bterms[i] for i in bad], tag='c10f', shard=max(1, len(bad) // 16 + 1))
        pend = coqrun.eval_terms(hdr, ['flat [%s]' % '; '.join(t.replace('obs_of', 'obs_pending', 1)
                                                                for t in terms[starts[i]:starts[i] + B]) for i in bad],
                                 tag='c10p', shard=max(1, len(bad) // 16 + 1))
        for bi, mv, pv in zip(bad, full, pend):
            a = starts[bi]
            per, pp = _unflat(mv), _unflat(pv)
            for k in range(len(cases[a:a + B])):
                m, e = per[k], exp[a + k]
                if m == e:
                    continue
                if _equal_up_to_stale(m, e, pp[k]):
                    stale_only += 1
                    continue
                nd += 1
                if len(dis) < 5:
                    dis.append({'what': 'retry machinery: transmissions/timers of model and implementation differ',
                                'case': cases[a + k], 'expanded': ress[a + k]['expanded'], 'model': m, 'impl': e})
    # ---- the send lock with a blocking / failing driver (real threads), against C10/Lock.v
    lcases = [c['case'] for c in corpus_lock_cases()] + lock_fixed_scenarios()
    for _ in range(ctx.scale(150, 3000)):
        lcases.append(gen_lock_scenario(ctx.rng))
    lterms, lexp = [], []
    for c in lcases:
        lres = lk.run_scenario(c['lock_events'], flush=False)
        lterms.append(lock_term(c['lock_events'], lres))
        lexp.append(lock_impl_obs(lres) if not lres['blocked'] else [-9])
    nld = 0
    for bi, mv in coqrun.compare_blocks(LHEADER, lterms, lexp, tag='c10k', shard=max(8, len(lterms) // 16 + 1)):
        nd += 1
        nld += 1
        if nld <= 3:
            dis.append({'what': 'send lock: calls/holder/transmissions of model (C10/Lock.v) and implementation differ',
                        'case': lcases[bi], 'model': mv, 'impl': lexp[bi]})
    # ---- driver objects over fake devices: connect / send / close with device faults / send / connect again
    dh = [(k, o) for k, o in driver_histories() if k == 'usb']
    dterms = [driver_term(o) for _, o in dh]
    dexp = []
    for k, o in dh:
        try:
            dexp.append(run_driver_history(k, o))
        except Exception:
            dexp.append([-9])
    for bi, mv in coqrun.compare_blocks(DHEADER, dterms, dexp, tag='c10d', shard=16):
        nd += 1
        dis.append({'what': 'UsbDriver over a fake device: what is written / raised differs from C10/DriverClose.v',
                    'case': {'driver_history': list(dh[bi])}, 'model': mv, 'impl': dexp[bi]})
    # ---- one RadioDriver object with its real comm threads: frames per connection vs the queue model
    qterms, qexp, qcases = [], [], []
    for ops in radio_queue_histories():
        try:
            got = run_radio_queue_history(ops)
        except Exception:
            got = {'frames': [(-9, -9)], 'qops': [['connect']]}
        if got['qops'] is None:
            continue
        qcases.append(ops)
        qterms.append(queue_term(got['qops']))
        qexp.append([x for f in got['frames'] for x in f])
    for bi, mv in coqrun.compare_blocks(DHEADER, qterms, qexp, tag='c10q', shard=16):
        nd += 1
        dis.append({'what': 'RadioDriver over a fake radio: the frames transmitted per connection differ from the queue model '
                            '(C10/DriverClose.v, FreshQueues)', 'case': {'radio_queue_history': qcases[bi]}, 'model': mv,
                    'impl': qexp[bi]})
    if dis:
        try:    # diagnostic: does the implementation still behave like the tree before fix F10?
            dd = [d for d in dis if 'expanded' in d]
            lv = coqrun.eval_terms(HEADER, [case_term(d['expanded'], 'Legacy') for d in dd], tag='c10l', shard=8)
            for d, v in zip(dd, lv):
                d['agrees_with_pre_F10_model'] = (list(v) == d['impl'])
        except Exception:
            pass
        dis.append({'what': 'total disagreements', 'count': nd})
    seen, nontriv = set(), 0
    dist = {'cases': len(cases), 'cases_on_a_new_crazyflie_object': sum(1 for c in cases if c.get('fresh')), 'send_lock_scenarios': len(lcases), 'cases_differing_only_in_status_of_stale_timers': stale_only, 'ideal_timing': 0, 'racy_timing': 0, 'events': 0, 'timers': 0, 'transmissions': 0,
            'by_kind': {}}
    for c, r in zip(cases, ress):
        h = runner.sha(c)
        if h in seen:
            continue
        seen.add(h)
        nontriv += 1 if _nontrivial(c, r) else 0
        dist['ideal_timing' if c.get('ideal') else 'racy_timing'] += 1
        dist['events'] += len(r['expanded'])
        dist['packets_whose_handler_sends_requests'] = dist.get('packets_whose_handler_sends_requests', 0) + \
            sum(1 for e in c['events'] if e[0] == 'recvcb')
        dist['timers'] += r['ntimers']
        dist['transmissions'] += len(r['out'])
        for e in r['expanded']:
            dist['by_kind'][e[0]] = dist['by_kind'].get(e[0], 0) + 1
    return {
        'evaluations': len(cases) + len(lcases),
        'distinct_nontrivial': nontriv + sum(1 for c in lcases if any(e[0] == 'finish' and e[2] != 'ok' for e in c['lock_events'])
                                             or sum(1 for e in c['lock_events'] if e[0] == 'start') >= 3),
        'rule': 'a case = list of events (send with pattern/timeout, recv, open(needs_resending), close, link error, setnr, '
                'time steps, timer expire/run incl. runs of timers cancelled after expiring, packets whose port callback sends '
                'follow-up requests from inside the real dispatch); non-trivial: a timer '
                'retransmitted or >= 2 timers existed, and an answer/close/link error occurred; compared: every request '
                'transmission (session, request, virtual time), raised sends, final deadline of every timer and final status of '
                'every timer that is the pending one of its pattern (the status of stale timers is unobservable: theorem '
                'C10_leftover_timers_unobservable; differences there are counted in the distribution, not reported)',
        'samples': [{'events': cases[i]['events'], 'impl': exp[i]} for i in (0, len(cases) // 2, len(cases) - 1)],
        'distribution': dist,
        'exhaustive': False,
        'disagreements': dis,
    }


# ------------------------------------------------------------------ oracle (property text; own bookkeeping, no model)
def check_case(case):
    return judge(case, case['events'], drv.run_events(case['events'], fresh=bool(case.get('fresh'))))


def judge(case, events, res):
    """The property text on what the links saw, for the history `events` (for the send-lock scenarios: the story of what
    happened, in the order it happened)."""

    def fail(cls, detail, expected=None, observed=None):
        return {'class': cls, 'case': case, 'expected': expected,
                'observed': observed if observed is not None else res['out'], 'detail': detail}
    if res.get('died'):
        return fail('dispatcher_died_in_check_for_answers', 'an exception (%s) left _IncomingPacketHandler.run while a '
                    'received packet was checked against the pending patterns' % res['died'])
    link, sess, nr, now = False, -1, True, 0
    reqs = {}           # rid -> dict
    pending = {}        # pattern(tuple) -> [rids sharing the pattern, newest last]
    flat = []

    def flatten(i, e):
        if e[0] == 'recvcb':
            # the packet can only answer what was sent BEFORE it arrived; what its handler sends comes after
            flat.append((i, ['recv', e[1], e[2], 'cb']))
            flat.extend((i, ['send'] + list(f) + ['cb']) for f in e[3])
        elif e[0] == 'closex':
            # close_link() in steps: what another thread does inside link.close() still belongs to the old session; the
            # session ends with the close; what happens in the disconnected callbacks comes after it
            for x in (e[1].get('c0') or []) + (e[1].get('c1') or []):
                flatten(i, x)
            flat.append((i, ['close']))
            for x in e[1].get('d') or []:
                flatten(i, x)
        else:
            flat.append((i, e))
    for i, e in enumerate(events):
        flatten(i, e)
    cb_ok = False
    for i, e in flat:
        k = e[0]
        if k == 'send' and len(e) > 6 and not cb_ok:
            continue                    # no link: the packet never arrived, its handler did not run
        if k == 'recv' and e[-1] == 'cb':
            cb_ok = link
        if k == 'send':
            _, rid, hdr, data, exp, tmo = e[:6]
            q = {'sess': sess if link else None, 't0': now, 'T': 200 if tmo is None else tmo, 'ev': i, 'retry': False,
                 'mand_end': None, 'stop_ev': None, 'sup_t': None, 'raised': len(data) > 30}
            reqs[rid] = q
            if q['raised']:
                q['sess'] = None
            elif link and len(exp) > 0 and nr:
                q['retry'] = True
                pat = ((hdr | 0x0C),) + tuple(exp)
                for old in pending.get(pat, []):
                    if reqs[old]['sup_t'] is None:
                        reqs[old]['sup_t'] = now         # superseded: no longer required, forbidden once answered
                pending.setdefault(pat, []).append(rid)
        elif k == 'recv':
            if link:
                d = ((e[1] | 0x0C),) + tuple(e[2])
                best = None
                for pat in pending:
                    if len(pat) <= len(d) and d[:len(pat)] == pat and (best is None or len(pat) > len(best)):
                        best = pat
                if best is not None:
                    for rid in pending.pop(best):
                        reqs[rid]['stop_ev'], reqs[rid]['mand_end'] = i, now
        elif k in ('close', 'linkerr'):
            if k == 'close' or link:
                for pat in list(pending):
                    for rid in pending.pop(pat):
                        reqs[rid]['stop_ev'], reqs[rid]['mand_end'] = i, now
                link = False
        elif k == 'open':
            if not link:
                link, sess, nr = True, sess + 1, bool(e[1])
        elif k == 'openfail':
            if not link:
                sess += 1               # the driver connected (a session number is used up) but the attempt failed: no link
        elif k == 'setnr':
            if link:
                nr = bool(e[1])
        elif k in ('adv', 'advfire'):
            now += e[1]
        elif k == 'flushall':
            now += 5000
        elif k == 'txfail':
            # the driver raised on the FIRST transmission of this request: the caller saw an exception; whether the
            # request is retried afterwards is not prescribed
            reqs[e[1]]['first_failed'] = True
    final_flush = bool(events) and events[-1][0] == 'flushall' and link
    # A. nothing on a closed / replaced link (all packets, also those the library sends by itself)
    for t in res['tx']:
        if (t['closed'] and not t.get('dropped')) or not t['current']:
            return fail('transmitted_on_closed_link', 'packet (request %s) handed to the link of session %s which is closed or '
                        'no longer the current link, during event %d' % (t['rid'], t['sess'], t['ev']), observed=t)
    by = {}
    for t in res['tx']:
        if t['rid'] is not None:
            by.setdefault(t['rid'], []).append(t)
    for o in res['out']:
        if o[0] == -2:
            return fail('send_lock_left_locked_by_exception', 'request %d' % o[1])
    for rid, q in sorted(reqs.items()):
        txs = by.get(rid, [])
        if q['sess'] is None:
            if txs:
                return fail('transmitted_without_open_link' if not q['raised'] else 'oversized_packet_transmitted',
                            'request %d' % rid, expected=[], observed=txs)
            continue
        # B. never in another session
        for t in txs:
            if t['sess'] != q['sess']:
                return fail('request_transmitted_in_later_session',
                            'request %d was sent in session %d and is transmitted on the link of session %d at t=%d (event %d)'
                            % (rid, q['sess'], t['sess'], t['t'], t['ev']), expected=q['sess'], observed=t)
        if q.get('first_failed'):
            continue
        if not txs or txs[0]['ev'] != q['ev']:
            return fail('request_not_transmitted_when_sent', 'request %d' % rid, observed=txs)
        if not q['retry']:
            # C. no expectation, or the link guarantees delivery: exactly one transmission
            if len(txs) != 1:
                return fail('retransmitted_on_reliable_link_or_without_expected_reply', 'request %d transmitted %d times'
                            % (rid, len(txs)), expected=1, observed=txs)
            continue
        # D. not after the answer / end of the session
        if q['stop_ev'] is not None:
            late = [t for t in txs if t['ev'] > q['stop_ev']]
            if late:
                why = events[q['stop_ev']][0]
                return fail('retransmitted_after_answer' if why in ('recv', 'recvcb') else 'retransmitted_after_link_closed',
                            'request %d stopped being pending at event %d (%s) and is transmitted again at t=%d (event %d)'
                            % (rid, q['stop_ev'], why, late[0]['t'], late[0]['ev']), observed=late)
        # F. still pending when the history ends with every existing timer firing once more (5 s later, link open):
        #    it must be retransmitted then — "for as long as the link is open until a matching packet is received"
        if final_flush and q['stop_ev'] is None and q['sup_t'] is None and q['sess'] == sess:
            last = len(events) - 1
            if not any(t['ev'] == last for t in txs):
                return fail('pending_request_no_longer_retried',
                            'request %d (sent at event %d, session %d) was never answered, its link is still open, and when '
                            'every timer fires again it is not retransmitted: its retries have stopped' % (rid, q['ev'], sess),
                            expected='a retransmission during the final flush', observed=txs)
        # E. with ideal timers: exactly at t0 + k*T while pending
        if case.get('ideal'):
            end = q['mand_end'] if q['mand_end'] is not None else now
            if q['sup_t'] is not None:
                end = min(end, q['sup_t'])
            mand = list(range(q['t0'], end + 1, q['T']))
            got = [t['t'] for t in txs]
            opt_from = q['sup_t']
            req_part = [t for t in got if opt_from is None or t <= opt_from]
            if req_part != mand:
                return fail('retry_not_at_request_timeout_interval',
                            'request %d (timeout %d ms, sent at %d, pending until %d): transmissions expected at %s, seen at %s'
                            % (rid, q['T'], q['t0'], end, mand, got), expected=mand, observed=got)
    return None


def _shrink(f):
    case, cls, best = f['case'], f['class'], f
    changed = True
    while changed:
        changed = False
        i = 0
        while i < len(case['events']):
            c2 = dict(case, events=case['events'][:i] + case['events'][i + 1:])
            try:
                g = check_case(c2)
            except Exception:
                g = None
            if g and g['class'] == cls:
                case, best, changed = c2, g, True
            else:
                i += 1
    return best


def enum_cases(depth):
    """Small-scope enumeration: every sequence of `depth` events over a fixed alphabet after open+send (two patterns
    sharing a prefix, answers for each, close/reopen, time, wake-up and run of the first three timers)."""
    import itertools
    A = [['send', 1, 0x90, [9], [1, 2], None], ['send', 2, 0x90, [8], [1], 100], ['recv', 0x90, [1, 2, 3]],
         ['recv', 0x90, [1, 5]], ['close'], ['open', True], ['adv', 200], ['expire', 0], ['run', 0], ['expire', 1],
         ['run', 1], ['expire', 2], ['run', 2]]
    head = [['open', True], ['send', 0, 0x90, [7], [1], None]]
    for seq in itertools.product(range(len(A)), repeat=depth):
        evs, rid = list(head), 10
        for k in seq:
            e = list(A[k])
            if e[0] == 'send':          # request ids are unique per send event
                e[1] = rid
                rid += 1
            evs.append(e)
        yield {'events': evs, 'ideal': False}


def close_step_cases():
    """close_link() as steps: a request sent / a reply handled (its handler sends the next request) by another thread at
    each hand-over point of the close, then open_link at once or a little later, then time passes."""
    out = []
    S = lambda rid, e=(7,), tmo=100: ['send', rid, 0x90, [rid], list(e), tmo]       # noqa: E731
    for key in ('c0', 'c1', 'd'):
        for delay in (0, 40, 150):
            for inner in ([S(1)], [['recvcb', 0x90, [5, 1], [[1, 0x90, [1], [5], 100]]]], [S(1), S(2, e=(7, 8), tmo=50)]):
                evs = [['open', True], ['send', 0, 0x90, [0], [5], 100], ['advfire', 30], ['closex', {key: inner}]]
                if delay:
                    evs.append(['advfire', delay])
                evs += [['open', True], ['advfire', 450]]
                out.append({'events': evs, 'ideal': True})
    out.append({'events': [['open', True], ['closex', {'c0': [S(1)], 'c1': [S(2, e=(9,))], 'd': [S(3, e=(4,))]}], ['open', True],
                           ['send', 4, 0x90, [4], [7], 100], ['advfire', 250]], 'ideal': True})
    return out


def failed_open_cases():
    """open_link fails after the driver connected (its first set-up packet raises): afterwards there is no link — requests
    with an expected reply are dropped, nothing is retried; a later successful open_link starts clean."""
    out = []
    S = lambda rid, tmo=100: ['send', rid, 0x91, [rid], [7], tmo]       # noqa: E731
    for tmo in (100, 50):
        out.append({'events': [['openfail', True], S(0, tmo), ['advfire', 250], S(1, tmo), ['advfire', 250], ['open', True],
                               ['advfire', 300], S(2, tmo), ['advfire', 2 * tmo + 10]], 'ideal': True})
        out.append({'events': [['open', True], S(0, tmo), ['advfire', 30], ['close'], ['openfail', True], S(1, tmo), ['advfire', 120],
                               ['openfail', True], S(2, tmo), ['open', True], ['advfire', 450]], 'ideal': True})
        out.append({'events': [['openfail', True], S(0, tmo), ['open', True], S(1, tmo), ['advfire', 3 * tmo]], 'ideal': True, 'fresh': True})
    return out


def reserved_bits_cases():
    """Replies built as the drivers build them, CRTPPacket(raw_header, payload), with each value of the two reserved header
    bits on the wire (the firmware sends them cleared; the library's own packets have them set): the reply cancels the request
    whatever these bits are."""
    out = []
    for rb in range(4):
        for hdr in (0x91, 0x12, 0xB3):
            for tmo in (None, 50):
                T = 200 if tmo is None else tmo
                out.append({'events': [['open', True], ['send', 0, hdr, [5], [7], tmo], ['advfire', T // 2], ['recv', hdr, [7, 1], rb],
                                       ['advfire', 3 * T + 10]], 'ideal': True})
        out.append({'events': [['open', True], ['send', 0, 0x91, [5], [7], 100], ['send', 1, 0x91, [6], [7, 8], 100], ['advfire', 100],
                               ['recvcb', 0x91, [7, 8, 3], [[2, 0x91, [9], [7, 8], 100]], rb], ['advfire', 150],
                               ['recv', 0x91, [7], rb], ['advfire', 250]], 'ideal': True})
    return out


def first_packet_cases():
    """The answer to a pending request is the FIRST packet received in a session — of a brand-new Crazyflie object (first
    session: callback order of __init__) and of a used one, in the first and in a second session; the answer comes once."""
    out = []
    for fresh in (True, False):
        for tmo in (None, 100, 50):
            T = 200 if tmo is None else tmo
            S = ['send', 0, 0x90, [5], [7], tmo]
            ans = ['recv', 0x90, [7, 1]]
            out.append({'events': [['open', True], S, ['advfire', T // 2], ans, ['advfire', 4 * T + 10]], 'ideal': True, 'fresh': fresh})
            out.append({'events': [['open', True], S, ans, ['advfire', 3 * T]], 'ideal': True, 'fresh': fresh})
            out.append({'events': [['open', True], ['close'], ['open', True], S, ['advfire', T], ans, ['advfire', 3 * T]],
                        'ideal': True, 'fresh': fresh})
            out.append({'events': [['open', True], S, ['send', 1, 0x90, [6], [7, 8], tmo], ['advfire', T],
                                   ['recvcb', 0x90, [7, 8, 2], [[2, 0x90, [9], [3], tmo]]], ['advfire', 2 * T], ans, ['advfire', 2 * T]],
                        'ideal': True, 'fresh': fresh})
            out.append({'events': [['open', True], S, ['recv', 0x91, [7]], ans, ['advfire', 3 * T]], 'ideal': True, 'fresh': fresh})
    return out


def callback_cases():
    """Requests issued from inside the handler of a reply (ideal timing): follow-up with the same / another pattern, lost
    k times and then answered or never answered, chains of polls."""
    out = []
    P = [0x90, [1]]
    for same in (True, False):
        for k in (1, 3, 8):
            for tmo in (None, 100, 50):
                T = 200 if tmo is None else tmo
                fp = P if same else [0x91, [2, 3]]
                evs = [['open', True], ['send', 0, P[0], [5], P[1], tmo], ['advfire', 30],
                       ['recvcb', P[0], P[1] + [9], [[1, fp[0], [6], fp[1], tmo]]], ['advfire', k * T + T // 2],
                       ['recv', fp[0], fp[1] + [4]], ['advfire', 3 * T]]
                out.append({'events': evs, 'ideal': True})
    # a poll loop: every reply triggers the next identical request; the third one is lost twice
    evs = [['open', True], ['send', 0, 0x90, [1], [7], 100], ['advfire', 20]]
    for n in range(1, 4):
        evs += [['recvcb', 0x90, [7, n], [[n, 0x90, [1], [7], 100]]], ['advfire', 20]]
    evs += [['advfire', 230], ['recv', 0x90, [7, 9]], ['advfire', 300]]
    out.append({'events': evs, 'ideal': True})
    # two follow-ups from one handler: same pattern twice (the later supersedes) and a longer pattern
    out.append({'events': [['open', True], ['send', 0, 0x90, [1], [7], None], ['recvcb', 0x90, [7, 1],
                           [[1, 0x90, [2], [7], None], [2, 0x90, [3], [7, 8], 100], [3, 0x90, [4], [7], 50]]],
                           ['advfire', 420], ['recv', 0x90, [7, 8, 1]], ['advfire', 300]], 'ideal': True})
    return out


def oracle(ctx, deep=False):
    fails, seen = check_drivers(), set()
    n_lock = 0
    for c in [x['case'] for x in corpus_lock_cases()] + lock_fixed_scenarios() + \
            [gen_lock_scenario(ctx.rng) for _ in range(ctx.scale(400, 8000) * (3 if deep else 1))]:
        n_lock += 1
        _, f = check_lock_scenario(c)
        if f and f['class'] not in {x['class'] for x in fails}:
            fails.append(_shrink_lock(f))
    n_dh = 0
    for ops in radio_queue_histories():
        n_dh += 1
        _, f = check_radio_queue_history(ops)
        if f and f['class'] not in {x['class'] for x in fails}:
            fails.append(f)
    for kind, ops in driver_histories():
        n_dh += 1
        _, f = check_driver_history(kind, ops)
        if f and f['class'] not in {x['class'] for x in fails}:
            fails.append(f)
    n_hist = 0
    for h in radio_histories(ctx.scale(3, 4)):
        n_hist += 1
        f = check_radio_history(h)
        if f and f['class'] not in {x['class'] for x in fails}:
            # shortest failing history first (enumeration is by length): no further shrinking needed
            fails.append(f)
    cases = corpus_cases() + failed_open_cases() + reserved_bits_cases() + first_packet_cases() + callback_cases() + close_step_cases() + list(enum_cases(ctx.scale(3, 5)))
    for _ in range(ctx.scale(60, 1200)):
        cases.append(dict(gen_case(ctx.rng, ideal=ctx.rng.random() < 0.6), fresh=True))
    for _ in range(ctx.scale(4000, 80000) * (3 if deep else 1)):
        cases.append(gen_case(ctx.rng, ideal=ctx.rng.random() < 0.6))
    for c in cases:
        f = check_case(c)
        if f and f['class'] not in seen:
            seen.add(f['class'])
            fails.append(_shrink(f))
    return {'evaluations': len(cases) + n_hist + n_lock + n_dh, 'failures': fails,
            'rule': 'property text on what the fake links saw: no packet on a closed/replaced link, every request only in '
                    'its own session, one transmission without expectation or on a reliable link, none after the answer '
                    '(longest pending pattern that is a prefix) or the end of the session, and with ideal timers '
                    'transmissions exactly at send time + k * timeout while pending'}


def replay(payload, ctx):
    if 'radio_queue_history' in payload['case']:
        return check_radio_queue_history(payload['case']['radio_queue_history'])[1]
    if 'driver_history' in payload['case']:
        return check_driver_history(*payload['case']['driver_history'])[1]
    if 'lock_events' in payload['case']:
        return check_lock_scenario(payload['case'])[1]
    if 'radio_history' in payload['case']:
        return check_radio_history(payload['case']['radio_history'])
    if 'driver' in payload['case']:
        fs = [f for f in check_drivers() if f['case'] == payload['case']]
        return fs[0] if fs else None
    return check_case(payload['case'])
