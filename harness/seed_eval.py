#!/usr/bin/env python3
"""Evaluate one independently written 'seeded change' against the checks.

  seed_eval.py <seed-out-dir> <name> [--props C13,C14]

<seed-out-dir> holds patch.diff, demo.py, meta.json written by an agent that saw only the property text.
Steps (all in a scratch worktree of /repo outside /repo and /verif, removed afterwards):
  1. demo passes on the unchanged tree, 2. patch applies, repository tests still pass (187), demo fails,
  3. the property's quick check, run with VERIF_REPO pointing at the patched worktree, must print VIOLATION.
The change is kept under /verif/seeded/<name>/ with meta.json extended by what was run and observed."""
import json
import os
import shutil
import subprocess
import sys

V = os.path.dirname(os.path.dirname(os.path.abspath(__file__)))


def sh(cmd, cwd=None, timeout=1800, env=None):
    r = subprocess.run(cmd, shell=True, cwd=cwd, stdout=subprocess.PIPE, stderr=subprocess.STDOUT, text=True,
                       timeout=timeout, env=env)
    return r.returncode, r.stdout


def main():
    src, name = sys.argv[1], sys.argv[2]
    props = None
    if '--props' in sys.argv:
        props = sys.argv[sys.argv.index('--props') + 1].split(',')
    meta = json.load(open(os.path.join(src, 'meta.json')))
    props = props or [meta['property']]
    wt = '/tmp/sv-%s' % name
    sh('git -C /repo worktree remove --force %s' % wt)
    rc, out = sh('git -C /repo worktree add --detach %s HEAD' % wt)
    assert rc == 0, out
    res = {'base_commit': sh('git -C /repo rev-parse --short HEAD')[1].strip()}
    try:
        env = dict(os.environ, PYTHONPATH=wt, PYTHONDONTWRITEBYTECODE='1')
        rc, out = sh('/venv/bin/python %s/demo.py' % src, cwd=wt, env=env, timeout=300)
        res['demo_unchanged_rc'] = rc
        rc, out = sh('git apply %s/patch.diff' % src, cwd=wt)
        if rc != 0:
            rc, out = sh('patch -p1 < %s/patch.diff' % src, cwd=wt)
        res['patch_applies'] = (rc == 0)
        if rc != 0:
            res['apply_output'] = out[-800:]
        else:
            rc, out = sh('/venv/bin/python -m pytest -q -p no:cacheprovider test 2>&1 | tail -1', cwd=wt, env=env)
            res['tests_with_patch'] = out.strip()
            rc, out = sh('/venv/bin/python %s/demo.py' % src, cwd=wt, env=env, timeout=300)
            res['demo_patched_rc'] = rc
            res['demo_patched_tail'] = out[-400:]
            res['checks'] = {}
            for p in props:
                e2 = dict(os.environ, VERIF_REPO=wt)
                rc, out = sh('%s/harness/check.py --property %s --tier quick' % (V, p), cwd=V, env=e2, timeout=3000)
                lines = [l for l in out.split('\n') if l.startswith('VIOLATION') or l.startswith(p + ' tier')]
                res['checks'][p] = {'rc': rc, 'lines': lines[:6]}
                for l in lines:
                    if l.startswith('VIOLATION') and 'replay=' in l:
                        rp = l.split('replay=')[1].split()[0]
                        try:
                            pl = json.load(open(rp))
                            res['checks'][p]['replay'] = {k: pl.get(k) for k in ('kind', 'class', 'case', 'theorem_or_correspondence', 'detail')}
                        except Exception:
                            pass
                        break
    finally:
        sh('git -C /repo worktree remove --force %s' % wt)
    dst = os.path.join(V, 'seeded', name)
    os.makedirs(dst, exist_ok=True)
    for f in ('patch.diff', 'demo.py'):
        shutil.copy(os.path.join(src, f), os.path.join(dst, f))
    meta['verification'] = res
    detected = any(c['rc'] == 1 and any(l.startswith('VIOLATION') for l in c['lines']) for c in res.get('checks', {}).values())
    meta['detected_by_checks'] = detected
    json.dump(meta, open(os.path.join(dst, 'meta.json'), 'w'), indent=1, default=str)
    print(json.dumps({'name': name, 'detected': detected, 'demo_unchanged_rc': res.get('demo_unchanged_rc'),
                      'demo_patched_rc': res.get('demo_patched_rc'), 'tests': res.get('tests_with_patch'),
                      'checks': {p: c['lines'] for p, c in res.get('checks', {}).items()}}, indent=1)[:3000])


if __name__ == '__main__':
    main()
