import json,glob,subprocess,sys,os
tag=sys.argv[1]
for i in range(1,21):
    pid='C%02d'%i
    prev=[]
    for d in sorted(glob.glob('/verif/seeded/%s-*'%pid)):
        try: m=json.load(open(d+'/meta.json'))
        except Exception: continue
        prev.append(str(m.get('what_breaks',''))[:230].replace('\n',' '))
    hint=("Earlier testers already tried the changes listed below. Choose a DIFFERENT clause of the property and a different code site "
          "(look at ALL the relevant files listed above, including the less obvious ones, and at helper functions they call and callers that use them). "
          "Prefer a regression that only shows on an unusual but legal input, after a multi-step history on one object, under a particular interleaving "
          "or fault point, or through two cooperating sites. Earlier attempts: " + ' | '.join('(%d) %s'%(k+1,t) for k,t in enumerate(prev)))
    out=subprocess.run(['python3','/verif/harness/seed_prompt.py',pid,tag,hint],capture_output=True,text=True).stdout
    open('/tmp/seedprompts/%s-%s.txt'%(pid,tag),'w').write(out)
    print(pid,len(prev),len(out))
