"""Property-independent check pipeline: proof step, tie step, oracle/failure search, verdict, evidence."""
import hashlib
import importlib
import json
import os
import random
import sys
import threading
import time
import traceback

from . import coqrun

VERIF = coqrun.VERIF
REPO = os.environ.get('VERIF_REPO', '/repo')

KERNEL_TB = [
    'Coq 8.16.1 kernel (coqc); vm_compute used to run models and for finite enumerations; no native_compute',
    'correspondence harness under /verif/harness (fakes, adapters, canonicalisation): plain Python, reviewed by hand',
]


class Ctx:
    def __init__(self, prop, tier, seed):
        self.prop = prop
        self.tier = tier
        self.seed = seed
        self.rng = random.Random(seed)
        self.repo = REPO
        self.thorough = tier == 'thorough'
        self.notes = []

    def scale(self, quick, thorough):
        return thorough if self.thorough else quick


def canon(obj):
    return json.dumps(obj, sort_keys=True, default=repr)


def sha(obj):
    return hashlib.sha1(canon(obj).encode()).hexdigest()[:12]


def load_known():
    """known_findings.json (assembled, committed) merged with the per-property fragments findings/Cxx.json
    it is assembled from (harness/assemble.py); an entry is identified by its id."""
    import glob
    out = {}
    p = os.path.join(VERIF, 'known_findings.json')
    if os.path.exists(p):
        for k in json.load(open(p)).get('findings', []):
            out[k['id']] = k
    for fp in sorted(glob.glob(os.path.join(VERIF, 'findings', '*.json'))):
        for k in json.load(open(fp)).get('findings', []):
            out[k['id']] = k
    return list(out.values())


def write_replay(prop, payload):
    d = os.path.join(VERIF, 'replays', prop)
    os.makedirs(d, exist_ok=True)
    p = os.path.join(d, sha(payload) + '.json')
    with open(p, 'w') as f:
        json.dump(payload, f, indent=1, sort_keys=True, default=repr)
    return p


def _jsonable(x):
    return json.loads(json.dumps(x, default=repr))


def run_check(prop, tier, seed):
    t0 = time.time()
    mod = importlib.import_module('props.' + prop.lower())
    ctx = Ctx(prop, tier, seed)
    known = [k for k in load_known() if k.get('property') == prop]
    out_lines = []
    violations = []          # (replay payload, suffix)
    broken = []              # descriptions of broken proof / tie
    level = getattr(mod, 'LEVEL', 'proof')

    # ---- watchdog: a check never hangs.  When the implementation under test blocks a thread of the harness for good
    #      (e.g. a changed library thread that waits for a queue nobody fills), the steps below never return; after the
    #      wall limit this thread reports what was running, writes replay + evidence and ends the process with exit 1.
    stage = {'name': 'start', 'proof': None}
    limit = float(os.environ.get('VERIF_WALL_LIMIT') or (7200 if tier == 'thorough' else 1500))
    done = threading.Event()

    def _watchdog():
        if done.wait(limit):
            return
        import faulthandler
        import io
        try:
            buf = open(os.path.join(VERIF, '.build', 'watchdog-%s.txt' % prop), 'w+')
            faulthandler.dump_traceback(file=buf, all_threads=True)
            buf.seek(0)
            stacks = buf.read()[-6000:]
            buf.close()
        except Exception as e:      # noqa
            stacks = 'no stack dump: %r' % (e,)
        pr = stage['proof'] or {'obligations': 0, 'discharged': 0, 'theorems': [], 'checker_cmd': '', 'files': []}
        payload = {'property': prop, 'tier': tier, 'seed': seed, 'kind': 'broken_correspondence',
                   'theorem_or_correspondence': '%s step of %s did not finish within %d s' % (stage['name'], prop, limit),
                   'message': 'the check was still inside its %s step when the wall limit was reached: a thread of the '
                              'implementation under test or of the harness is blocked. Thread stacks at that moment:\n%s'
                              % (stage['name'], stacks),
                   'case': None,
                   'note': 'no input violating the property was isolated; the property is no longer shown to hold'}
        path = write_replay(prop, payload)
        evidence = {'property_id': prop, 'tier': tier, 'seed': seed, 'level': level,
                    'coverage': {'obligations': pr['obligations'], 'discharged': pr['discharged'],
                                 'checker_cmd': pr.get('checker_cmd', ''),
                                 'trusted_base': KERNEL_TB + list(getattr(mod, 'TRUSTED_BASE', [])),
                                 'theorems': pr.get('theorems', []), 'evaluations': 0, 'distinct_nontrivial': 0,
                                 'rule': 'run aborted by the watchdog in step %s' % stage['name'],
                                 'samples': ['(none: the %s step did not finish)' % stage['name']],
                                 'broken': [{'kind': 'broken_correspondence', 'what': payload['theorem_or_correspondence']}],
                                 'explanation': 'aborted by the watchdog after %d s' % limit},
                    'assumptions': list(getattr(mod, 'ASSUMPTIONS', [])),
                    'wall_s': round(time.time() - t0, 2), 'violations': 1}
        evdir = (os.path.join(VERIF, 'evidence') if os.path.realpath(REPO) == '/repo'
                 else os.path.join(VERIF, '.build', 'evidence-scratch'))
        os.makedirs(evdir, exist_ok=True)
        with open(os.path.join(evdir, prop + '.json'), 'w') as f:
            json.dump(evidence, f, indent=1, sort_keys=True, default=repr)
        sys.stdout.write('VIOLATION property=%s replay=%s no-failing-input-found\n' % (prop, path))
        sys.stdout.write('%s tier=%s seed=%d obligations=%d discharged=%d tie_cases=0 oracle_cases=0 violations=1 known=0 '
                         'wall=%.1fs (watchdog)\n' % (prop, tier, seed, pr['obligations'], pr['discharged'], time.time() - t0))
        sys.stdout.flush()
        os._exit(1)

    wd = threading.Thread(target=_watchdog, name='verif-watchdog', daemon=True)
    wd.start()

    # ---- 0. translator (T-tie): regenerate model files from /repo
    stage['name'] = 'translator'
    gen_info = None
    if hasattr(mod, 'generate'):
        try:
            gen_info = mod.generate(ctx)
        except Exception as e:  # fail-closed: unknown shape => tie broken
            broken.append({'kind': 'broken_translator', 'what': 'translator %s.generate' % prop,
                           'message': ''.join(traceback.format_exception_only(type(e), e)).strip()[:1500]})

    # ---- 1. proof step
    stage['name'] = 'proof'
    proof = {'obligations': 0, 'discharged': 0, 'theorems': [], 'errors': [], 'checker_cmd': '', 'files': []}
    translator_broken = any(b['kind'] == 'broken_translator' for b in broken)
    # when the translator fails closed, only the property files that do not depend on generated code are checked
    # (PROPERTY_FILES_NO_GEN); the generated-code obligations are already reported as broken
    if translator_broken:
        pfiles = list(getattr(mod, 'PROPERTY_FILES_NO_GEN', []))
    else:
        pfiles = getattr(mod, 'PROPERTY_FILES', None) or [mod.PROPERTY_FILE]
    if pfiles:
        for pf in pfiles:
            try:
                aa = getattr(mod, 'ALLOWED_AXIOMS', ())
                if isinstance(aa, dict):
                    aa = aa.get(pf, ())
                pr = coqrun.proof_step(pf, allowed_axioms=aa)
            except Exception as e:
                pr = {'obligations': 1, 'discharged': 0, 'theorems': [], 'files': [], 'checker_cmd': '',
                      'errors': [{'file': pf, 'line': None, 'statement': None,
                                  'message': 'proof step crashed: %r' % (e,)}]}
            proof['obligations'] += pr['obligations']
            proof['discharged'] += pr['discharged']
            proof['theorems'] += pr['theorems']
            proof['errors'] += pr['errors']
            proof['files'] = sorted(set(proof['files']) | set(pr.get('files', [])))
            proof['checker_cmd'] = (proof['checker_cmd'] + ' ; ' if proof['checker_cmd'] else '') + pr.get('checker_cmd', '')
    # thorough tier: independent re-check of the compiled property files with coqchk
    chk = {}
    if ctx.thorough and pfiles and not proof['errors']:
        for pf in pfiles:
            try:
                c = coqrun.coqchk(pf)
            except Exception as e:
                c = {'ok': False, 'rc': None, 'axioms': [], 'unsafe': [], 'summary': 'coqchk crashed: %r' % (e,)}
            chk[pf] = {'ok': c['ok'], 'axioms': c['axioms'], 'unsafe': c['unsafe']}
            if not c['ok']:
                proof['errors'].append({'file': pf, 'line': None, 'statement': 'coqchk',
                                        'message': 'coqchk rejected the compiled development: ' + c['summary'][-800:]})
    for e in proof['errors']:
        broken.append({'kind': 'broken_theorem', 'what': '%s (%s:%s)' % (e.get('statement'), e.get('file'), e.get('line')),
                       'message': e['message']})
    if proof['obligations'] and proof['discharged'] != proof['obligations'] and not proof['errors']:
        broken.append({'kind': 'broken_theorem', 'what': 'undischarged obligations', 'message': canon(proof['theorems'])})

    # ---- 2. tie step (correspondence model <-> implementation)
    stage['name'], stage['proof'] = 'tie', proof
    tie = {'evaluations': 0, 'distinct_nontrivial': 0, 'rule': '', 'samples': [], 'disagreements': []}
    try:
        tie.update(mod.tie(ctx) or {})
    except coqrun.CoqError as e:
        broken.append({'kind': 'broken_correspondence', 'what': 'model evaluation for %s' % prop, 'message': str(e)[:1500]})
    except Exception as e:
        broken.append({'kind': 'broken_correspondence', 'what': 'correspondence harness for %s' % prop,
                       'message': traceback.format_exc()[-1500:]})
    for d in tie.get('disagreements', [])[:20]:
        broken.append({'kind': 'broken_correspondence', 'what': d.get('what', 'model and implementation differ'),
                       'message': canon(d)[:1500], 'case': d})

    # ---- 3. oracle on the real code (property text stated on observables) — always run;
    #         it is the failure search when something above is broken
    orc = {'evaluations': 0, 'failures': []}
    stage['name'] = 'oracle'
    try:
        orc.update(mod.oracle(ctx, deep=bool(broken)) or {})
    except Exception as e:
        broken.append({'kind': 'broken_correspondence', 'what': 'oracle harness for %s' % prop,
                       'message': traceback.format_exc()[-1500:]})

    # ---- 4. verdict
    stage['name'] = 'verdict'
    done.set()
    known_open = {k['input_class']: k for k in known if k.get('status') == 'known'}
    reported_known = set()
    unlisted = []
    for f in orc['failures']:
        cls = f.get('class', 'unclassified')
        if cls in known_open:
            if cls not in reported_known:
                reported_known.add(cls)
                out_lines.append('KNOWN-FINDING: property=%s %s [%s] witness=%s' % (
                    prop, known_open[cls].get('summary', cls), cls, canon(f.get('case'))[:300]))
        else:
            unlisted.append(f)
    seen_cls = set()
    for f in unlisted:
        cls = f.get('class', 'unclassified')
        if cls in seen_cls:
            continue
        seen_cls.add(cls)
        payload = {'property': prop, 'tier': tier, 'seed': seed, 'kind': f.get('kind', 'input'),
                   'class': cls, 'case': _jsonable(f.get('case')), 'expected': _jsonable(f.get('expected')),
                   'observed': _jsonable(f.get('observed')), 'detail': f.get('detail', ''),
                   'broken': [b['what'] for b in broken]}
        violations.append((payload, ''))
    if broken and not unlisted:
        b = broken[0]
        payload = {'property': prop, 'tier': tier, 'seed': seed, 'kind': b['kind'],
                   'theorem_or_correspondence': b['what'], 'message': b['message'],
                   'all_broken': [{'kind': x['kind'], 'what': x['what']} for x in broken],
                   'case': _jsonable(b.get('case')),
                   'note': 'no input violating the property was found on the implementation (%d oracle evaluations); '
                           'the property is no longer shown to hold' % orc['evaluations']}
        violations.append((payload, ' no-failing-input-found'))
    for payload, suffix in violations:
        path = write_replay(prop, payload)
        out_lines.append('VIOLATION property=%s replay=%s%s' % (prop, path, suffix))

    # ---- 5. evidence
    ev_n = int(tie.get('evaluations', 0)) + int(orc.get('evaluations', 0))
    cov = {
        'obligations': proof['obligations'],
        'discharged': proof['discharged'],
        'checker_cmd': proof.get('checker_cmd', ''),
        'trusted_base': KERNEL_TB + list(getattr(mod, 'TRUSTED_BASE', [])),
        'theorems': proof['theorems'],
        'coq_files': proof.get('files', []),
        'coqchk': chk,
        'evaluations': ev_n,
        'distinct_nontrivial': int(tie.get('distinct_nontrivial', 0)) + int(orc.get('distinct_nontrivial', 0)),
        'rule': tie.get('rule', '') + (' | oracle: ' + orc.get('rule', '') if orc.get('rule') else ''),
        'samples': _jsonable((tie.get('samples', []) + orc.get('samples', []))[:8]) or ['(none)'],
        'distribution': _jsonable(tie.get('distribution', {})),
        'oracle_evaluations': orc.get('evaluations', 0),
        'tie_evaluations': tie.get('evaluations', 0),
        'exhaustive': bool(tie.get('exhaustive', False)),
        'translator': _jsonable(gen_info),
        'broken': [{'kind': b['kind'], 'what': b['what']} for b in broken],
        'known_findings_reconfirmed': sorted(reported_known),
        'explanation': (getattr(mod, 'EXPLANATION', '') or
                        ('PROVED: %s | NOT PROVED: %s' % (getattr(mod, 'PROVED', '') or 'see theorems',
                                                          getattr(mod, 'NOT_PROVED', '') or 'see DESIGN.md'))),
        'proved': getattr(mod, 'PROVED', ''),
        'not_proved': getattr(mod, 'NOT_PROVED', ''),
    }
    evidence = {
        'property_id': prop, 'tier': tier, 'seed': seed, 'level': level, 'coverage': cov,
        'assumptions': list(getattr(mod, 'ASSUMPTIONS', [])),
        'wall_s': round(time.time() - t0, 2),
        'violations': len(violations),
    }
    # evidence describes runs against /repo itself; runs against a scratch tree (VERIF_REPO) write elsewhere
    evdir = os.path.join(VERIF, 'evidence') if os.path.realpath(REPO) == '/repo' else os.path.join(VERIF, '.build', 'evidence-scratch')
    os.makedirs(evdir, exist_ok=True)
    with open(os.path.join(evdir, prop + '.json'), 'w') as f:
        json.dump(evidence, f, indent=1, sort_keys=True, default=repr)
    for line in out_lines:
        print(line)
    print('%s tier=%s seed=%d obligations=%d discharged=%d tie_cases=%d oracle_cases=%d violations=%d known=%d wall=%.1fs' % (
        prop, tier, seed, proof['obligations'], proof['discharged'], tie.get('evaluations', 0),
        orc.get('evaluations', 0), len(violations), len(reported_known), time.time() - t0))
    return 1 if violations else 0


def run_replay(path):
    payload = json.load(open(path))
    prop = payload['property']
    mod = importlib.import_module('props.' + prop.lower())
    ctx = Ctx(prop, payload.get('tier', 'quick'), payload.get('seed', 0))
    if payload.get('kind') in ('broken_theorem', 'broken_correspondence', 'broken_translator'):
        # re-run the whole check: the replay names an obligation, not an input
        return run_check(prop, payload.get('tier', 'quick'), payload.get('seed', 0))
    f = mod.replay(payload, ctx)
    if f:
        print('VIOLATION property=%s replay=%s' % (prop, path))
        print(canon(f)[:2000])
        return 1
    print('replay passes on the current tree')
    return 0
