"""Running Coq from the harness: project build, proof step, model evaluation.

Everything runs under a shell timeout.  The Coq project lives in /verif/coq with logical
root CF.  Generated files (Gen_*.v written by translators, cases_*.v written by the
correspondence step) are never committed.
"""
import fcntl
import glob
import os
import re
import subprocess
import time

VERIF = os.path.dirname(os.path.dirname(os.path.dirname(os.path.abspath(__file__))))
COQ_DIR = os.path.join(VERIF, 'coq')
BUILD = os.path.join(VERIF, '.build')

FORBIDDEN = re.compile(
    r'\b(Admitted|admit|Axiom|Axioms|Parameter|Parameters|Conjecture|Conjectures|Admit Obligations)\b'
    r'|Unset\s+Guard|Unset\s+Positivity|Unset\s+Universe|bypass_check|type-in-type|impredicative-set'
    r'|native_compute')

# axioms of the standard library that the real-number developments may depend on
REAL_AXIOMS = {
    'ClassicalDedekindReals.sig_forall_dec',
    'ClassicalDedekindReals.sig_not_dec',
    'FunctionalExtensionality.functional_extensionality_dep',
    'Classical_Prop.classic',
}


class CoqError(Exception):
    def __init__(self, msg, file=None, line=None, output=''):
        Exception.__init__(self, msg)
        self.file, self.line, self.output = file, line, output


def _lock(name='project'):
    """Advisory lock.  'project' guards (re)generation of _CoqProject/Makefile (short); builds take a lock per
    property directory so that one property's long build does not block the others."""
    os.makedirs(BUILD, exist_ok=True)
    f = open(os.path.join(BUILD, 'coq.%s.lock' % name), 'w')
    fcntl.flock(f, fcntl.LOCK_EX)
    return f


def _lock_name(targets):
    dirs = sorted({t.split('/')[0] for t in targets if not t.startswith('Common/')})
    return dirs[0] if len(dirs) == 1 else ('project-wide' if dirs else 'Common')


def strip_comments(src):
    """Remove (* ... *) comments (nested) and string literals for the forbidden-word gate."""
    out = []
    depth = 0
    i = 0
    n = len(src)
    while i < n:
        if src.startswith('(*', i):
            depth += 1
            i += 2
        elif depth and src.startswith('*)', i):
            depth -= 1
            i += 2
        elif depth:
            if src[i] == '\n':
                out.append('\n')
            i += 1
        elif src[i] == '"':
            j = src.find('"', i + 1)
            j = n - 1 if j < 0 else j
            out.append('""')
            i = j + 1
        else:
            out.append(src[i])
            i += 1
    return ''.join(out)


def gate(files):
    """Forbidden-construct gate.  Returns list of (file, line, text)."""
    bad = []
    for f in files:
        try:
            src = strip_comments(open(f).read())
        except OSError:
            continue
        for k, line in enumerate(src.split('\n'), 1):
            if FORBIDDEN.search(line):
                bad.append((os.path.relpath(f, COQ_DIR), k, line.strip()))
    return bad


def source_files(subdirs=None):
    fs = []
    for f in sorted(glob.glob(os.path.join(COQ_DIR, '*', '*.v'))):
        base = os.path.basename(f)
        if base.startswith('cases_') or base.startswith('tmp_') or os.path.basename(os.path.dirname(f)) == 'Tmp':
            continue
        if subdirs is not None and os.path.basename(os.path.dirname(f)) not in subdirs:
            continue
        fs.append(f)
    return fs


def ensure_project():
    """(Re)generate _CoqProject and Makefile from the files present."""
    files = [os.path.relpath(f, COQ_DIR) for f in source_files()]
    content = '-Q . CF\n' + '\n'.join(files) + '\n'
    p = os.path.join(COQ_DIR, '_CoqProject')
    old = open(p).read() if os.path.exists(p) else None
    if old != content or not os.path.exists(os.path.join(COQ_DIR, 'Makefile')):
        open(p, 'w').write(content)
        subprocess.run(['coq_makefile', '-f', '_CoqProject', '-o', 'Makefile'], cwd=COQ_DIR,
                       check=True, stdout=subprocess.DEVNULL, stderr=subprocess.DEVNULL)
        # dependency file must be refreshed
        for d in glob.glob(os.path.join(COQ_DIR, '.Makefile.d')):
            os.remove(d)


_ERR_RE = re.compile(r'File "\./([^"]+)", line (\d+), characters [\d-]+:\s*\n((?:.*\n?)*)')


def make(targets, timeout=1500, jobs=16, keep_going=False):
    """make the given .vo targets (paths relative to coq/).  Raises CoqError on failure."""
    lk = _lock()
    try:
        ensure_project()
    finally:
        lk.close()
    lk = _lock(_lock_name(list(targets)))
    try:
        cmd = ['timeout', str(timeout), 'make', '-j%d' % jobs] + (['-k'] if keep_going else []) + list(targets)
        r = subprocess.run(cmd, cwd=COQ_DIR, stdout=subprocess.PIPE, stderr=subprocess.STDOUT, text=True)
    finally:
        lk.close()
    if r.returncode != 0:
        m = None
        for m in _ERR_RE.finditer(r.stdout):
            if 'Error' in m.group(3):
                break
        if m:
            raise CoqError(m.group(3).strip()[:2000], m.group(1), int(m.group(2)), r.stdout[-6000:])
        raise CoqError('make failed (rc=%d)' % r.returncode, output=r.stdout[-6000:])
    return r.stdout


def coqc(path, timeout=600):
    """Compile one file (relative to coq/), return stdout.  Raises CoqError."""
    r = subprocess.run(['timeout', str(timeout), 'coqc', '-Q', '.', 'CF', path], cwd=COQ_DIR,
                       stdout=subprocess.PIPE, stderr=subprocess.STDOUT, text=True)
    if r.returncode != 0:
        m = _ERR_RE.search(r.stdout)
        if m:
            raise CoqError(m.group(3).strip()[:2000], m.group(1), int(m.group(2)), r.stdout[-6000:])
        raise CoqError('coqc failed rc=%d (timeout?)' % r.returncode, path, None, r.stdout[-6000:])
    return r.stdout


def enclosing_statement(path, line):
    """Name of the Lemma/Theorem/Definition enclosing `line` of file `path` (relative to coq/)."""
    try:
        src = open(os.path.join(COQ_DIR, path)).read().split('\n')
    except OSError:
        return None
    pat = re.compile(r'^\s*(?:Local\s+|Global\s+)?(Theorem|Lemma|Corollary|Example|Fact|Remark|Proposition|Definition|Fixpoint|Function|Instance)\s+([A-Za-z0-9_\']+)')
    for k in range(min(line, len(src)) - 1, -1, -1):
        m = pat.match(src[k])
        if m:
            return m.group(2)
    return None


def deps_of(vfile):
    """Transitive CF.* dependencies (as .v paths relative to coq/) of a .v file, by scanning Require lines."""
    seen = []
    todo = [vfile]
    pat = re.compile(r'\bCF\.([A-Za-z0-9_]+)\.([A-Za-z0-9_]+)')
    pat2 = re.compile(r'From\s+CF\.?([A-Za-z0-9_]*)\s+Require\s+(?:Import|Export)?\s*([^.]+(?:\.[A-Za-z0-9_]+)*)\.')
    while todo:
        f = todo.pop()
        if f in seen:
            continue
        seen.append(f)
        try:
            src = strip_comments(open(os.path.join(COQ_DIR, f)).read())
        except OSError:
            continue
        for m in pat.finditer(src):
            todo.append('%s/%s.v' % (m.group(1), m.group(2)))
        for m in re.finditer(r'From\s+CF\s+Require\s+(?:Import\s+|Export\s+)?((?:[A-Za-z0-9_]+(?:\.[A-Za-z0-9_]+)*\s*)+)\.(?=\s|$)', src):
            for tok in m.group(1).split():
                parts = tok.split('.')
                if len(parts) == 2:
                    todo.append('%s/%s.v' % (parts[0], parts[1]))
    return seen


def direct_deps(vfile):
    """CF.* files directly required by a .v file (paths relative to coq/)."""
    out = []
    try:
        src = strip_comments(open(os.path.join(COQ_DIR, vfile)).read())
    except OSError:
        return out
    for m in re.finditer(r'\bCF\.([A-Za-z0-9_]+)\.([A-Za-z0-9_]+)', src):
        out.append('%s/%s.v' % (m.group(1), m.group(2)))
    for m in re.finditer(r'From\s+CF\s+Require\s+(?:Import\s+|Export\s+)?((?:[A-Za-z0-9_]+(?:\.[A-Za-z0-9_]+)*\s*)+)\.(?=\s|$)', src):
        for tok in m.group(1).split():
            parts = tok.split('.')
            if len(parts) == 2:
                out.append('%s/%s.v' % (parts[0], parts[1]))
    seen = []
    for d in out:
        if d not in seen and d != vfile:
            seen.append(d)
    return seen


def build(vfile, timeout=1500, _done=None, _stack=()):
    """Bring vfile's .vo up to date (recursively its CF dependencies first) with plain coqc; no Makefile involved,
    so concurrent checks of different properties never touch each other's files.  Returns the list of files compiled."""
    done = _done if _done is not None else {}
    if vfile in done:
        return []
    if vfile in _stack:
        raise CoqError('dependency cycle through %s' % vfile, vfile)
    compiled = []
    deps = direct_deps(vfile)
    for d in deps:
        compiled += build(d, timeout, done, _stack + (vfile,))
    v = os.path.join(COQ_DIR, vfile)
    vo = v[:-2] + '.vo'
    if not os.path.exists(v):
        raise CoqError('missing source file %s' % vfile, vfile)
    stale = (not os.path.exists(vo)) or os.path.getmtime(vo) < os.path.getmtime(v)
    if not stale:
        for d in deps:
            dvo = os.path.join(COQ_DIR, d[:-2] + '.vo')
            if os.path.exists(dvo) and os.path.getmtime(dvo) > os.path.getmtime(vo):
                stale = True
                break
    if stale:
        lk = _lock(vfile.split('/')[0])
        try:
            # re-check under the lock: another process may have built it meanwhile
            if (not os.path.exists(vo)) or os.path.getmtime(vo) < os.path.getmtime(v) or any(
                    os.path.exists(os.path.join(COQ_DIR, d[:-2] + '.vo')) and
                    os.path.getmtime(os.path.join(COQ_DIR, d[:-2] + '.vo')) > os.path.getmtime(vo) for d in deps):
                coqc(vfile, timeout=timeout)
                compiled.append(vfile)
        finally:
            lk.close()
    done[vfile] = True
    return compiled


def proof_step(property_file, allowed_axioms=(), timeout=1500):
    """Build the property's files and check its theorems.

    Returns dict(obligations, discharged, theorems=[{name, status, axioms}], errors=[...],
    gate=[...], wall_s).  `errors` entries: {file, line, statement, message}.
    """
    t0 = time.time()
    res = {'obligations': 0, 'discharged': 0, 'theorems': [], 'errors': [], 'gate': [],
           'checker_cmd': 'cd /verif/coq && make %s && coqc -Q . CF %s  (Print Assumptions after every theorem)'
                          % (property_file.replace('.v', '.vo'), property_file)}
    ppath = os.path.join(COQ_DIR, property_file)
    src = strip_comments(open(ppath).read())
    thms = re.findall(r'^\s*(?:Theorem|Corollary)\s+([A-Za-z0-9_\']+)', src, re.M)
    prints = re.findall(r'Print\s+Assumptions\s+([A-Za-z0-9_\'.]+)\s*\.', src)
    res['obligations'] = len(thms)
    for t in thms:
        if t not in prints:
            res['errors'].append({'file': property_file, 'line': None, 'statement': t,
                                  'message': 'theorem has no Print Assumptions'})
    deps = deps_of(property_file)
    res['files'] = sorted(deps)
    res['gate'] = gate([os.path.join(COQ_DIR, d) for d in deps])
    for (f, k, text) in res['gate']:
        res['errors'].append({'file': f, 'line': k, 'statement': enclosing_statement(f, k),
                              'message': 'forbidden construct: ' + text})
    # build dependencies (not the property file itself: it is always recompiled to read its output)
    try:
        done = {}
        for d in direct_deps(property_file):
            build(d, timeout=timeout, _done=done)
        lk = _lock(property_file.split('/')[0])
        try:
            out = coqc(property_file, timeout=timeout)
        finally:
            lk.close()
    except CoqError as e:
        stmt = enclosing_statement(e.file, e.line) if e.file and e.line else None
        res['errors'].append({'file': e.file, 'line': e.line, 'statement': stmt, 'message': str(e)[:1500]})
        res['theorems'] = [{'name': t, 'status': 'unchecked', 'axioms': []} for t in thms]
        res['wall_s'] = round(time.time() - t0, 2)
        return res
    # split output into Print Assumptions blocks
    blocks = []
    cur = None
    for line in out.split('\n'):
        if line.startswith('Closed under the global context'):
            blocks.append([])
            cur = None
        elif line.startswith('Axioms:'):
            cur = []
            blocks.append(cur)
        elif cur is not None:
            m = re.match(r'^([A-Za-z_][A-Za-z0-9_\'.]*)\s*(:|$)', line)
            if m:
                cur.append(m.group(1))
    allowed = set(allowed_axioms)
    if len(blocks) != len(prints):
        res['errors'].append({'file': property_file, 'line': None, 'statement': None,
                              'message': 'expected %d Print Assumptions answers, got %d' % (len(prints), len(blocks))})
    ax_by_name = dict(zip(prints, blocks))
    for t in thms:
        ax = ax_by_name.get(t)
        if ax is None:
            st = 'unchecked'
        elif set(ax) <= allowed:
            st = 'ok'
            res['discharged'] += 1
        else:
            st = 'axioms-not-allowed'
            res['errors'].append({'file': property_file, 'line': None, 'statement': t,
                                  'message': 'depends on axioms outside the allow-list: %s' % sorted(set(ax) - allowed)})
        res['theorems'].append({'name': t, 'status': st, 'axioms': ax or []})
    res['wall_s'] = round(time.time() - t0, 2)
    return res


def coqchk(property_file, timeout=1500):
    """Re-check a compiled property file and everything it depends on with the independent checker; returns
    {'ok', 'axioms': [...], 'summary': text}.  Used by the thorough tier."""
    mod = 'CF.' + property_file[:-2].replace('/', '.')
    r = subprocess.run(['timeout', str(timeout), 'coqchk', '-silent', '-o', '-Q', '.', 'CF', mod], cwd=COQ_DIR,
                       stdout=subprocess.PIPE, stderr=subprocess.STDOUT, text=True)
    out = r.stdout
    summ = out[out.find('CONTEXT SUMMARY'):] if 'CONTEXT SUMMARY' in out else out[-1500:]
    axioms = []
    m = re.search(r'\* Axioms:(.*?)\n\s*\n\* ', summ, re.S)
    if m:
        axioms = [l.strip() for l in m.group(1).split('\n') if l.strip() and l.strip() != '<none>']
    bad = []
    for key in ('type-in-type', 'unsafe (co)fixpoints', 'positivity is assumed'):
        m2 = re.search(re.escape(key) + r':(.*?)\n\s*\n', summ + '\n\n', re.S)
        if m2 and m2.group(1).strip() not in ('<none>', ''):
            bad.append(key)
    return {'ok': r.returncode == 0 and not bad, 'rc': r.returncode, 'axioms': axioms, 'unsafe': bad,
            'summary': summ[-3000:]}


# ---------------------------------------------------------------- model evaluation

def z(n):
    n = int(n)
    return str(n) if n >= 0 else '(%d)' % n


def zlist(xs):
    return '[' + '; '.join(z(x) for x in xs) + ']'


def zlistlist(xss):
    return '[' + '; '.join(zlist(x) for x in xss) + ']'


def coq_bool(b):
    return 'true' if b else 'false'


def coq_string(s):
    return '"' + s.replace('"', '""') + '"'


class _P:
    """Parser for values printed by Coq: Z/nat/N numerals, booleans, lists, tuples, option, strings,
    and constructor applications (returned as tuples ('Ctor', args...))."""

    def __init__(self, s):
        self.s = s
        self.i = 0

    def ws(self):
        while self.i < len(self.s) and self.s[self.i].isspace():
            self.i += 1

    def peek(self):
        self.ws()
        return self.s[self.i] if self.i < len(self.s) else ''

    def scope(self):
        # optional %Z, %nat, %N, %string ...
        if self.i < len(self.s) and self.s[self.i] == '%':
            self.i += 1
            while self.i < len(self.s) and (self.s[self.i].isalnum() or self.s[self.i] == '_'):
                self.i += 1

    def atom(self):
        c = self.peek()
        if c == '[':
            self.i += 1
            items = []
            if self.peek() == ']':
                self.i += 1
                self.scope()
                return items
            while True:
                items.append(self.expr())
                c = self.peek()
                if c == ';':
                    self.i += 1
                elif c == ']':
                    self.i += 1
                    self.scope()
                    return items
                else:
                    raise ValueError('list: unexpected %r at %d' % (c, self.i))
        if c == '(':
            self.i += 1
            items = [self.expr()]
            while self.peek() == ',':
                self.i += 1
                items.append(self.expr())
            if self.peek() != ')':
                raise ValueError('tuple: unexpected %r at %d' % (self.peek(), self.i))
            self.i += 1
            self.scope()
            return items[0] if len(items) == 1 else tuple(items)
        if c == '"':
            j = self.i + 1
            out = []
            while True:
                if self.s[j] == '"':
                    if j + 1 < len(self.s) and self.s[j + 1] == '"':
                        out.append('"')
                        j += 2
                        continue
                    break
                out.append(self.s[j])
                j += 1
            self.i = j + 1
            self.scope()
            return ''.join(out)
        if c == '-' or c.isdigit():
            j = self.i + 1
            while j < len(self.s) and self.s[j].isdigit():
                j += 1
            v = int(self.s[self.i:j])
            self.i = j
            self.scope()
            return v
        if c.isalpha() or c == '_':
            j = self.i
            while j < len(self.s) and (self.s[j].isalnum() or self.s[j] in "_'."):
                j += 1
            w = self.s[self.i:j]
            self.i = j
            if w == 'true':
                return True
            if w == 'false':
                return False
            if w == 'None':
                return None
            return ('@', w)
        raise ValueError('unexpected %r at %d' % (c, self.i))

    def expr(self):
        a = self.atom()
        if isinstance(a, tuple) and len(a) == 2 and a[0] == '@':
            args = []
            while True:
                c = self.peek()
                if c and (c in '[("-' or c.isalnum() or c == '_'):
                    if c == '-':
                        break
                    args.append(self.atom())
                else:
                    break
            args = [x[1] if (isinstance(x, tuple) and len(x) == 2 and x[0] == '@') else x for x in args]
            if a[1] == 'Some' and len(args) == 1:
                return ('Some', args[0])
            if not args:
                return a[1]
            return (a[1],) + tuple(args)
        return a


def parse_value(text):
    p = _P(text)
    v = p.expr()
    if isinstance(v, tuple) and len(v) == 2 and v[0] == '@':
        v = v[1]
    return v


def _split_evals(out):
    """Split coqc output into the values printed by `Eval ... in`: each starts with '     = ' and ends
    with '     : type'."""
    vals = []
    cur = None
    for line in out.split('\n'):
        if line.startswith('     = '):
            cur = [line[7:]]
        elif cur is not None and line.startswith('     : '):
            vals.append('\n'.join(cur))
            cur = None
        elif cur is not None:
            cur.append(line)
    return vals


def eval_terms(header, terms, tag='x', timeout=600, shard=400, jobs=16):
    """Evaluate Coq terms with vm_compute.  `header` = Require/Import/Definition text; terms = list of
    Coq expressions.  Returns the list of parsed values, in order.  Work is sharded over parallel coqc."""
    os.makedirs(BUILD, exist_ok=True)
    pid = os.getpid()
    shards = [terms[i:i + shard] for i in range(0, len(terms), shard)] or [[]]
    paths = []
    tmpdir = os.path.join(COQ_DIR, 'Tmp')
    os.makedirs(tmpdir, exist_ok=True)
    for k, sh in enumerate(shards):
        name = 'cases_%s_%d_%d' % (tag, pid, k)
        p = os.path.join(tmpdir, name + '.v')
        with open(p, 'w') as f:
            f.write(header + '\n')
            f.write('Set Printing Width 100000.\nSet Printing Depth 1000000.\n')
            for t in sh:
                f.write('Eval vm_compute in (%s).\n' % t)
        paths.append(p)
    procs = []
    results = [None] * len(paths)
    try:
        pending = list(enumerate(paths))
        running = []
        while pending or running:
            while pending and len(running) < jobs:
                k, p = pending.pop(0)
                fo = open(p[:-2] + '.out', 'w')
                pr = subprocess.Popen(['timeout', str(timeout), 'coqc', '-Q', '.', 'CF', os.path.relpath(p, COQ_DIR)],
                                      cwd=COQ_DIR, stdout=fo, stderr=subprocess.STDOUT)
                fo.close()
                running.append((k, p, pr))
            k, p, pr = running.pop(0)
            pr.wait()
            out = open(p[:-2] + '.out').read()
            if pr.returncode != 0:
                for (_, _, other) in running:
                    other.kill()
                raise CoqError('model evaluation failed: ' + out[-3000:], os.path.relpath(p, COQ_DIR), None, out[-6000:])
            results[k] = out
    finally:
        for p in paths:
            b = p[:-2]
            for ext in ('.v', '.vo', '.vok', '.vos', '.glob', '.out'):
                try:
                    os.remove(b + ext)
                except OSError:
                    pass
            try:
                os.remove(os.path.join(os.path.dirname(p), '.' + os.path.basename(b) + '.aux'))
            except OSError:
                pass
    vals = []
    for k, out in enumerate(results):
        vs = _split_evals(out)
        if len(vs) != len(shards[k]):
            raise CoqError('model evaluation: expected %d values, got %d\n%s' % (len(shards[k]), len(vs), out[-2000:]))
        vals.extend(parse_value(v) for v in vs)
    return vals


# ---------------------------------------------------------------- digest comparison (large outputs)
DG_P1 = (1 << 61) - 1
DG_P2 = (1 << 89) - 1
DG_B = 1000003


def digest(values):
    h1, h2 = 7, 7
    for v in values:
        h1 = (h1 * DG_B + (v % DG_P1) + 1) % DG_P1
        h2 = (h2 * DG_B + (v % DG_P2) + 1) % DG_P2
    return (h1, h2)


def flat(ll):
    out = []
    for l in ll:
        out.append(len(l))
        out.extend(l)
    return out


def compare_blocks(header, block_terms, expected_blocks, tag='d', shard=200, timeout=600):
    """block_terms[i] is a Coq term of type `list Z`; expected_blocks[i] the implementation's values.
    Compares by digest inside Coq; re-evaluates differing blocks in full.  Returns a list of
    (block index, model values) for the blocks that differ."""
    hdr = header + '\nFrom CF Require Import Common.Digest.\n'
    dg = eval_terms(hdr, ['digest (%s)' % t for t in block_terms], tag=tag, shard=shard, timeout=timeout)
    bad = [i for i, (d, e) in enumerate(zip(dg, expected_blocks)) if tuple(d) != digest(e)]
    out = []
    if bad:
        full = eval_terms(hdr, [block_terms[i] for i in bad[:8]], tag=tag + 'f', shard=1, timeout=timeout)
        out = list(zip(bad[:8], full)) + [(i, None) for i in bad[8:]]
    return out
