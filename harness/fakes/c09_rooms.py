"""C09 — random lighthouse rooms with ground truth, error-free sweep angles, and the end-to-end pipeline
(matcher -> initial estimator -> geometry solver) of the tree under test.

A *case* is plain JSON (so it can be kept in corpus/ and replayed):
  {'bs':  {id: [rotvec(3), pos(3)]},            ground-truth base-station poses, global frame
   'cf':  [[rotvec(3), pos(3)], ...],           ground-truth Crazyflie poses, in measurement (time) order
   'vis': [[ids seen by pose k, in measurement order (repeats allowed)], ...],
   'dt':  [[time offset of each measurement inside the group], ...],
   't0':  [group start time per pose],
   'max_time_diff': 0.02, 'min_bs': 2}
cflib is imported lazily from the tree selected by check.py (PYTHONPATH), never at module import time.
All randomness comes from the rng passed in.
"""
import math


# ------------------------------------------------------------------ small vector helpers (no numpy: JSON-exact)

def _norm(v):
    return math.sqrt(sum(x * x for x in v))


def _unit(v):
    n = _norm(v)
    return [x / n for x in v]


def _cross(a, b):
    return [a[1] * b[2] - a[2] * b[1], a[2] * b[0] - a[0] * b[2], a[0] * b[1] - a[1] * b[0]]


# ------------------------------------------------------------------ generation

def _look_at_rotvec(pos, target, roll):
    """Rotation vector of the frame whose x axis points from pos to target, y to the left, z up-ish,
    then rolled about its own x axis."""
    import numpy as np
    from scipy.spatial.transform import Rotation
    x = _unit([t - p for t, p in zip(target, pos)])
    y = _unit(_cross([0.0, 0.0, 1.0], x))
    z = _cross(x, y)
    R = np.array([x, y, z]).T
    R = R @ Rotation.from_rotvec([roll, 0.0, 0.0]).as_matrix()
    return [float(v) for v in Rotation.from_matrix(R).as_rotvec()]


def _cf_rotvec(yaw, roll, pitch):
    from scipy.spatial.transform import Rotation
    return [float(v) for v in Rotation.from_euler('ZYX', [yaw, pitch, roll]).as_rotvec()]


ENVELOPE = {'dist': (1.5, 4.0), 'above': 0.5, 'fov_h': math.radians(60), 'fov_v': math.radians(45),
            'incidence': math.radians(25)}


def in_envelope(cf_pose, bs_poses):
    """The room envelope of the property text, made precise: every base station is 1.5 .. 4 m from the Crazyflie, at
    least 0.5 m higher, sees it well inside its field of view, and stands at least 25 degrees above the plane of the
    (roughly level) lighthouse deck."""
    import numpy as np
    from scipy.spatial.transform import Rotation
    Rc = Rotation.from_rotvec(cf_pose[0]).as_matrix()
    pc = np.array(cf_pose[1])
    for rv, pb in bs_poses:
        Rb = Rotation.from_rotvec(rv).as_matrix()
        pb = np.array(pb)
        p = Rb.T @ (pc - pb)
        d = float(np.linalg.norm(p))
        if not (ENVELOPE['dist'][0] <= d <= ENVELOPE['dist'][1]):
            return False
        if pb[2] - pc[2] < ENVELOPE['above']:
            return False
        if p[0] <= 0 or abs(math.atan2(p[1], p[0])) > ENVELOPE['fov_h'] or abs(math.atan2(p[2], p[0])) > ENVELOPE['fov_v']:
            return False
        q = Rc.T @ (pb - pc)
        if math.asin(max(-1.0, min(1.0, q[2] / d))) < ENVELOPE['incidence']:
            return False
    return True


def linked_components(vis):
    """Connected components of the graph on ids where two ids are adjacent when one pose sees both."""
    parent = {}

    def find(a):
        while parent[a] != a:
            parent[a] = parent[parent[a]]
            a = parent[a]
        return a
    for s in vis:
        for b in s:
            parent.setdefault(b, b)
        for b in s[1:]:
            ra, rb = find(s[0]), find(b)
            if ra != rb:
                parent[ra] = rb
    comps = {}
    for b in parent:
        comps.setdefault(find(b), set()).add(b)
    return sorted((sorted(c) for c in comps.values()))


def gen_room(rng, n_bs=None, n_cf=None, mode=None, max_tilt=0.15):
    """One random room inside the envelope of the property text.

    mode: 'full' every pose sees every station; 'chain' every pose sees a random subset of >= 2 stations and the
    subsets link all stations; 'unlinked' the stations fall into two groups never seen together."""
    n_bs = n_bs or rng.randint(2, 6)
    n_cf = n_cf or rng.randint(3, 40)
    if mode is None:
        mode = rng.choice(['full', 'chain', 'chain', 'unlinked'] if n_bs >= 4 else ['full', 'chain'])
    if mode == 'unlinked' and n_bs < 4:
        mode = 'chain'
    ids = rng.sample(range(16), n_bs)
    centre = [0.0, 0.0, 0.5]
    while True:
        bs = {}
        for b in ids:
            # above the flight volume, facing a point inside it
            while True:
                d = rng.uniform(1.9, 3.6)
                az = rng.uniform(-math.pi, math.pi)
                el = rng.uniform(math.radians(25), math.radians(65))
                pos = [centre[0] + d * math.cos(el) * math.cos(az), centre[1] + d * math.cos(el) * math.sin(az),
                       centre[2] + d * math.sin(el)]
                if all(_norm([p - q for p, q in zip(pos, o[1])]) > 0.5 for o in bs.values()):
                    break
            target = [centre[0] + rng.uniform(-0.4, 0.4), centre[1] + rng.uniform(-0.4, 0.4),
                      centre[2] + rng.uniform(-0.3, 0.3)]
            bs[b] = [_look_at_rotvec(pos, target, rng.uniform(-0.2, 0.2)), pos]
        cf = []
        tries = 0
        while len(cf) < n_cf and tries < 60 * n_cf:
            tries += 1
            pos = [rng.uniform(-1.0, 1.0), rng.uniform(-1.0, 1.0), rng.uniform(0.0, 1.0)]
            pose = [_cf_rotvec(rng.uniform(-math.pi, math.pi), rng.uniform(-max_tilt, max_tilt),
                               rng.uniform(-max_tilt, max_tilt)), pos]
            if in_envelope(pose, bs.values()):
                cf.append(pose)
        if len(cf) == n_cf:
            break
    # ---- visibility
    if mode == 'full':
        vis = [list(ids) for _ in range(n_cf)]
    elif mode == 'chain':
        # a random spanning chain guarantees linkage, the rest is random subsets of >= 2
        order = list(ids)
        rng.shuffle(order)
        links = [[order[k], order[k + 1]] for k in range(len(order) - 1)]
        vis = []
        for k in range(n_cf):
            if k < len(links):
                s = list(links[k])
            else:
                s = rng.sample(ids, rng.randint(2, len(ids)))
            for b in ids:
                if b not in s and rng.random() < 0.25:
                    s.append(b)
            vis.append(s)
        if n_cf < len(links):       # not enough poses for a chain: the last pose sees everything
            vis[-1] = list(ids)
        rng.shuffle(vis)
    else:
        order = list(ids)
        rng.shuffle(order)
        cut = rng.randint(2, len(order) - 2)
        ga, gb = order[:cut], order[cut:]
        vis = []
        for k in range(n_cf):
            g = ga if (k % 2 == 0) else gb
            if k < 2:
                vis.append(list(g))
            else:
                vis.append(rng.sample(g, rng.randint(2, len(g))))
        head = vis[:1]
        rest = vis[1:]
        rng.shuffle(rest)
        vis = head + rest
    return _with_timing(rng, ids, bs, cf, vis, mode)


def _with_timing(rng, ids, bs, cf, vis, mode):
    # ---- measurement order, repeats and time stamps
    max_time_diff = 0.020
    t = rng.uniform(0.0, 100.0)
    t0, dts, vis2 = [], [], []
    for s in vis:
        s = list(s)
        rng.shuffle(s)
        if rng.random() < 0.3:           # a station reported twice inside the window (same pose: same angles)
            s.insert(rng.randrange(len(s) + 1), rng.choice(s))
        kind = rng.randrange(3)
        if kind == 0:
            off = [0.0] * len(s)
        elif kind == 1:
            off = sorted(rng.uniform(0.0, 0.019) for _ in s)
            off[0] = 0.0
        else:
            off = [0.019 * k / max(1, len(s) - 1) for k in range(len(s))]
        t0.append(t)
        dts.append(off)
        vis2.append(s)
        t += rng.uniform(0.05, 2.0)
    return {'bs': {str(b): bs[b] for b in ids}, 'cf': cf, 'vis': vis2, 'dt': dts, 't0': t0,
            'max_time_diff': max_time_diff, 'min_bs': 2, 'mode': mode}


def _retimed(rng, room, vis, mode):
    ids = sorted(int(b) for b in room['bs'])
    bs = {b: room['bs'][str(b)] for b in ids}
    return _with_timing(rng, ids, bs, room['cf'], vis, mode)


def gen_sparse_link_room(rng, variant=None, need_premise=True, tries=12):
    """21..40 poses, 3..5 stations, partial visibility in which one station pair is shared by exactly ONE sample:
    'first_pair_once'  the pair of the FIRST sample (which defines the reference frame) is never seen together again;
    'only_link_once'   one station is linked to the rest through a single sample (and is seen nowhere else).
    With need_premise the room is re-drawn (up to `tries` times) until the premises of the decision-logic theorems hold
    for it (evaluated from the truth), so that nothing but a right answer is acceptable."""
    variant = variant or rng.choice(['first_pair_once', 'only_link_once'])
    last = None
    for _ in range(tries):
        n_bs = rng.randint(3, 5)
        room = gen_room(rng, n_bs=n_bs, n_cf=rng.randint(21, 40), mode='full')
        ids = sorted(int(b) for b in room['bs'])
        rng.shuffle(ids)
        n = len(room['cf'])
        if variant == 'first_pair_once':
            a, b, rest = ids[0], ids[1], ids[2:]
            vis = [[a, b]]
            for k in range(1, n):
                # never a and b together; c = rest[0] links both
                side = [a] if k % 2 else [b]
                others = rng.sample(rest, rng.randint(1, len(rest)))
                if k <= 2:
                    others = list(set(others) | {rest[0]})
                vis.append(side + others if rng.random() < 0.8 or len(others) < 2 else others)
        else:
            d, c, rest = ids[0], ids[1], ids[1:]
            at = rng.randrange(1, n)
            vis = []
            for k in range(n):
                if k == at:
                    vis.append([c, d])
                else:
                    vis.append(rng.sample(rest, rng.randint(2, len(rest))))
            if n_bs == 3:
                vis[0] = list(rest)
            # make sure the rest is linked: the first sample sees all of the rest
            vis[0] = list(rest)
        room = _retimed(rng, room, vis, 'sparse_' + variant)
        last = room
        if len(linked_components([s for s in room['vis'] if len(set(s)) >= 2])) != 1:
            continue
        if not need_premise:
            return room
        try:
            if decision_premise(room)['holds']:
                return room
        except Exception:  # noqa
            return room
    return last


def relabel_ids(room, new_ids):
    """The same room with its stations renamed: i-th smallest old id -> new_ids[i] (order preserving when new_ids is
    sorted, so that the estimator's lowest-id conventions see the same geometry)."""
    old = sorted(int(k) for k in room['bs'])
    mp = dict(zip(old, new_ids))
    out = dict(room)
    out['bs'] = {str(mp[int(k)]): v for k, v in room['bs'].items()}
    out['vis'] = [[mp[int(b)] for b in s] for s in room['vis']]
    return out


def colliding_ids(rng, k=None):
    """(a, a2, b) with a < a2 < b and (a << k) | b == (a2 << k) | b: the pairs (a, b) and (a2, b) collide under a key
    that packs the ids into k bits each (b needs more than k bits)."""
    k = k or rng.randint(3, 8)
    x = rng.randint(1, 3)
    t = rng.choice([i for i in range(2) if x >> i & 1])
    a0 = rng.randrange(1 << k)
    a, a2 = a0 & ~(1 << t), a0 | (1 << t)
    b = (x << k) | rng.randrange(1 << k)
    assert a < a2 < b and (a << k) | b == (a2 << k) | b
    return k, a, a2, b


def wide_ids(rng, n):
    """n distinct station ids, sorted: small (0..15), up to 255, large ints, or a set that collides under (a << k) | b."""
    r = rng.random()
    if r < 0.3 and n >= 3:
        _k, a, a2, b = colliding_ids(rng)
        ids = {a, a2, b}
        while len(ids) < n:
            ids.add(b + rng.randint(1, 200))
    elif r < 0.6:
        ids = set(rng.sample(range(256), n))
    elif r < 0.8:
        ids = set(rng.sample(range(16, 1 << 16), n))
    else:
        ids = set()
        while len(ids) < n:
            ids.add(rng.choice([rng.randrange(1 << 31), rng.randrange(1 << 40), (1 << 32) + rng.randrange(64), 255, 256]))
    return sorted(ids)


def gen_colliding_id_room(rng, k=None, need_premise=True, tries=12):
    """3..5 stations whose two lowest-id pairs (a, b), (a2, b) collide under a k-bit packed pair key, partial visibility
    chain in which BOTH colliding pairs are the lowest-id pair of several samples ((a, b) samples never see a2 and vice
    versa), 6..14 poses.  Re-drawn until the premise of the decision-logic theorems holds (from the truth)."""
    last = None
    for _ in range(tries):
        kk, a, a2, b = colliding_ids(rng, k)
        n_bs = rng.randint(3, 5)
        extras = []
        while len(extras) < n_bs - 3:
            e = b + rng.randint(1, 300)
            if e not in extras:
                extras.append(e)
        room = gen_room(rng, n_bs=n_bs, n_cf=rng.randint(6, 14), mode='full')
        room = relabel_ids(room, sorted([a, a2, b] + extras))
        n = len(room['cf'])
        vis = []
        for i in range(n):
            base = [a, b] if i % 2 == 0 else [a2, b]
            if i >= 2 and extras and rng.random() < 0.5:
                base = base + rng.sample(extras, rng.randint(1, len(extras)))
            vis.append(base)
        for e in extras:                       # every extra station is linked at least twice
            if sum(1 for s in vis if e in s) < 2:
                for i in rng.sample(range(n), 2):
                    if e not in vis[i]:
                        vis[i] = vis[i] + [e]
        room = _retimed(rng, room, vis, 'colliding_ids_k%d' % kk)
        last = room
        if len(linked_components([s for s in room['vis'] if len(set(s)) >= 2])) != 1:
            continue
        if not need_premise:
            return room
        try:
            if decision_premise(room)['holds']:
                return room
        except Exception:  # noqa
            return room
    return last


SEAM_EPS = [0.0, 0.0, 0.0, 1e-9, -1e-9, 1e-7, -1e-6, 1e-5, -1e-4, 1e-3]
LAYOUTS = {
    'opposite2': [(1, 0), (-1, 0)],
    'opposite2y': [(0, 1), (0, -1)],
    'adjacent2': [(1, 0), (0, 1)],
    'walls3': [(1, 0), (-1, 0), (0, 1)],
    'walls4': [(1, 0), (-1, 0), (0, 1), (0, -1)],
    'corners4': [(1, 1), (-1, 1), (-1, -1), (1, -1)],
    'walls2corners2': [(1, 0), (-1, 0), (1, 1), (-1, -1)],
    'walls4corners2': [(1, 0), (-1, 0), (0, 1), (0, -1), (1, 1), (-1, -1)],
}


def gen_structured_room(rng, layout=None):
    """A rectangular, axis-aligned room inside the same envelope: base stations on walls / in corners at one height,
    without roll, all facing the same point on the room's vertical axis (so stations on opposite walls are turned
    exactly half a turn to each other); the first Crazyflie pose level with yaw exactly 0, +-90 or 180 degrees (so
    stations on the walls are turned exactly 0 / a quarter / half a turn in the frame of the first sample), further
    poses exactly a half / quarter turn from the first one, plus perturbations 1e-9 .. 1e-3 rad around those seams."""
    layout = layout or rng.choice(sorted(LAYOUTS))
    spots = LAYOUTS[layout]
    ids = rng.sample(range(16), len(spots))
    n_cf = rng.randint(3, 12)
    while True:
        a = rng.choice([2.0, 2.25, 2.5])                # half width of the room (walls), corners at 0.7 a
        h = rng.choice([2.0, 2.25, 2.5])
        zt = rng.choice([0.5, 0.75, 1.0])
        bs = {}
        for b, (ux, uy) in zip(ids, spots):
            k = a if (ux == 0 or uy == 0) else 0.7 * a
            pos = [k * ux, k * uy, h]
            bs[b] = [_look_at_rotvec(pos, [0.0, 0.0, zt], 0.0), pos]
        yaw0 = rng.choice([0.0, math.pi / 2, -math.pi / 2, math.pi]) + rng.choice(SEAM_EPS)
        first = [_cf_rotvec(yaw0, 0.0, 0.0), [0.0, 0.0, rng.choice([0.0, 0.1, 0.3])]]
        if not in_envelope(first, bs.values()):
            continue
        cf = [first]
        tries = 0
        while len(cf) < n_cf and tries < 80 * n_cf:
            tries += 1
            r = rng.random()
            if r < 0.35:      # exactly (or nearly) half a turn from the first pose, level
                yaw, tilt = yaw0 + math.pi + rng.choice(SEAM_EPS), 0.0
            elif r < 0.55:    # a quarter turn
                yaw, tilt = yaw0 + rng.choice([-1, 1]) * math.pi / 2 + rng.choice(SEAM_EPS), 0.0
            elif r < 0.7:     # same heading
                yaw, tilt = yaw0 + rng.choice(SEAM_EPS), 0.0
            else:
                yaw, tilt = rng.uniform(-math.pi, math.pi), 0.15
            pos = [rng.choice([0.0, rng.uniform(-0.7, 0.7)]), rng.choice([0.0, rng.uniform(-0.7, 0.7)]),
                   rng.uniform(0.0, 0.6)]
            pose = [_cf_rotvec(yaw, rng.uniform(-tilt, tilt), rng.uniform(-tilt, tilt)), pos]
            if in_envelope(pose, bs.values()):
                cf.append(pose)
        if len(cf) == n_cf:
            break
    if len(ids) >= 3 and rng.random() < 0.4:
        # chained visibility: consecutive station pairs first, then everything
        vis = [[ids[k % len(ids)], ids[(k + 1) % len(ids)]] if k < len(ids) - 1 else list(ids) for k in range(n_cf)]
        if n_cf < len(ids) - 1:
            vis[-1] = list(ids)
    else:
        vis = [list(ids) for _ in range(n_cf)]
    return _with_timing(rng, ids, bs, cf, vis, 'structured_' + layout)


# ------------------------------------------------------------------ measurement synthesis with the library's own types

def _pose(rv_t):
    from cflib.localization.lighthouse_types import Pose
    return Pose.from_rot_vec(R_vec=rv_t[0], t_vec=rv_t[1])


def synthesize_angles(pose_cf, pose_bs):
    from cflib.localization.lighthouse_bs_vector import LighthouseBsVector, LighthouseBsVectors
    from cflib.localization.lighthouse_types import LhDeck4SensorPositions
    result = LighthouseBsVectors()
    for sens in LhDeck4SensorPositions.positions:
        g = pose_cf.rotate_translate(sens)
        b = pose_bs.inv_rotate_translate(g)
        result.append(LighthouseBsVector.from_cart(b))
    return result


def measurements(case):
    from cflib.localization.lighthouse_types import LhMeasurement
    bs = {int(k): _pose(v) for k, v in case['bs'].items()}
    out = []
    for k, cfp in enumerate(case['cf']):
        pc = _pose(cfp)
        for b, dt in zip(case['vis'][k], case['dt'][k]):
            out.append(LhMeasurement(timestamp=case['t0'][k] + dt, base_station_id=int(b),
                                     angles=synthesize_angles(pc, bs[int(b)])))
    return out


def ground_truth(case, ref_index=0):
    """Truth in the frame of Crazyflie pose `ref_index`: ({id: Pose}, [Pose])."""
    ref = _pose(case['cf'][ref_index])
    bs = {int(k): ref.inv_rotate_translate_pose(_pose(v)) for k, v in case['bs'].items()}
    cf = [ref.inv_rotate_translate_pose(_pose(v)) for v in case['cf']]
    return bs, cf


def pose_error(a, b):
    """(position error in m, rotation error in rad) between two Pose objects."""
    import numpy as np
    from scipy.spatial.transform import Rotation
    dp = float(np.linalg.norm(np.asarray(a.translation, dtype=float) - np.asarray(b.translation, dtype=float)))
    R = np.asarray(a.rot_matrix, dtype=float).T @ np.asarray(b.rot_matrix, dtype=float)
    try:
        da = float(np.linalg.norm(Rotation.from_matrix(R).as_rotvec()))
    except Exception:
        da = float('inf')
    if not (dp == dp and da == da):
        dp, da = float('inf'), float('inf')
    return dp, da


class exact_ippe:
    """Context manager: IppeCf.solve returns the TRUE pose (twice) for every projection list synthesised from `case`,
    so that everything after IPPE (frame changes, mirror vote, linkage, averaging, solver) is exercised without the
    planar two-fold ambiguity.  Unknown projections fall through to the real solver."""

    def __init__(self, case, jitter=0.0):
        self.case = case
        self.jitter = float(jitter)      # scatter of the delivered poses (rad / m), like error-free IPPE output (~1e-6)

    def __enter__(self):
        import numpy as np
        from cflib.localization import ippe_cf
        self.mod = ippe_cf
        self.orig = ippe_cf.IppeCf.solve
        table = {}
        bs = {int(k): _pose(v) for k, v in self.case['bs'].items()}
        for k, cfp in enumerate(self.case['cf']):
            pc = _pose(cfp)
            for b in set(self.case['vis'][k]):
                q = synthesize_angles(pc, bs[int(b)]).projection_pair_list()
                R = bs[int(b)].rot_matrix.T @ pc.rot_matrix
                t = bs[int(b)].rot_matrix.T @ (pc.translation - bs[int(b)].translation)
                table[np.asarray(q, dtype=float).tobytes()] = (R, t)
        orig = self.orig
        Solution = ippe_cf.IppeCf.Solution
        if self.jitter:
            import random as _random
            from scipy.spatial.transform import Rotation
            for key in sorted(table):
                rj = _random.Random(key)
                R, t = table[key]
                dR = Rotation.from_rotvec([rj.uniform(-1, 1) * self.jitter for _ in range(3)]).as_matrix()
                table[key] = (dR @ R, t + np.array([rj.uniform(-1, 1) * self.jitter for _ in range(3)]))

        def solve(U_cf, Q_cf):
            hit = table.get(np.asarray(Q_cf, dtype=float).tobytes())
            if hit is None:
                return orig(U_cf, Q_cf)
            return [Solution(hit[0].copy(), hit[1].copy(), 0.0), Solution(hit[0].copy(), hit[1].copy(), 0.0)]
        ippe_cf.IppeCf.solve = staticmethod(solve)
        return self

    def __exit__(self, *a):
        self.mod.IppeCf.solve = staticmethod(self.orig)
        return False


TOL_POS = 1e-3      # the property text: a millimetre
TOL_ROT = 1e-3      # and a milliradian


def run_pipeline(case, exact=False, jitter=0.0):
    """Run the tree's matcher -> initial estimator -> solver on the measurements of `case`.
    Returns a dict with 'outcome' ('ok' | 'raised'), the stage reached, error figures against the ground truth
    expressed in the frame of the first sample the estimator kept, and figures for the initial guess."""
    import warnings
    from cflib.localization.lighthouse_sample_matcher import LighthouseSampleMatcher
    from cflib.localization.lighthouse_initial_estimator import LighthouseInitialEstimator
    from cflib.localization.lighthouse_geometry_solver import LighthouseGeometrySolver
    from cflib.localization.lighthouse_types import LhDeck4SensorPositions
    res = {'outcome': 'ok', 'stage': None, 'exact_ippe': bool(exact)}
    with warnings.catch_warnings():
        warnings.simplefilter('ignore')
        try:
            res['stage'] = 'match'
            ms = measurements(case)
            matched = LighthouseSampleMatcher.match(ms, max_time_diff=case.get('max_time_diff', 0.02),
                                                    min_nr_of_bs_in_match=case.get('min_bs', 2))
            res['n_matched'] = len(matched)
            res['matched_keys'] = [sorted(int(k) for k in s.angles_calibrated.keys()) for s in matched]
            res['stage'] = 'estimate'
            if exact:
                with exact_ippe(case, jitter):
                    guess, cleaned = LighthouseInitialEstimator.estimate(matched, LhDeck4SensorPositions.positions)
            else:
                guess, cleaned = LighthouseInitialEstimator.estimate(matched, LhDeck4SensorPositions.positions)
            res['n_cleaned'] = len(cleaned)
            res['stage'] = 'solve'
            sol = LighthouseGeometrySolver.solve(guess, cleaned, LhDeck4SensorPositions.positions)
            res['stage'] = 'compare'
        except Exception as e:  # noqa
            res['outcome'] = 'raised'
            res['exc'] = type(e).__name__
            res['msg'] = str(e)[:200]
            return res
    # which generated pose does each kept sample belong to?  (group time stamp = time of its first measurement)
    t_first = [case['t0'][k] + case['dt'][k][0] for k in range(len(case['cf']))]
    kept = []
    for smp in cleaned:
        best = min(range(len(t_first)), key=lambda k: abs(t_first[k] - smp.timestamp))
        kept.append(best)
    res['kept'] = kept
    res['success'] = bool(sol.success)
    res['ids_answered'] = sorted(int(k) for k in sol.bs_poses.keys())
    res['n_cf_answered'] = len(sol.cf_poses)
    if not kept or len(sol.cf_poses) != len(kept) or len(guess.cf_poses) != len(kept):
        res['max_pos_err'] = res['max_rot_err'] = float('inf')
        res['worst'] = ['shape', -1, float('inf'), float('inf')]
        res['guess_bs'] = res['guess_cf'] = [float('inf'), float('inf')]
        return res
    bs_t, cf_t = ground_truth(case, kept[0])

    def errs(bs_poses, cf_poses):
        out = []
        for b, p in bs_poses.items():
            if int(b) in bs_t:
                out.append(['bs', int(b)] + list(pose_error(bs_t[int(b)], p)))
            else:
                out.append(['bs', int(b), float('inf'), float('inf')])
        for j, p in enumerate(cf_poses):
            out.append(['cf', kept[j]] + list(pose_error(cf_t[kept[j]], p)))
        return out
    fin = errs(sol.bs_poses, sol.cf_poses)
    ini = errs(guess.bs_poses, guess.cf_poses)
    res['max_pos_err'] = max(e[2] for e in fin)
    res['max_rot_err'] = max(e[3] for e in fin)
    res['worst'] = max(fin, key=lambda e: e[2] / TOL_POS + e[3] / TOL_ROT)
    gb = [e for e in ini if e[0] == 'bs']
    gc = [e for e in ini if e[0] == 'cf']
    res['guess_bs'] = [max(e[2] for e in gb), max(e[3] for e in gb)]
    res['guess_cf'] = [max(e[2] for e in gc), max(e[3] for e in gc)]
    return res


def run_estimator(case):
    """matcher -> initial estimator only (no solver).  {'outcome', 'n_matched', 'n_cleaned', 'guess_bs', 'guess_cf'}:
    worst (position, rotation) error of the initial estimate against the truth in the frame of the first kept sample."""
    import warnings
    from cflib.localization.lighthouse_sample_matcher import LighthouseSampleMatcher
    from cflib.localization.lighthouse_initial_estimator import LighthouseInitialEstimator
    from cflib.localization.lighthouse_types import LhDeck4SensorPositions
    res = {'outcome': 'ok'}
    with warnings.catch_warnings():
        warnings.simplefilter('ignore')
        try:
            matched = LighthouseSampleMatcher.match(measurements(case), max_time_diff=case.get('max_time_diff', 0.02),
                                                    min_nr_of_bs_in_match=case.get('min_bs', 2))
            res['n_matched'] = len(matched)
            guess, cleaned = LighthouseInitialEstimator.estimate(matched, LhDeck4SensorPositions.positions)
        except Exception as e:  # noqa
            return dict(res, outcome='raised', exc=type(e).__name__, msg=str(e)[:160])
    res['n_cleaned'] = len(cleaned)
    t_first = [case['t0'][k] + case['dt'][k][0] for k in range(len(case['cf']))]
    kept = [min(range(len(t_first)), key=lambda k: abs(t_first[k] - smp.timestamp)) for smp in cleaned]
    if not kept or len(guess.cf_poses) != len(kept):
        return dict(res, guess_bs=[float('inf')] * 2, guess_cf=[float('inf')] * 2)
    bs_t, cf_t = ground_truth(case, kept[0])
    eb = [pose_error(bs_t[int(b)], p) for b, p in guess.bs_poses.items()]
    ec = [pose_error(cf_t[kept[j]], p) for j, p in enumerate(guess.cf_poses)]
    res['guess_bs'] = [max(e[0] for e in eb), max(e[1] for e in eb)]
    res['guess_cf'] = [max(e[0] for e in ec), max(e[1] for e in ec)]
    res['ids'] = sorted(int(b) for b in guess.bs_poses)
    return res


def expected_ids(case):
    """Stations seen in at least one group of >= 2 distinct stations (what the matcher with min_bs = 2 passes on)."""
    out = set()
    for s in case['vis']:
        if len(set(s)) >= case.get('min_bs', 2):
            out.update(int(b) for b in s)
    return sorted(out)


EPS_TRUE = 1e-3     # a candidate counts as "true" when within 1 mm (/ 1 mrad) of the ground truth


def decision_premise(case):
    """Evaluate, from the ground truth, the premises of the Coq theorems C09_vote_sufficient_partial and
    C09_choose_sufficient_partial on the candidates the REAL IPPE delivers for this room (bucketing re-implemented here,
    independent of the estimator: first reference within accept_radius 0.8, 4 buckets, references = first sample's
    candidates).  Returns {'holds': bool, 'why': first violated premise or None, 'pairs': n, 'choices': n}."""
    import warnings
    import numpy as np
    from cflib.localization.ippe_cf import IppeCf
    from cflib.localization.lighthouse_initial_estimator import LighthouseInitialEstimator as E
    from cflib.localization.lighthouse_sample_matcher import LighthouseSampleMatcher
    from cflib.localization.lighthouse_types import LhDeck4SensorPositions
    S = LhDeck4SensorPositions.positions
    RADIUS, OUTLIER = 0.8, 0.5
    with warnings.catch_warnings():
        warnings.simplefilter('ignore')
        matched = LighthouseSampleMatcher.match(measurements(case), max_time_diff=case.get('max_time_diff', 0.02),
                                                min_nr_of_bs_in_match=case.get('min_bs', 2))
        bs = {int(b): _pose(v) for b, v in case['bs'].items()}
        cfs = [_pose(v) for v in case['cf']]
        t_first = [case['t0'][k] + case['dt'][k][0] for k in range(len(case['cf']))]
        sols = []          # per sample: {id: [pose, pose]}, and which of them are true
        for smp in matched:
            k = min(range(len(t_first)), key=lambda i: abs(t_first[i] - smp.timestamp))
            d = {}
            for b, ang in smp.angles_calibrated.items():
                est = E._convert_estimates_to_cf_reference_frame(IppeCf.solve(S, ang.projection_pair_list()))
                truth = cfs[k].inv_rotate_translate_pose(bs[int(b)])
                d[int(b)] = [(p, max(pose_error(truth, p)) < EPS_TRUE) for p in est]
            sols.append(d)
    out = {'holds': True, 'why': None, 'pairs': 0, 'choices': 0}

    def fail(why):
        if out['holds']:
            out['holds'], out['why'] = False, why
    # ---- vote premise per station pair
    expected = {}
    pairs = {}
    for d in sols:
        ids = sorted(d)
        for a in range(len(ids)):
            for b in range(a + 1, len(ids)):
                i, j = ids[a], ids[b]
                cands = [(pi.inv_rotate_translate_pose(pj).translation, ti and tj) for pi, ti in d[i] for pj, tj in d[j]]
                pairs.setdefault((i, j), []).append(cands)
    for (i, j), lists in pairs.items():
        out['pairs'] += 1
        true_rel = bs[i].inv_rotate_translate_pose(bs[j]).translation
        refs = [c for c, _ in lists[0]]
        buckets = [[], [], [], []]
        for cands in lists:
            for c, _t in cands:
                for r in range(len(refs)):
                    if np.linalg.norm(c - refs[r]) < RADIUS:
                        buckets[r].append(c)
                        break
        is_true = [[bool(np.linalg.norm(c - true_rel) < EPS_TRUE) for c in b] for b in buckets]
        homes = [r for r in range(4) if any(is_true[r])]
        n_true_all = sum(1 for cands in lists for c, _t in cands if np.linalg.norm(c - true_rel) < EPS_TRUE)
        if len(homes) != 1 or sum(is_true[homes[0]]) != n_true_all:
            fail('vote: the true candidates of pair (%d, %d) do not fall into one bucket' % (i, j))
            continue
        h = homes[0]
        for r in range(4):
            # first largest bucket wins: a bucket with a non-true candidate must not be h, must be strictly smaller than
            # bucket h when it comes before it and not larger when it comes after it
            if not all(is_true[r]) and (r == h or (r < h and not len(buckets[r]) < len(buckets[h]))
                                        or (r > h and not len(buckets[r]) <= len(buckets[h]))):
                fail('vote: bucket %d of pair (%d, %d) holds a non-true candidate and has %d entries against %d of the '
                     'true bucket %d' % (r, i, j, len(buckets[r]), len(buckets[h]), h))
        expected[(i, j)] = np.mean(buckets[h], axis=0)
    # ---- choice premise per sample and (first, other)
    for d in sols:
        ids = sorted(d)
        for o in ids[1:]:
            f = ids[0]
            if (f, o) not in expected:
                continue
            out['choices'] += 1
            e = expected[(f, o)]
            dist = [(float(np.linalg.norm(e - p1.inv_rotate_translate_pose(p2).translation)), t1 and t2)
                    for p1, t1 in d[f] for p2, t2 in d[o]]
            dt = [x for x, t in dist if t]
            dn = [x for x, t in dist if not t]
            if not dt:
                fail('choice: IPPE delivered no true pair for stations (%d, %d) in a sample' % (f, o))
            elif dn and not max(dt) < min(dn):
                fail('choice: a non-true pair of (%d, %d) is as near to the voted position as a true pair' % (f, o))
            elif not max(dt) <= OUTLIER:
                fail('choice: a true pair of (%d, %d) fails the outlier test' % (f, o))
    return out


def vote_diagnosis(case):
    """Why is the initial base-station estimate wrong?  Re-runs the estimator's own vote on the error-free samples and
    compares with the truth.  Returns
      'vote_right'             every voted relative station position is within 1 cm of the truth
      'mirror_bucket_outvotes' for some station pair the true candidates fill one bucket, unmixed, one per sample,
                               and ANOTHER bucket (mirror candidates only) holds more entries and wins the vote
      'vote_polluted'          otherwise (the winning bucket mixes true and mirror candidates, ...)
      None                     the estimator's internals could not be driven (refactored)."""
    try:
        import warnings
        import numpy as np
        from cflib.localization.ippe_cf import IppeCf
        from cflib.localization.lighthouse_initial_estimator import LighthouseInitialEstimator as E
        from cflib.localization.lighthouse_sample_matcher import LighthouseSampleMatcher
        from cflib.localization.lighthouse_types import LhDeck4SensorPositions
        S = LhDeck4SensorPositions.positions
        with warnings.catch_warnings():
            warnings.simplefilter('ignore')
            matched = LighthouseSampleMatcher.match(measurements(case), max_time_diff=case.get('max_time_diff', 0.02),
                                                    min_nr_of_bs_in_match=case.get('min_bs', 2))
            bs = {int(b): _pose(v) for b, v in case['bs'].items()}
            perms = {}
            for smp in matched:
                sols = {}
                for b, ang in smp.angles_calibrated.items():
                    sols[b] = E._convert_estimates_to_cf_reference_frame(IppeCf.solve(S, ang.projection_pair_list()))
                E._add_solution_permutations(sols, perms)
            voted = E._find_most_likely_positions(perms)
        worst = 'vote_right'
        for pair, lists in perms.items():
            true = bs[int(pair[0])].inv_rotate_translate_pose(bs[int(pair[1])]).translation
            if float(np.linalg.norm(voted[pair] - true)) <= 1e-2:
                continue
            buckets = [[], [], [], []]
            E._map_positions_to_ref(lists[0], lists, buckets)
            n_true = [sum(1 for q in b if float(np.linalg.norm(q - true)) < 1e-3) for b in buckets]
            lens = [len(b) for b in buckets]
            home = max(range(4), key=lambda i: n_true[i])
            if (n_true[home] == len(lists) and lens[home] == len(lists) and sum(n_true) == len(lists)
                    and max(lens) > lens[home]):
                if worst == 'vote_right':
                    worst = 'mirror_bucket_outvotes'
            else:
                worst = 'vote_polluted'
        return worst
    except Exception:  # noqa
        return None


def judge(case, res, station_check=True):
    """The property text applied to one pipeline result.  Returns None (holds) or (class, expected, observed, detail)."""
    comps = linked_components([s for s in case['vis'] if len(set(s)) >= 2])
    pre = 'exact_ippe_' if res.get('exact_ippe') else ''
    if len(comps) > 1:
        if res['outcome'] == 'raised' and res.get('exc') == 'LhException':
            return None
        if res['outcome'] == 'raised':
            return (pre + 'unlinked_system_crashes_' + res.get('exc', '?'), 'LhException', res.get('exc'),
                    'stations fall into %d groups never seen together: %s; %s' % (len(comps), comps, res.get('msg')))
        return (pre + 'unlinked_system_answered', 'LhException', 'answer for ids %s' % res.get('ids_answered'),
                'stations fall into %d groups never seen together: %s' % (len(comps), comps))
    if res['outcome'] == 'raised':
        if res.get('exc') == 'LhException':
            return (pre + 'linked_system_rejected', 'poses', 'LhException: %s' % res.get('msg'), 'stage %s' % res['stage'])
        return (pre + 'pipeline_raises_' + res.get('exc', '?'), 'poses', '%s: %s' % (res.get('exc'), res.get('msg')),
                'stage %s' % res['stage'])
    bad_acc = not (res['max_pos_err'] <= TOL_POS and res['max_rot_err'] <= TOL_ROT)
    missing = res['ids_answered'] != expected_ids(case)
    if missing and station_check:
        return (pre + 'station_set_wrong', expected_ids(case), res['ids_answered'],
                'samples matched %s, kept %s' % (res.get('n_matched'), res.get('n_cleaned')))
    obs = {'stations_expected': expected_ids(case), 'stations_answered': res['ids_answered'],
           'max_pos_err_m': res['max_pos_err'], 'max_rot_err_rad': res['max_rot_err'], 'worst': res['worst'],
           'solver_success': res.get('success'), 'initial_guess_bs_err': res.get('guess_bs'),
           'initial_guess_cf_err': res.get('guess_cf'), 'samples_matched': res.get('n_matched'),
           'samples_kept': res.get('n_cleaned')}
    exp = 'all poses within 1 mm / 1 mrad of the truth in the frame of the first sample, every sample answered'
    if bad_acc:
        if res.get('exact_ippe'):
            return ('exact_ippe_wrong_answer', exp, obs, 'wrong although IPPE was replaced by the exact pose')
        gb, gc = res.get('guess_bs', [0, 0]), res.get('guess_cf', [0, 0])
        if gb[0] > 1e-2 or gb[1] > 1e-2:
            why = vote_diagnosis(case)
            obs['vote_diagnosis'] = why
            det = 'the initial estimate of a base-station pose is already off by %.3g m / %.3g rad' % tuple(gb)
            if why == 'vote_right':
                return ('initial_bs_pose_wrong_although_vote_right', exp, obs,
                        det + '; the mirror vote itself returns the true relative station positions')
            if why == 'mirror_bucket_outvotes':
                return ('mirror_bucket_outvotes_true_bucket', exp, obs,
                        det + '; the true candidates fill one unmixed bucket, a bucket of mirror candidates holds more')
            return ('mirror_vote_wrong_initial_bs_pose', exp, obs, det)
        if gc[1] > 1e-1 or gc[0] > 1e-1:
            return ('mirror_choice_wrong_initial_cf_pose', exp, obs,
                    'base-station guess fine, but the initial estimate of a Crazyflie pose is off by %.3g m / %.3g rad'
                    % tuple(gc))
        return ('solver_wrong_from_good_initial_guess', exp, obs, '')
    if res.get('n_cleaned') != res.get('n_matched') or res['kept'][:1] != [0]:
        return (pre + 'error_free_sample_discarded', exp, obs,
                '%d of %d error-free samples were discarded as outliers (kept: %s)' % (
                    res['n_matched'] - res['n_cleaned'], res['n_matched'], res['kept']))
    if not res.get('success') and res.get('exact_ippe'):
        # (unpatched runs: the property text asks for the right poses, which were returned; `success` False after a poor
        #  initial estimate is not held against the code)
        return (pre + 'solver_reports_failure_on_right_answer', 'success', obs, '')
    return None


def judge_with_premise(case, res):
    """judge() plus the premise of the decision-logic theorems evaluated from the truth (unpatched runs of linked
    rooms only).  premise holds  => the estimator must be right: any failure becomes `premise_holds_but_estimator_wrong`
    (never a known finding); premise fails => known-finding territory (classes of judge(), and a rejected linked system
    is attributed to the discarded samples).  Returns (judgement or None, premise dict or None)."""
    j = judge(case, res)
    if res.get('exact_ippe') or len(linked_components([s for s in case['vis'] if len(set(s)) >= 2])) > 1:
        return j, None
    try:
        pr = decision_premise(case)
    except Exception as e:  # noqa
        pr = {'holds': None, 'why': 'premise could not be evaluated: %r' % (e,), 'pairs': 0, 'choices': 0}
    if j and pr['holds'] is True:
        obs = j[2] if isinstance(j[2], dict) else {'observed': j[2]}
        obs = dict(obs, class_without_premise=j[0], premise=pr)
        return ('premise_holds_but_estimator_wrong', j[1], obs,
                'the premises of C09_vote_sufficient_partial / C09_choose_sufficient_partial hold for every station pair '
                'and sample of this room (evaluated from the truth), so the decision logic must pick the true candidates; '
                + str(j[3])), pr
    if j and pr['holds'] is False and j[0] == 'station_set_wrong' and res.get('n_cleaned') != res.get('n_matched'):
        # stations are missing because error-free samples were discarded (the only samples linking them): with the
        # premise failing this is the discard / wrong-vote mechanism, classified like any other wrong answer
        j2 = judge(case, res, station_check=False)
        if j2 is not None:
            j = (j2[0], j2[1], j2[2], str(j2[3]) + '; stations %s not answered (their samples were discarded)' % sorted(
                set(expected_ids(case)) - set(res['ids_answered'])))
    if j and pr['holds'] is False:
        if j[0] == 'linked_system_rejected':
            return ('linked_system_rejected_links_discarded', j[1], j[2], str(j[3]) + '; premise violated: ' + str(pr['why'])), pr
        if isinstance(j[2], dict):
            j[2]['premise_violated'] = pr['why']
    return j, pr


def sub_case(case, keep_cf, keep_bs):
    """The room restricted to some poses and stations (visibility lists filtered accordingly)."""
    keep_bs = set(int(b) for b in keep_bs)
    out = {'bs': {k: v for k, v in case['bs'].items() if int(k) in keep_bs}, 'cf': [], 'vis': [], 'dt': [], 't0': [],
           'max_time_diff': case.get('max_time_diff', 0.02), 'min_bs': case.get('min_bs', 2), 'mode': case.get('mode')}
    for k in keep_cf:
        pairs = [(b, d) for b, d in zip(case['vis'][k], case['dt'][k]) if int(b) in keep_bs]
        if len(set(b for b, _ in pairs)) < 2:
            continue
        d0 = pairs[0][1]
        out['cf'].append(case['cf'][k])
        out['vis'].append([b for b, _ in pairs])
        out['dt'].append([d - d0 for _, d in pairs])
        out['t0'].append(case['t0'][k] + d0)
    return out


def minimise(case, cls, exact=False, log=None, min_poses=3):
    """Greedy reduction (drop stations, then poses) keeping the failure class and staying inside the envelope
    (>= 2 stations, >= 3 poses)."""
    def fails(c):
        if len(c['cf']) < min_poses or len(c['bs']) < 2:
            return False
        if len(linked_components(c['vis'])) != len(linked_components(case['vis'])):
            return False
        j = judge(c, run_pipeline(c, exact=exact))
        return j is not None and j[0] == cls
    cur = case
    changed = True
    while changed:
        changed = False
        for b in sorted(int(x) for x in cur['bs']):
            cand = sub_case(cur, range(len(cur['cf'])), [int(x) for x in cur['bs'] if int(x) != b])
            if fails(cand):
                cur, changed = cand, True
                if log:
                    log('dropped station %d -> %d stations %d poses' % (b, len(cur['bs']), len(cur['cf'])))
        k = len(cur['cf']) - 1
        while k >= 0:
            cand = sub_case(cur, [i for i in range(len(cur['cf'])) if i != k], [int(x) for x in cur['bs']])
            if len(cand['cf']) == len(cur['cf']) - 1 and fails(cand):
                cur, changed = cand, True
                if log:
                    log('dropped pose %d -> %d stations %d poses' % (k, len(cur['bs']), len(cur['cf'])))
            k -= 1
    return cur
