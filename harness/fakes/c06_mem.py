"""C06 — driving the real `cflib.crazyflie.mem.Memory` single-threaded against a scripted memory server.

* `FakeCF` is the `cf` object handed to `Memory`: it records `send_packet` calls and hands every request
  packet to the server at once; the packet callback registered for port 4 is kept and fed directly.
* The server (`Rig.serve`) keeps a byte image per memory id (initial content = `test_mem`, the same formula as
  `test_mem` of coq/C06/Model.v), serves read / write request packets and appends one reply per request to
  `Rig.log`.  Replies are delivered only by explicit `['D', k]` events: any index, any number of times.
  `plan[n]` is the status the server answers the n-th request with (0 = done, else refused, nothing done).
* Every request is issued with its own memory object (same `id`, distinct `uid`), so the notifications
  (`mem_read_cb(mem, addr, data)` …) identify the request they belong to.
* The lock of `Memory` is replaced by `FakeLock` (same interface): a second `acquire` raises `WouldBlock`
  instead of blocking the harness for ever, and `locked()` is observable after every event.

Event (JSON-able):
  ['R', id, addr, len]                 Memory.read
  ['W', id, addr, [bytes], flush]      Memory.write(..., flush_queue=flush)
  ['D', k]                             deliver reply number k of the log (no-op if it does not exist)
  ['P', chan, [bytes]]                 a packet on port 4 that the server never produced
  ['X']                                cf.disconnected fires
An 'R' / 'W' event may carry one more element, a reaction {'on': 'ok'|'fail'|'any', 'op': <R or W event>}: when the
request is notified accordingly (not by a disconnect) the listener issues `op` from INSIDE the notification callback
(a re-entrant call into Memory, e.g. a retry).  The nested call is reported as an event of its own right after the
event in which it happened (`Rig.flat` is the flattened history): the code calls its listeners last, so a request
issued from a listener must behave exactly like one issued right after the event.
Deck layer (memory id DECK_ID, a real DeckMemoryManager registered on Memory's notifications like
_handle_cmd_info_details does, and real DeckMemory objects, one per base address):
  ['DR', base, addr, len, tok]         DeckMemory(base).read(addr, len, cb, read_failed_cb)
  ['DW', base, addr, [bytes], tok]     DeckMemory(base).write(addr, data, cb, write_failed_cb)
a negative tok: the optional failure callback is not passed.
their callbacks are reported as 12 (read done: tok, reported address, data), 13 (read failed), 14 (write done),
15 (write failed), like `enc_dobs` of coq/C06/DeckModel.v.
Observations are encoded as integers exactly like `enc_obs` / `sys_trace` of the model.
"""
import logging


class WouldBlock(BaseException):
    """acquire() on a lock that is held and that nobody will release"""


class FakeLock:
    def __init__(self):
        self.held = False
        self.on_release = None

    def acquire(self, blocking=True, timeout=-1):
        if self.held:
            if not blocking:
                return False
            raise WouldBlock()
        self.held = True
        return True

    def release(self):
        if not self.held:
            raise RuntimeError('release unlocked lock')
        self.held = False
        if self.on_release is not None:
            self.on_release()        # a thread that waited for the lock runs now

    def locked(self):
        return self.held

    def __enter__(self):
        self.acquire()
        return True

    def __exit__(self, *a):
        self.release()
        return False


def strip(ev):
    """the event without its reaction"""
    if ev[0] == 'R':
        return list(ev[:4])
    if ev[0] == 'W':
        return list(ev[:5])
    return list(ev)


def all_ops(events):
    """events and, recursively, the operations their reactions may issue"""
    for ev in events:
        yield ev
        r = ev[4] if ev[0] == 'R' and len(ev) > 4 else ev[5] if ev[0] == 'W' and len(ev) > 5 else None
        if r:
            for x in all_ops([r['op']]):
                yield x


def test_mem(i, a):
    return (a * 31 + i * 17 + (a // 256) * 7 + 5) % 256


class FakeCF:
    def __init__(self, rig):
        from cflib.utils.callbacks import Caller
        self.rig = rig
        self.disconnected = Caller()
        self.port_cbs = []
        self.link = None

    def add_port_callback(self, port, cb):
        self.port_cbs.append((port, cb))

    def remove_port_callback(self, port, cb):
        self.port_cbs.remove((port, cb))

    def send_packet(self, pk, expected_reply=(), resend=False, timeout=0.2):
        self.rig.on_send(pk, expected_reply, resend, timeout)


MEM_CLASSES = ('MemoryElement', 'MemoryTester', 'DeckMemoryManager')
DECK_ID = 6


class Rig:
    def __init__(self, plan=()):
        import cflib.crazyflie.mem as memmod
        self.memmod = memmod
        logging.getLogger('cflib.crazyflie.mem').setLevel(logging.CRITICAL)
        self.cf = FakeCF(self)
        self.mem = memmod.Memory(self.cf)
        self.locks = []
        for k, v in list(vars(self.mem).items()):
            if type(v).__name__ == 'lock' and hasattr(v, 'acquire'):
                fl = FakeLock()
                fl.on_release = self._lock_released
                setattr(self.mem, k, fl)
                self.locks.append(fl)
        if not self.locks:
            raise RuntimeError('Memory object has no lock attribute: harness does not know this shape')
        self.plan = list(plan)
        self.image = {}            # (id, addr) -> byte, overlay on test_mem
        self.log = []              # [chan, bytes, epoch key, epoch value]
        self.served = 0
        self.sent = []             # every request packet: (chan, bytes)
        self.uid = 0
        self.cur = None            # observations of the event being executed
        self.epoch = {}            # (chan, id) -> int   (observable notion of freshness)
        self.anomalies = []        # send_packet calls that are not what the protocol needs
        self.notes = []            # (event index, notification tuple) for the oracle
        self.stream = []           # packets and notifications in the order they happen (for the oracle)
        self.want_pre = False      # record the image of the memory before each write packet is served
        self.ev_index = -1
        self.flat = []             # the history as executed: nested (re-entrant) operations as events of their own
        self.frames = []           # observation frames of the event being executed
        self.in_disc = False
        self.early = False         # EARLY replies: the reply to a request packet sent by a caller's thread is dispatched
        #                            before that thread executes its next statement (at once; if the caller holds
        #                            the write lock, as soon as it releases it: the dispatcher waited for the lock)
        self.in_call = 0           # inside read() / write() / refresh() ... made by the caller's thread
        self.in_delivery = 0       # inside the dispatcher (a packet handler, the link-drop handler)
        self.early_queue = []
        self.early_done = []       # replies delivered early, in order
        self.note_count = 0        # notifications delivered so far
        self.policy = []           # [n, request] : the listener of the n-th notification issued that request
        self.top = []              # the top-level events as executed
        self.last_raised = False
        self.last_hung = False
        self.obs_after_nested = 0  # observations the outer handler produced after a re-entrant call returned
        self.mgr = None            # the DeckMemoryManager (created with the first deck operation / after a disconnect)
        self.mgr_uid = {'r': None, 'w': None}
        self.decks = {}
        self.deck_react = {}       # token -> reaction of the caller's deck callback
        self.nested_deck = 0       # deck requests made from inside deck callbacks
        self.deck_acc = True
        self.last_read_ret = None
        orig_read = self.mem.read

        self.elem_uid = {}

        def read_and_remember(memory, *a, **k):
            own = memory is not self.mgr and not hasattr(memory, 'uid')    # an element the code created itself
            key = (id(memory), 'r')
            keep = self.elem_uid.get(key)
            if own:
                self.elem_uid[key] = self.uid          # needed while the first request packet is sent
            self.last_read_ret = orig_read(memory, *a, **k)
            if own:
                self.cur += [6, 1 if self.last_read_ret else 0]      # what read() returned to the element
                if self.last_read_ret:
                    self.uid += 1
                elif keep is None:
                    self.elem_uid.pop(key, None)
                else:
                    self.elem_uid[key] = keep
            return self.last_read_ret
        self.mem.read = read_and_remember
        orig_write = self.mem.write

        def write_and_remember(memory, *a, **k):
            if memory is not self.mgr and not hasattr(memory, 'uid'):      # a write issued by an element of the code itself
                self.elem_uid[(id(memory), 'w')] = self.uid
                self.uid += 1
            return orig_write(memory, *a, **k)
        self.mem.write = write_and_remember
        self._register()

    # ---- wiring
    def _register(self):
        m = self.mem
        m.mem_read_cb.add_callback(self._rok)
        m.mem_read_failed_cb.add_callback(self._rfail)
        m.mem_write_cb.add_callback(self._wok)
        m.mem_write_failed_cb.add_callback(self._wfail)

    def _bump(self, chan, i):
        self.epoch[(chan, i)] = self.epoch.get((chan, i), 0) + 1

    def _rok(self, mem, addr, data):
        self._bump(1, mem.id)
        self.notes.append((self.ev_index, ('rok', self._uid_of(mem, 'r'), mem.id, addr, list(data))))
        img = {a: b for (j, a), b in self.image.items() if j == mem.id} if self.want_pre else None
        self.stream.append(('n', self.notes[-1][1], img, self.locked()))
        self.cur += [2, self._uid_of(mem, 'r'), mem.id, addr, len(data)] + list(data)
        self._react(mem, 'ok')

    def _rfail(self, mem, addr, data):
        self._bump(1, mem.id)
        self.notes.append((self.ev_index, ('rfail', self._uid_of(mem, 'r'), mem.id, addr, list(data))))
        self.stream.append(('n', self.notes[-1][1], None, self.locked()))
        self.cur += [3, self._uid_of(mem, 'r'), mem.id, addr, len(data)] + list(data)
        self._react(mem, 'fail')

    def _wok(self, mem, addr):
        self._bump(2, mem.id)
        self.notes.append((self.ev_index, ('wok', self._uid_of(mem, 'w'), mem.id, addr)))
        img = {a: b for (j, a), b in self.image.items() if j == mem.id} if self.want_pre else None
        self.stream.append(('n', self.notes[-1][1], img, self.locked()))
        self.cur += [4, self._uid_of(mem, 'w'), mem.id, addr]
        self._react(mem, 'ok')

    def _wfail(self, mem, addr):
        self._bump(2, mem.id)
        self.notes.append((self.ev_index, ('wfail', self._uid_of(mem, 'w'), mem.id, addr)))
        self.stream.append(('n', self.notes[-1][1], None, self.locked()))
        self.cur += [5, self._uid_of(mem, 'w'), mem.id, addr]
        self._react(mem, 'fail')

    def new_mem(self, i, react=None):
        import cflib.crazyflie.mem as memmod
        cls = getattr(memmod, MEM_CLASSES[self.uid % len(MEM_CLASSES)])
        o = cls(id=i, type=0, size=0x1000000, mem_handler=self.mem)
        o.uid = self.uid
        o.react = react
        return o

    # ---- deck layer
    def _uid_of(self, mem, kind):
        if mem is self.mgr:
            return self.mgr_uid[kind]
        if hasattr(mem, 'uid'):
            return mem.uid
        return self.elem_uid[(id(mem), kind)]      # an element the code created itself (c06_info.InfoRig)

    def _do_other(self, ev):
        raise ValueError(ev)

    def _after_disc(self):
        pass

    def _deck_manager(self):
        if self.mgr is None:
            m = self.memmod.DeckMemoryManager(id=DECK_ID, type=0x19, size=0x7FFFFFFF, mem_handler=self.mem)
            self.mem.mem_read_cb.add_callback(m._new_data)
            self.mem.mem_read_failed_cb.add_callback(m._new_data_failed)
            self.mem.mem_write_cb.add_callback(m._write_done)
            self.mem.mem_write_failed_cb.add_callback(m._write_failed)
            self.mgr = m
            self.decks = {}
        return self.mgr

    def _deck(self, base):
        mgr = self._deck_manager()
        if base not in self.decks:
            from cflib.crazyflie.mem.deck_memory import DeckMemory
            d = DeckMemory(mgr, 0x1000 + 0x20 * len(self.decks))
            d._base_address = base
            d._bit_field1 = DeckMemory.MASK_IS_VALID | DeckMemory.MASK_IS_STARTED | DeckMemory.MASK_SUPPORTS_READ | \
                DeckMemory.MASK_SUPPORTS_WRITE
            d.name = 'deck%X' % base
            self.decks[base] = d
        return self.decks[base]

    def _dnote(self, kind, tok, a, data=None):
        code = {'drok': 12, 'drfail': 13, 'dwok': 14, 'dwfail': 15}[kind]
        self.stream.append(('dn', kind, tok, a, data))
        self.cur += [code, tok, a] + ([len(data)] + data if data is not None else [])
        # the caller's deck callback may issue the next deck request from inside (next block, retry)
        r = self.deck_react.pop(tok, None)
        if r and not self.in_disc and r['on'] in ('any', 'ok' if kind in ('drok', 'dwok') else 'fail'):
            keep = self.cur
            fr = {'fresh': True, 'obs': [], 'lock': None, 'nested': False, 'early': -1}
            self.frames.append(fr)
            self.cur = fr['obs']
            self.nested_deck += 1
            try:
                self._issue_deck(r['op'])
            except WouldBlock:
                raise
            except Exception as e:
                # the manager refused (or something raised): seen by the caller's callback; nothing of the handler
                # follows the deck listener, so recording it with the nested request loses nothing
                self.cur += [7]
                self.last_raised = True
                self.last_exc = '%s: %s' % (type(e).__name__, e)
            finally:
                fr['lockend'] = self.locked()
                self.cur = keep

    def _issue_deck(self, ev):
        self.flat.append(list(ev[:5]))
        if len(ev) > 5 and ev[5]:
            self.deck_react[ev[4]] = ev[5]
        u0 = self.uid
        self.stream.append(('dop', ev, u0))
        dk = self._deck(ev[1])
        tok = ev[4]
        self.in_call += 1
        try:
            self._issue_deck_call(dk, ev, tok, u0)
        finally:
            self.in_call -= 1
        self.stream.append(('dopret', ev, u0, self.uid, self.deck_acc if ev[0] == 'DR' else True))

    def _issue_deck_call(self, dk, ev, tok, u0):
        if ev[0] == 'DR':
            self.last_read_ret = None
            # the uid is taken before the call (an early reply may complete the read, and the caller's callback make
            # the next request, before the call returns); the manager refuses while a read is outstanding
            pred = self.mgr._read_complete_cb is None and DECK_ID not in self.mem._read_requests
            if pred:
                self.mgr_uid['r'] = u0
                self.uid += 1
            if tok >= 0:
                dk.read(ev[2], ev[3], lambda a, data: self._dnote('drok', tok, a, list(data)),
                        read_failed_cb=lambda a: self._dnote('drfail', tok, a))
            else:                  # a negative token: the caller passes no failure callback (it is optional)
                dk.read(ev[2], ev[3], lambda a, data: self._dnote('drok', tok, a, list(data)))
            if bool(self.last_read_ret) != pred:
                self.uid += 1 if self.last_read_ret else -1
            self.cur += [6, 1 if self.last_read_ret else 0]
            self.deck_acc = bool(self.last_read_ret)
        else:
            if self.mgr._write_complete_cb is None:
                self.mgr_uid['w'] = u0
                self.uid += 1
            if tok >= 0:
                dk.write(ev[2], bytearray(ev[3]), lambda a: self._dnote('dwok', tok, a),
                         write_failed_cb=lambda a: self._dnote('dwfail', tok, a))
            else:
                dk.write(ev[2], bytearray(ev[3]), lambda a: self._dnote('dwok', tok, a))
            self.cur += [6, 1]

    # ---- frames, re-entrant listeners
    def _new_frame(self, fresh):
        self.frames.append({'fresh': fresh, 'obs': [], 'lock': None, 'nested': False})
        self.cur = self.frames[-1]['obs']

    def _react(self, mem, kind):
        """end of every notification listener: n-th notification delivered; the listener may issue a request"""
        n = self.note_count
        self.note_count += 1
        r = getattr(mem, 'react', None)
        if not r or r['on'] not in ('any', kind):
            return
        mem.react = None
        self.policy.append([n, strip(r['op'])])
        lk = self.locked()
        self._new_frame(True)
        self.frames[-1]['nested'] = True
        self.frames[-1]['lock'] = lk                 # was the write lock held when the listener made its call
        self.frames[-1]['in_disc'] = self.in_disc
        self._issue(r['op'])
        self.frames[-1]['mark'] = len(self.cur)      # what a reply / error-status handler does from here on is out of place

    def _issue(self, ev):
        self.flat.append(strip(ev))
        u0 = self.uid
        self.stream.append(('op', ev, u0))
        react = ev[4] if ev[0] == 'R' and len(ev) > 4 else ev[5] if ev[0] == 'W' and len(ev) > 5 else None
        m = self.new_mem(ev[1], react)
        self.in_call += 1
        try:
            # the uid is taken before the call: an early reply may complete the request, and its listener make another
            # request, before the call returns
            if ev[0] == 'R':
                pred = ev[1] not in self.mem._read_requests
                if pred:
                    self.uid += 1
                r = self.mem.read(m, ev[2], ev[3])
                if bool(r) != pred:
                    self.uid += 1 if r else -1
            else:
                self.uid += 1
                r = self.mem.write(m, ev[2], bytearray(ev[3]), flush_queue=bool(ev[4]))
                if not r:
                    self.uid -= 1
        finally:
            self.in_call -= 1
        self.cur += [6, 1 if r else 0]
        self.stream.append(('opret', ev, u0, self.uid, bool(r)))

    # ---- the server
    def byte(self, i, a):
        return self.image.get((i, a), test_mem(i, a))

    def on_send(self, pk, expected_reply, resend, timeout):
        data = list(pk.data)
        chan = pk.channel
        if pk.port != 4 or chan not in (1, 2) or tuple(expected_reply) != tuple(data[:5]) or resend or timeout != 1 \
                or len(data) > 30:
            self.anomalies.append({'port': pk.port, 'channel': chan, 'data': data,
                                   'expected_reply': list(expected_reply), 'resend': resend, 'timeout': timeout})
        self.cur += [1, chan, len(data)] + data
        self.sent.append((chan, data))
        pre = None
        if self.want_pre and chan == 2 and data:
            pre = {a: b for (j, a), b in self.image.items() if j == data[0]}
        self.stream.append(('s', chan, data, pre))
        n0 = len(self.log)
        self.serve(chan, data)
        self._maybe_early(n0)

    # ---- early replies
    def _maybe_early(self, n0):
        if not self.early or self.in_call == 0 or self.in_delivery or len(self.log) == n0:
            return
        self.early_queue.append(len(self.log) - 1)
        if not self.locked():
            self._lock_released()

    def _lock_released(self):
        if not self.early or self.in_delivery or self.locked():
            return
        while self.early_queue:
            k = self.early_queue.pop(0)
            keep = self.cur
            fr = {'fresh': self.fresh(['D', k]), 'obs': [], 'lock': None, 'nested': False, 'early': k}
            self.frames.append(fr)
            self.cur = fr['obs']
            self.top.append(['D', k])
            self.flat.append(['D', k])
            self.early_done.append(k)
            self.stream.append(('early', k))
            try:
                self.deliver(self.log[k][0], self.log[k][1])
            except WouldBlock:
                self.cur += [8]
                self.last_hung = True
            except Exception as e:
                self.cur += [7]
                self.last_raised = True
                self.last_exc = '%s: %s' % (type(e).__name__, e)
            fr['lockend'] = self.locked()
            self.cur = keep

    def serve(self, chan, data):
        st = self.plan[self.served] if self.served < len(self.plan) else 0
        self.served += 1
        if chan not in (1, 2) or len(data) < 5:
            return
        i = data[0]
        addr = data[1] | data[2] << 8 | data[3] << 16 | data[4] << 24
        hd = data[:5]
        if st != 0:
            rep = hd + [st]
        elif chan == 1:
            n = data[5] if len(data) > 5 else 0
            rep = hd + [0] + [self.byte(i, addr + k) for k in range(n)]
        else:
            for k, b in enumerate(data[5:]):
                self.image[(i, addr + k)] = b
            rep = hd + [0]
        self.log.append([chan, rep, (chan, i), self.active_uid(chan, i)])

    def active_uid(self, chan, i):
        """uid of the request that is the active one for this channel and memory: the pending read / the oldest
        queued write (read off the records the property's anchors name)"""
        if chan == 1:
            r = self.mem._read_requests.get(i)
            return None if r is None else self._uid_of(r.mem, 'r')
        q = self.mem._write_requests.get(i)
        return self._uid_of(q[0].mem, 'w') if q else None

    # ---- events
    def fresh(self, ev):
        if ev[0] == 'P':
            return False
        if ev[0] != 'D':
            return True
        k = ev[1]
        if not (0 <= k < len(self.log)):
            return True
        chan, rep, key, uid = self.log[k]
        return uid is not None and self.active_uid(chan, key[1]) == uid

    def deliver(self, chan, data):
        from cflib.crtp.crtpstack import CRTPPacket
        pk = CRTPPacket()
        pk.set_header(4, chan)
        pk.data = bytearray(data)
        cbs = [cb for (port, cb) in self.cf.port_cbs if port == 4]
        if len(cbs) != 1:
            raise RuntimeError('expected exactly one callback on port 4, got %d' % len(cbs))
        self.in_delivery += 1
        try:
            cbs[0](pk)
        finally:
            self.in_delivery -= 1

    def do(self, ev):
        """Execute one event on the real code; returns the integers of this event (and of the operations issued from
        inside its notifications, as events of their own) as `sys_trace` encodes them."""
        self.ev_index += 1
        self.top.append(strip(ev) if ev[0] in ('R', 'W') else list(ev))
        fr = self.fresh(ev)
        self.frames = []
        self._new_frame(fr)
        self.last_raised = self.last_hung = False
        self.last_exc = ''
        try:
            if ev[0] in ('R', 'W'):
                self._issue(ev)
            elif ev[0] in ('DR', 'DW'):
                self._issue_deck(ev)
            else:
                self.flat.append(strip(ev))
                if ev[0] == 'D':
                    if 0 <= ev[1] < len(self.log):
                        self.deliver(self.log[ev[1]][0], self.log[ev[1]][1])
                elif ev[0] == 'P':
                    self.deliver(ev[1], ev[2])
                elif ev[0] == 'X':
                    self.in_disc = True
                    self.in_delivery += 1
                    try:
                        self.cf.disconnected.call('fake://0')
                    finally:
                        self.in_disc = False
                        self.in_delivery -= 1
                    self._register()       # _clear_state() replaces the Caller objects
                    self.mgr = None        # the memories are enumerated again after a reconnect: a new manager
                    self._after_disc()
                    self.mgr_uid = {'r': None, 'w': None}
                else:
                    self._do_other(ev)
        except WouldBlock:
            self.cur += [8]
            self.last_hung = True
        except Exception as e:
            self.cur += [7]
            self.last_raised = True
            self.last_exc = '%s: %s' % (type(e).__name__, e)
        out = [9, 1 if self.frames[0]['fresh'] else 0, 1 if self.locked() else 0] + self.frames[0]['obs']
        for f in self.frames[1:]:
            if f.get('early') is not None:                      # an early reply: an event of its own right after the call
                out += [9, 1 if f['fresh'] else 0, 1 if f.get('lockend') else 0] + f['obs']
                continue
            out += [19, 1 if f['lock'] else 0] + f['obs']       # a request made from inside a notification
            if not f.get('in_disc') and len(f['obs']) > f.get('mark', len(f['obs'])):
                self.obs_after_nested += 1
        return out

    def locked(self):
        return any(lk.locked() for lk in self.locks)

    # ---- state (private attributes named by the property's anchors)
    def enc_client(self):
        m = self.mem
        rr = m._read_requests
        wr = m._write_requests
        out = [1 if self.locked() else 0, len(rr)]
        for i, r in rr.items():
            out += [self._uid_of(r.mem, 'r'), r.mem.id, r.addr, r._bytes_left, r._current_addr, len(r.data)]
        out.append(len(wr))
        for i, q in wr.items():
            out += [i, len(q)]
            for w in q:
                out += [self._uid_of(w.mem, 'w'), w.addr, w._current_addr, len(w._data)]
        return out

    def pending(self):
        """(set of read uids, per id list of write uids) still recorded"""
        m = self.mem
        return ({self._uid_of(r.mem, 'r') for r in m._read_requests.values()},
                {i: [self._uid_of(w.mem, 'w') for w in q] for i, q in m._write_requests.items()})

    def window(self, i, a, n):
        return [self.byte(i, a + k) for k in range(n)]
